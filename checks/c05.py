"""C05: a rule's result does not depend on what else is compiled with it."""
import re
import vlib, build, rulegen
from vlib import hx

PROPS = "Props/Properties_C05.v"


def rule_result(line, name, ns="default"):
    """the part of a scan trace that concerns one rule: verdict and its strings' matches"""
    m = re.search(r"([MN]):%s:%s(:[^;]*)?;" % (re.escape(ns), re.escape(name)), line)
    return m.group(0) if m else None


def related_text(rng, base):
    """strings sharing atoms, prefixes and suffixes with base"""
    k = rng.below(6)
    if k == 0:
        return base[:max(1, len(base) - 1)] + bytes([rng.choice(rulegen.LETTERS)])
    if k == 1:
        return bytes([rng.choice(rulegen.LETTERS)]) + base[1:]
    if k == 2:
        return base + base[:2]
    if k == 3:
        return base[1:] + b"zz" if len(base) > 1 else base + b"q"
    if k == 4:
        return base[: max(1, len(base) // 2)]
    return rulegen.rand_text(rng, 2, 8)


def run(chk):
    tier = chk.tier
    ok, log, st = vlib.proof_obligations(chk, PROPS)
    if not ok:
        chk.violation("proof", "C05 obligations no longer check: " + log[-1200:], {"log": log[-4000:], "generated": st}, found_input=False)
    hscan = build.harness("h_scan")
    model = vlib.build_model()
    n = 60 if tier == "quick" else 600
    cases, meta = [], {}
    metam = {}
    metas = {}
    metap = {}
    for i in range(n):
        r = chk.rng.fork()
        base = rulegen.rand_text(r, 3, 8).replace(b"\0", b"a")
        m = rulegen.rand_text_mods(r)
        m["private"] = False
        decl, _ = rulegen.text_string_decl(r, "$a", base, m)
        hexs = "$h = { %s }" % " ".join("%02X" % c for c in base[:4])
        cond = r.choice(["$a", "#a > 1", "$a at %d" % r.below(8), "$a and filesize > 4", "any of them", "$a or $h",
                         # conditions that hold without any string match (the rule must be evaluated although none of its strings hit)
                         "not $a", "#a == 0", "filesize > 0 or $a", "none of them", "uint8(0) >= 0 or $a"])
        target = "rule target { strings: %s %s condition: %s or (false and $h) }\n" % (decl, hexs, cond)
        atomless = r.chance(1, 3)
        if atomless:
            # a string for which no atom can be extracted: its matches hang off the root state of the automaton and must be
            # inherited by every other state, whatever the other rules put into the automaton
            cls = r.choice(["[0-9][a-f][0-9]", "[a-c][0-9]", "\\d[a-z]\\d", "[0-9a-f][0-9a-f][x-z]"])
            target = "rule target { strings: $a = /%s/ condition: $a }\n" % cls
        others = []
        nothers = r.range(1, 5)
        for k in range(nothers):
            t2 = related_text(r, base)
            if atomless and k < 2:
                # a pair where a prefix of one string has a suffix that is a prefix of the other, in either order
                pair = [base[:4].ljust(4, b"q"), base[1:4].ljust(3, b"q") + bytes([r.choice(b"efgh")])]
                t2 = pair[k] if r.chance(1, 2) else pair[1 - k]
            m2 = rulegen.rand_text_mods(r)
            m2["private"] = False
            d2, _ = rulegen.text_string_decl(r, "$b", t2, m2)
            flags = r.choice(["", "", "private "])
            others.append("%srule o%d { strings: %s $c = /%s[a-z]{1,3}/ condition: any of them }\n" % (
                flags, k, d2, re.sub(rb"[^a-zA-Z0-9]", b"x", base[:3]).decode()))
        imp = r.choice(["", 'import "math"\n'])
        bufs = []
        for _ in range(4):
            size = r.range(8, 120)
            buf = bytearray(r.bytes(size))
            if atomless:
                # the class string matching right after a prefix of a companion string
                stub = base[:3] + bytes([r.choice(b"0123456789"), r.choice(b"abcdef"), r.choice(b"0123456789"), r.choice(b"xyz")])
                p0 = r.below(max(1, size - len(stub)))
                buf[p0:p0 + len(stub)] = stub[:max(0, size - p0)]
            for _ in range(r.range(1, 4)):
                v = base if r.chance(1, 2) else related_text(r, base)
                if m["wide"] and r.chance(1, 2):
                    v = b"".join(bytes([c, 0]) for c in v)
                if len(v) <= size:
                    p = r.below(size - len(v) + 1)
                    buf[p:p + len(v)] = v
            bufs.append(bytes(buf))
        scans = ["scan " + hx(b) for b in bufs]
        # A: alone
        cases.append(("A%d" % i, ["newcompiler", "add " + hx(target.encode()), "getrules", "scanner 0"] + scans))
        # B: in company, target last
        cases.append(("B%d" % i, ["newcompiler", "add " + hx((imp + "".join(others) + target).encode()), "getrules", "save", "scanner 0"] + scans))
        # C: company permuted, target first, others in another namespace and via separate add calls, cut at a rule boundary
        perm = list(others)
        r.shuffle(perm)
        cmds = ["newcompiler", "add " + hx(target.encode())]
        for k, o in enumerate(perm):
            cmds += ["ns " + ("nsX" if k % 2 else "-"), "add " + hx(((imp if k == 0 else "") + o).encode())]
        cases.append(("C%d" % i, cmds + ["getrules", "scanner 0"] + scans))
        # D: everything through includes cut at token boundaries
        toks = (imp + "".join(others) + target)
        nl = [k + 1 for k, ch in enumerate(toks) if ch == "\n"]
        cut = r.choice(nl[:-1]) if len(nl) > 1 else len(toks)
        files = ["file part1.yar " + hx(toks[:cut].encode()), "file part2.yar " + hx(toks[cut:].encode())]
        cases.append(("D%d" % i, files + ["newcompiler", "add " + hx(b'include "part1.yar"\ninclude "part2.yar"\n'), "getrules", "scanner 0"] + scans))
        # G: many unrelated rules before the target (per-rule bitmaps longer than one word), some with conditions that need no string
        filler = "".join("rule f%d { condition: %s }\n" % (k, r.choice(["false", "true", "filesize < 0"])) for k in range(r.choice([63, 64, 65, 70, 130])))
        cases.append(("G%d" % i, ["newcompiler", "add " + hx((imp + filler + "".join(others) + target).encode()), "getrules", "scanner 0"] + scans))
        # E/F: global rules constrain the rules of their own namespace only, however the namespace's text is handed over:
        # namespace nsB = a global gate rule + target, in one add call (E) or in two add calls with another namespace in between
        # and before it (F); the gate is false on some of the buffers
        gate = "global rule gate { condition: filesize > %d }\n" % r.choice([20, 40, 60])
        other_gate = "global rule ogate { condition: filesize < 1 }\n" if r.chance(1, 2) else ""
        first = others[0] if others else "rule o0 { condition: true }\n"
        cases.append(("E%d" % i, ["newcompiler", "ns nsA", "add " + hx((imp + other_gate + first).encode()), "ns nsB", "add " + hx((gate + target).encode()),
                                  "getrules", "scanner 0"] + scans))
        cases.append(("F%d" % i, ["newcompiler", "ns nsA", "add " + hx((imp + other_gate + first).encode()), "ns nsB", "add " + hx(gate.encode()),
                                  "ns nsA", "add " + hx(b"rule later { condition: true }\n"), "ns nsB", "add " + hx(target.encode()),
                                  "getrules", "scanner 0"] + scans))
        # J/K: a target whose atoms have edges for the extreme byte values (00, FF), compiled after / before ~250 companions whose atoms start
        # with every other byte value: where a state lands in the packed transition table depends on all the other states
        t0 = r.choice([0x41, 0x10, 0x7E, 0xFE])
        tgt2 = "rule target2 { strings: $t = { %02X %s %02X %02X } condition: $t }\n" % (t0, r.choice(["FF", "00", "FF FF", "FE"]), r.below(256), r.below(256))
        tv = bytes(int(x, 16) for x in re.search(r"\{ ([0-9A-F ]+) \}", tgt2).group(1).split())
        comp = "".join("rule c%d { strings: $c = { %02X %02X %02X %02X } condition: $c }\n" % (k, k, (k * 7 + 1) % 256, (k * 13 + 2) % 256, 0x33)
                       for k in range(r.choice([200, 254, 255])) if k != t0)
        jscans = ["scan " + hx(b".." + tv + b".."), "scan " + hx(tv), "scan " + hx(b"zz")]
        cases.append(("J%d" % i, ["newcompiler", "add " + hx(tgt2.encode()), "getrules", "scanner 0"] + jscans))
        cases.append(("K%d" % i, ["newcompiler", "add " + hx((comp + tgt2).encode()), "getrules", "scanner 0"] + jscans))
        cases.append(("L%d" % i, ["newcompiler", "add " + hx((tgt2 + comp).encode()), "getrules", "scanner 0"] + jscans))
        # M/N/O: a target whose atom is a proper suffix of the atom of a companion string, the companion's atom lying deep inside its string
        # (large backtrack): in the state reached after the companion's atom the match list holds the companion's entry (cannot be verified near
        # the start of a block) followed by the inherited entry of the target; data with the atom inside the first `backtrack` bytes of the block
        t3 = bytes(r.choice(b"BCDFGHJKLMNPQRSTVWXZbcdfghjkmnpqrstvwxz") for _ in range(r.choice([2, 3, 3])))
        lead = r.choice(b"BCDFGHJKLMNPQRSTVWXZ")
        gap = r.range(4, 14)
        # the companion must be a plain literal (a string with jumps/wildcards is verified through backward code and has a small backtrack);
        # its leading bytes are low-quality atom material (00 / FF / 20), so the atom chosen is its tail
        fillb = r.choice([0x00, 0x00, 0xFF, 0x20])
        deep_s = "{ %s %02X %s }" % (" ".join("%02X" % fillb for _ in range(gap)), lead, " ".join("%02X" % c for c in t3))
        if r.chance(1, 3):
            deep_s = '"' + "".join("\\x%02x" % fillb for _ in range(gap)) + "%c%s" % (lead, t3.decode()) + '"' + r.choice(["", " ascii", " private"])
        tgt3 = "rule target3 { strings: $t = \"%s\" condition: $t }\n" % t3.decode()
        deep = "rule deep%d { strings: $d = %s condition: $d }\n" % (i, deep_s)
        atom3 = bytes([lead]) + t3
        mbufs = [atom3 + b"..", b"." + atom3, b"." * r.range(2, gap + 1) + atom3 + b".", b"." * (gap + 1) + atom3, bytes([fillb]) * gap + atom3 + b"!",
                 atom3 + bytes([fillb]) * gap + atom3, bytes(r.bytes(3)) + atom3 + t3]
        mscans = ["scan " + hx(b) for b in mbufs]
        cases.append(("M%d" % i, ["newcompiler", "add " + hx(tgt3.encode()), "getrules", "scanner 0"] + mscans))
        cases.append(("N%d" % i, ["newcompiler", "add " + hx((deep + tgt3).encode()), "getrules", "scanner 0"] + mscans))
        cases.append(("O%d" % i, ["newcompiler", "add " + hx(tgt3.encode()), "ns nsX", "add " + hx(deep.encode()), "getrules", "scanner 0"] + mscans))
        meta_m = (tgt3, deep, mbufs)
        # P/Q/R: a regexp target with a bounded gap, alone vs with a companion regexp whose execution ends while one of its threads is still
        # counting a gap (ungreedy gap matched early / newline inside a gap / end of data): the regexp engine's thread pool is shared by all
        # strings of a scan; data with a near miss of the target whose gap is too short and a proper occurrence
        w = lambda k: bytes(r.choice(b"abcdefghjkmnpqrstuvwxyz") for _ in range(k)).decode()
        c1, c2, t1, t2 = w(4), w(4).upper(), w(2), w(4)
        gmin = r.range(3, 9)
        gmax = gmin + r.range(0, 5)
        comp_re = r.choice(["/%s.{2,20}?%s/" % (c1, c2), "/%s.{1,30}%s/" % (c1, c2), "/%s.{2,}?%s/" % (c1, c2), "{ %s [2-20] %s }" % (
            " ".join("%02X" % ord(x) for x in c1), " ".join("( %02X | %02X )" % (ord(x), ord(x) ^ 0x20) for x in c2))])
        tgt4 = "rule target4 { strings: $a = /%s.{%d,%d}%s/ condition: $a }\n" % (t1, gmin, gmax, t2)
        comp4 = "rule comp4 { strings: $c = %s condition: $c }\n" % comp_re
        short = r.range(0, gmin - 1)
        pbufs = [(c1 + "12" + c2 + "." * r.range(1, 9) + t1 + "X" * short + t2 + "....").encode(),
                 (c1 + "1\n2" + c2 + " " + t1 + "Y" * short + t2 + " " + t1 + "Z" * gmin + t2).encode(),
                 (t1 + "X" * short + t2 + c1 + "123" + c2 + t1 + "X" * short + t2 + c1 + "12").encode(),
                 (c1 + "12" + c2 + c1 + "1234567" + t1 + "q" * gmax + t2 + t1 + "q" * (gmax + 1) + t2).encode()]
        pscans = ["scan " + hx(b) for b in pbufs]
        cases.append(("P%d" % i, ["newcompiler", "add " + hx(tgt4.encode()), "getrules", "scanner 0"] + pscans))
        cases.append(("Q%d" % i, ["newcompiler", "add " + hx((comp4 + tgt4).encode()), "getrules", "scanner 0"] + pscans))
        cases.append(("R%d" % i, ["newcompiler", "add " + hx((tgt4 + comp4).encode()), "getrules", "scanner 0"] + pscans))
        metap[i] = (tgt4, comp4, pbufs)
        # S/T/U: a companion whose string exceeds the per-string match cap (the scanner then ignores THAT string for the rest of the scan and
        # tells the callback): the target's string, occurring before and after the point where the cap is hit, must still be found
        if i < (1 if tier == "quick" else 3):
            cap = int(vlib.consts().get("YR_MAX_STRING_MATCHES", 1000000))
            vss = [bytes(r.choice(b"BCDFGHJKLMNP") for _ in range(8)) + bytes([0x30 + k]) for k in range(4)]
            noisy_b = r.choice(b"xyz")
            # every string of the target occurs before AND after the point where the cap is hit (the bookkeeping of "this string is ignored for
            # the rest of the scan" is per string: whatever index it uses must be the noisy string's, in every position of the rule list)
            victim = 'rule victim { strings: %s condition: all of them }\n' % " ".join('$v%d = "%s"' % (k, v.decode()) for k, v in enumerate(vss))
            noisy = 'private rule noisy { strings: $n = "%c" condition: #n > 10 }\n' % noisy_b
            allv = b".".join(vss)
            big = allv + b"." + bytes([noisy_b]) * (cap + 50) + b"." + allv + b"." + bytes([noisy_b]) * 20 + allv
            sb = ["scan " + hx(big)]
            cases.append(("S%d" % i, ["newcompiler", "add " + hx(victim.encode()), "getrules", "scanner 0"] + sb))
            cases.append(("T%d" % i, ["newcompiler", "add " + hx((victim + noisy).encode()), "getrules", "scanner 0"] + sb))
            cases.append(("U%d" % i, ["newcompiler", "add " + hx((noisy + victim).encode()), "getrules", "scanner 0"] + sb))
            padr = "rule padq0 { condition: true }\nrule padq1 { condition: false }\n"
            cases.append(("V%d" % i, ["newcompiler", "add " + hx((padr + victim + noisy).encode()), "getrules", "scanner 0"] + sb))
            cases.append(("W%d" % i, ["newcompiler", "add " + hx((victim + padr + noisy).encode()), "getrules", "scanner 0"] + sb))
            metas[i] = (victim, noisy, len(big))
        # H/I: rule sets with a wildcard (`all of (pk_*)`) select rules of their OWN namespace only: namespace nsB alone (H) vs after a
        # namespace nsA that has rules with the same prefix and other verdicts (I)
        pk = "rule pk_1 { condition: filesize > %d }\nrule pk_2 { condition: true }\n" % r.choice([20, 40, 60])
        users = ("rule all_pk { condition: all of (pk_*) }\nrule any_pk { condition: any of (pk_*) }\nrule none_pk { condition: none of (pk_*) }\n"
                 "rule two_pk { condition: 2 of (pk_*) }\nrule named { condition: any of (pk_1, pk_2) }\n")
        foreign = "rule pk_0 { condition: false }\nrule pk_3 { condition: true }\nrule pk_9 { condition: filesize < 30 }\n"
        cases.append(("H%d" % i, ["newcompiler", "ns nsB", "add " + hx((pk + users).encode()), "getrules", "scanner 0"] + scans))
        cases.append(("I%d" % i, ["newcompiler", "ns nsA", "add " + hx(foreign.encode()), "ns nsB", "add " + hx((pk + users).encode()),
                                  "getrules", "scanner 0"] + scans))
        meta[i] = (target, others, bufs, imp)
        metam[i] = meta_m
    out, err = vlib.run_cases(hscan, cases, timeout=3000, jobs=16)
    agree = 0
    nontriv = set()
    certq, certid = [], []
    for i in range(n):
        target, others, bufs, imp = meta[i]
        res = {}
        bad = False
        for v in "ABCDG":
            lines = out.get("%s%d" % (v, i), [])
            sc = [l for l in lines if l.startswith("scan msgs=")]
            if len(sc) != len(bufs) or any(l.startswith("crash") for l in lines):
                chk.violation("run", "variant %s did not run: %s" % (v, lines[-3:]), {"target": target, "others": others, "output": lines[-5:]},
                              found_input=any(l.startswith("crash") for l in lines))
                bad = True
                break
            res[v] = [rule_result(l, "target") for l in sc]
        if bad:
            continue
        for v in "BCDG":
            for bi in range(len(bufs)):
                if res[v][bi] != res["A"][bi]:
                    chk.violation("company:" + {"B": "appended", "C": "permuted+namespaces+split", "D": "includes", "G": "after-many-rules"}[v],
                                  "rule 'target' alone: %s ; in company (%s): %s" % (res["A"][bi], v, res[v][bi]),
                                  {"target": target, "others": others, "import": imp, "buffer_hex": hx(bufs[bi]), "variant": v,
                                   "alone": res["A"][bi], "company": res[v][bi]})
                    bad = True
                    break
            if bad:
                break
        if not bad:
            le = [l for l in out.get("E%d" % i, []) if l.startswith("scan msgs=")]
            lf = [l for l in out.get("F%d" % i, []) if l.startswith("scan msgs=")]
            if len(le) != len(bufs) or len(lf) != len(bufs):
                chk.violation("run", "namespace variants did not run: %s / %s" % (out.get("E%d" % i, [])[-2:], out.get("F%d" % i, [])[-2:]),
                              {"target": target, "others": others}, found_input=False)
                bad = True
            else:
                for bi in range(len(bufs)):
                    re_, rf = rule_result(le[bi], "target", "nsB"), rule_result(lf[bi], "target", "nsB")
                    if re_ != rf:
                        chk.violation("company:namespace-split", "rule nsB:target with its namespace compiled in one add call: %s ; in two add calls with another "
                                      "namespace in between: %s" % (re_, rf),
                                      {"target": target, "first": others[:1], "buffer_hex": hx(bufs[bi]), "whole": le[bi][:300], "split": lf[bi][:300],
                                       "how": "h_scan cases E/F of checks/c05.py: ns nsA; add ..; ns nsB; add gate(+target); [ns nsA; add ..; ns nsB; add target]"})
                        bad = True
                        break
                    if re_ and re_[0] == "N" and res["A"][bi] and res["A"][bi][0] == "M":
                        chk.add("gate_false_target_true")
        if not bad:
            lj = [rule_result(l, "target2") for l in out.get("J%d" % i, []) if l.startswith("scan msgs=")]
            for v in "KL":
                lk = [rule_result(l, "target2") for l in out.get("%s%d" % (v, i), []) if l.startswith("scan msgs=")]
                if len(lj) != 3 or lk != lj:
                    chk.violation("company:table-layout", "rule target2 alone: %s ; %s ~250 rules whose atoms start with every other byte value: %s"
                                  % (lj, "after" if v == "K" else "before", lk), {"variant": v, "alone": lj, "company": lk,
                                   "how": "h_scan cases J/K/L of checks/c05.py (seed %d, item %d)" % (chk.seed, i)})
                    bad = True
                    break
        if not bad:
            tgt3, deep, mbufs = metam[i]
            lm = [rule_result(l, "target3") for l in out.get("M%d" % i, []) if l.startswith("scan msgs=")]
            for v in "NO":
                ln = [rule_result(l, "target3") for l in out.get("%s%d" % (v, i), []) if l.startswith("scan msgs=")]
                if len(lm) != len(mbufs) or ln != lm:
                    bi = next((k for k in range(min(len(lm), len(ln))) if lm[k] != ln[k]), 0)
                    chk.violation("company:deep-atom-companion", "rule target3 alone: %s ; together with a rule whose atom ends with target3's atom and lies deep "
                                  "inside its string: %s" % (lm[bi:bi + 1], ln[bi:bi + 1]),
                                  {"target": tgt3, "companion": deep, "buffer_hex": hx(mbufs[bi]) if bi < len(mbufs) else None, "alone": lm, "company": ln,
                                   "variant": v, "how": "h_scan: newcompiler; add <companion + target>; getrules; scanner 0; scan <buffer_hex>"})
                    bad = True
                    break
                if any(x and x[0] == "M" for x in lm[:3]):
                    chk.add("deep_atom_near_block_start_matches")
        if not bad and i in metas:
            victim, noisy, blen = metas[i]
            ls_ = [rule_result(l, "victim") for l in out.get("S%d" % i, []) if l.startswith("scan msgs=")]
            for v in "TUVW":
                lt = [rule_result(l, "victim") for l in out.get("%s%d" % (v, i), []) if l.startswith("scan msgs=")]
                if len(ls_) != 1 or lt != ls_:
                    chk.violation("company:match-cap-of-another-string", "rule victim alone: %s ; compiled %s a rule whose string exceeds the per-string match cap: %s"
                                  % ([x[:120] if x else x for x in ls_], {"T": "before", "U": "after", "V": "after two other rules and before", "W": "two rules before"}[v], [x[:120] if x else x for x in lt]),
                                  {"target": victim, "companion": noisy, "buffer": "victim string, '.', %d x the companion's byte, '.', victim string, ... (%d bytes)" % (blen - 60, blen),
                                   "variant": v, "output_alone": [l[:200] for l in out.get("S%d" % i, [])[-3:]], "output_company": [l[:200] for l in out.get("%s%d" % (v, i), [])[-3:]],
                                   "how": "h_scan: newcompiler; add <victim + noisy | noisy + victim>; getrules; scanner 0; scan <buffer>"})
                    bad = True
                    break
            if not bad:
                chk.add("match_cap_company_cases")
        if not bad:
            tgt4, comp4, pbufs = metap[i]
            lp = [rule_result(l, "target4") for l in out.get("P%d" % i, []) if l.startswith("scan msgs=")]
            for v in "QR":
                lq = [rule_result(l, "target4") for l in out.get("%s%d" % (v, i), []) if l.startswith("scan msgs=")]
                if len(lp) != len(pbufs) or lq != lp:
                    bi = next((k for k in range(min(len(lp), len(lq))) if lp[k] != lq[k]), 0)
                    chk.violation("company:regexp-thread-pool", "rule target4 alone: %s ; together with another regexp string (%s it): %s"
                                  % (lp[bi:bi + 1], "after" if v == "Q" else "before", lq[bi:bi + 1]),
                                  {"target": tgt4, "companion": comp4, "buffer_hex": hx(pbufs[bi]) if bi < len(pbufs) else None, "alone": lp, "company": lq,
                                   "variant": v, "how": "h_scan: newcompiler; add <companion + target>; getrules; scanner 0; scan <each buffer in turn on the same scanner>"})
                    bad = True
                    break
        if not bad:
            lh = [l for l in out.get("H%d" % i, []) if l.startswith("scan msgs=")]
            li = [l for l in out.get("I%d" % i, []) if l.startswith("scan msgs=")]
            if len(lh) != len(bufs) or len(li) != len(bufs):
                chk.violation("run", "rule-set variants did not run: %s / %s" % (out.get("H%d" % i, [])[-2:], out.get("I%d" % i, [])[-2:]), {}, found_input=False)
                bad = True
            else:
                for bi in range(len(bufs)):
                    vh = sorted(re.findall(r"M:nsB:(\w+)", lh[bi]))
                    vi = sorted(re.findall(r"M:nsB:(\w+)", li[bi]))
                    if vh != vi:
                        chk.violation("company:rule-set-wildcard", "rules of namespace nsB matching alone: %s ; after a namespace with rules of the same prefix: %s" % (vh, vi),
                                      {"buffer_hex": hx(bufs[bi]), "alone": lh[bi][:300], "company": li[bi][:300],
                                       "how": "h_scan cases H/I of checks/c05.py: [ns nsA; add pk_0/pk_3/pk_9;] ns nsB; add pk_1, pk_2 and rules using (pk_*)"})
                        bad = True
                        break
        if not bad:
            agree += 1
            nontriv.add((len(others), tuple(x[0] if x else "?" for x in res["A"])))
        img = [l for l in out.get("B%d" % i, []) if l.startswith("save rc=0 image=")]
        if img and len(certq) < (20 if tier == "quick" else 80):
            certq.append("accert " + img[0].split("image=")[1])
            certid.append(i)
    cres, _ = vlib.run_lines(model, certq, timeout=3000)
    cert_true = 0
    for i, r_ in zip(certid, cres):
        if r_.startswith("cert=true"):
            cert_true += 1
        else:
            chk.violation("cert:ac", "the automaton of a combined rule set does not pass ac_cert: %s" % r_[:200],
                          {"target": meta[i][0], "others": meta[i][1], "model": r_[:500]}, found_input=False)
    chk.note(evaluations=4 * n, distinct_nontrivial=len(nontriv), traces_validated_against_impl=agree, images_checked=len(certq), cert_true=cert_true,
             rule="a target rule (text string with random modifiers + hex string, 6 condition shapes) alone vs together with 1-4 other rules whose "
                  "strings share atoms/prefixes/suffixes with it (and a regex, private rules, an import), appended / permuted over namespaces and "
                  "separate add calls / through two include files cut inside the rule list; 4 buffers each; ac_cert on the combined image; "
                  "distinct = (#other rules, verdict vector)")
    chk.sample({"target": meta[0][0], "others": meta[0][1]})
