"""C16: allocation failure anywhere is reported, never suffered (PARTIAL).

Proved (coq/Props/Properties_C16.v): fail-safety of the AllocLang translations of the arena, notebook, stack,
hash-table, atom-list builders and yr_scanner_create, for every failing-allocation set.
Tie (a): the same functions of libyara.a and the extracted model run on the same inputs with the same failing
index k: return class, live-allocation delta and total allocation count are compared.
Explored (b): scenario pipelines (initialize, compile, save, load, scanner create, scan) with the k-th allocation
(optionally every later one) failing, for every k up to the scenario's allocation count, under ASan+LSan.
"""
import os, re, subprocess, json, time
from concurrent.futures import ThreadPoolExecutor
import vlib, build
from vlib import hx

PROPS = "Props/Properties_C16.v"
LEVEL = "proof"
WRAP = ["-Wl,--wrap=malloc,--wrap=calloc,--wrap=realloc,--wrap=strdup,--wrap=strndup,--wrap=free", "-no-pie"]
ERROR_INSUFFICIENT_MEMORY = 1
SKIP_FRAMES = {"should_fail", "__wrap_malloc", "__wrap_calloc", "__wrap_realloc", "__wrap_strdup", "__wrap_strndup",
               "yr_malloc", "yr_calloc", "yr_realloc", "yr_strdup", "yr_strndup", "??"}

INC = b'rule inc_rule { strings: $i = "included" condition: $i or true }'

SRC_TEXT = b'''rule t1 : tag1 tag2 { meta: author = "x" n = 3 b = true
 strings: $a = "needle" wide nocase $b = "Haystack" ascii wide fullword $c = "xorme" xor(1-3) $d = "b64text" base64 $e = "priv" private
 condition: $a or $b or $c or $d or $e }'''
SRC_REGEX = b'''rule r1 { strings: $a = /ab+c[0-9]{2,3}/ $b = /(foo|ba[rz])x*y?/i $c = /n.{1,4}e/s wide $d = /\\bwor[^a]d\\b/ $e = /a{2}(b|c){1,2}$/
 condition: any of them and "abc" matches /a.c/ }'''
SRC_HEX = b'''rule h1 { strings: $a = { 6E 65 65 [1-3] 6C 65 } $b = { 01 02 [2-4] ( 03 | 04 05 ) ?? 07 } $c = { AA ?B C? [0-300] DD EE } $d = { 78 78 [-] 79 79 } $e = { 6E ~65 65 }
 condition: any of them }'''
SRC_COND = b'''global private rule g0 { condition: filesize > 0 }
rule c1 { strings: $s1 = "aa" $s2 = "needle" condition: for all i in (1..#s1) : ( @s1[i] + 2 < filesize ) and any of ($s*) in (0..100) and !s2[1] == 6 }
rule c2 { condition: c1 and ext_i + 1 > 1 and ext_s contains "b" and ext_s matches /a.c/ and ext_b and for any k in (1,2,3) : ( k == 2 ) }
rule c3 { condition: uint16(0) == 0x7878 or int32be(4) < 0 or (1 + 2 * 3 \\ 4 % 5 - -6) >> 1 << 2 | 3 & 4 ^ ~5 == 0 or 2 of (c1, c2) or "ab" == "ab" }
rule c4 { strings: $a = "nee" condition: for any of them : ( $ at 3 ) and defined $a and not defined uint8(filesize) and 1.5 + 2 > 3.0 }'''
SRC_INCLUDE = b'include "inc.yar"\nrule uses_inc { condition: inc_rule }'
SRC_MODS = b'''import "math" import "hash" import "string" import "time" import "console"
rule m1 { condition: math.entropy(0, filesize) >= 0.0 and math.max(1, 2) == 2 and hash.md5(0, filesize) != "" and hash.crc32("abc") > 0
 and string.to_int("12") == 12 and string.length("abc") == 3 and time.now() > 0 and console.log("x: ", filesize) and console.hex(1)
 and math.to_string(10, 16) == "a" and hash.sha256(0, 4) != hash.sha1(0, 4) and math.mean(0, filesize) > 0.0 and math.mode() >= 0 }'''
SRC_PE = b'''import "pe"
rule p1 { condition: pe.number_of_sections >= 0 and (pe.is_pe or true) and for any s in pe.sections : ( s.name != "" ) and pe.imphash() != "" and pe.imports("kernel32.dll") >= 0
 and not pe.exports("x") and (pe.version_info["CompanyName"] contains "x" or true) and pe.calculate_checksum() >= 0 and pe.number_of_signatures >= 0 and pe.rich_signature.offset >= 0 or true }'''
SRC_ELF = b'import "elf"\nrule e1 { condition: elf.number_of_sections >= 0 and for any s in elf.sections : ( s.name != "" ) and for any s in elf.symtab : ( s.name != "" ) and elf.telfhash() != "" and elf.import_md5() != "" or true }'
SRC_DOTNET = b'import "dotnet"\nrule d1 { condition: dotnet.is_dotnet and dotnet.number_of_streams >= 0 and for any c in dotnet.classes : ( c.name != "" and for any m in c.methods : ( m.name != "" ) ) and dotnet.number_of_guids >= 0 or true }'
SRC_MACHO = b'import "macho"\nrule o1 { condition: macho.magic >= 0 and macho.number_of_segments >= 0 and for any s in macho.segments : ( s.segname != "" ) and macho.file_index_for_arch(7) >= 0 and macho.entry_point_for_arch(7) >= 0 or true }'
SRC_DEX = b'import "dex"\nrule x1 { condition: dex.header.magic != "" and dex.number_of_fields >= 0 and for any i in (0..dex.header.string_ids_size) : ( dex.string_ids[i].value != "" ) and dex.has_method("x") or true }'
SRC_4MODS = (b'import "elf" import "dotnet" import "macho" import "dex"\n' + b"\n".join(x.split(b"\n", 1)[1] for x in (SRC_ELF, SRC_DOTNET, SRC_MACHO, SRC_DEX)))
SRC_ALL = SRC_TEXT + b"\n" + SRC_REGEX + b"\n" + SRC_HEX
SRC_SMALL = b'rule s { strings: $a = "needle" $b = /ne+dle/ condition: $a and $b and ext_i == 1 }'
SRC_MANY = b"\n".join(b'rule many%d { strings: $a = "ab" $b = /[a-c]{1,3}x?/ $c = { 61 [0-2] 62 } condition: #a > 1 or #b > 1 or #c > 1 }' % i for i in range(3))

DATA_TEXT = (b"xx needle yy abbc12 foo barxxy n\x00e\x00e\x00d\x00l\x00e\x00 Haystack H\x00a\x00y\x00s\x00t\x00a\x00c\x00k\x00 "
             b"ypsnf ymslf \x01\x02\x00\x00\x03\x00\x07 \x01\x02\x00\x00\x00\x04\x05\x09\x07 \xaa\x0b\xc1 zz \xdd\xee neeXle aa aa aa "
             b"YjY0dGV4dA word nXXe aabc xx....yy priv " + b"ab" * 40 + b" abc acb bca cab" * 20)


def data_file(name):
    return os.path.join(build.REPO, "tests", "data", name)


def scenarios(tier):
    """(name, src, data spec, window, exhaustive_limit) ; above the limit k is sampled in the quick tier."""
    T = tier == "thorough"
    big = 10 ** 9 if T else 0
    S = [
        ("init", SRC_SMALL, DATA_TEXT, "init", 10 ** 9),
        ("compile_text", SRC_TEXT, DATA_TEXT, "compile", 10 ** 9),
        ("compile_regex", SRC_REGEX, DATA_TEXT, "compile", 10 ** 9),
        ("compile_hex", SRC_HEX, DATA_TEXT, "compile", 10 ** 9),
        ("compile_cond", SRC_COND, DATA_TEXT, "compile", 10 ** 9),
        ("compile_include", SRC_INCLUDE, DATA_TEXT, "compile", 10 ** 9),
        ("compile_mods", SRC_MODS, DATA_TEXT, "compile", 1200 if not T else big),
        ("compile_pe", SRC_PE, ("file", "tiny"), "compile", 300 if not T else big),
        ("compile_elf_dotnet_macho_dex", SRC_4MODS, DATA_TEXT, "compile", 300 if not T else big),
        ("save", SRC_ALL, DATA_TEXT, "save", 10 ** 9),
        ("load", SRC_ALL, DATA_TEXT, "load", 10 ** 9),
        ("screate", SRC_COND, DATA_TEXT, "screate", 10 ** 9),
        ("scan_strings", SRC_ALL, DATA_TEXT, "scan", 10 ** 9),
        ("scan_many", SRC_MANY, DATA_TEXT, "scan", 10 ** 9),
        ("scan_cond", SRC_COND, DATA_TEXT, "scan", 10 ** 9),
        ("scan_mods", SRC_MODS, DATA_TEXT, "scan", 10 ** 9),
        ("scan_pe", SRC_PE, ("file", "tiny"), "scan", 400 if not T else big),
        ("scan_pe_imports", SRC_PE, ("file", "pe_imports"), "scan", 150 if not T else big),
        ("scan_elf", SRC_ELF, ("file", "elf_with_imports"), "scan", 300 if not T else big),
        ("scan_dotnet", SRC_DOTNET, ("file", "bad_dotnet_pe"), "scan", 300 if not T else big),
        ("scan_dotnet2", SRC_DOTNET, ("file", "0ca09bde7602769120fadc4f7a4147347a7a97271370583586c9e587fd396171"), "scan", 300 if not T else big),
        ("scan_macho", SRC_MACHO, ("file", "tiny-macho"), "scan", 300 if not T else big),
        ("scan_macho_universal", SRC_MACHO, ("file", "tiny-universal"), "scan", 200 if not T else big),
        ("scan_dex", SRC_DEX, ("file", "c6f9709feccf42f2d9e22057182fe185f177fb9daaa2649b4669a24f2ee7e3ba_0h_410h"), "scan", 300 if not T else big),
        ("all_small", SRC_SMALL, DATA_TEXT, "init,compile,save,load,screate,scan", 10 ** 9),
    ]
    return S + re_scenarios(tier) + base64_scenarios(tier) + growth_scenarios(tier) + history_scenarios(tier)


# ------------------------------------------------------------------ regexp execution: every action path of yr_re_exec on a fresh scanner
def re_scenarios(tier):
    """One regexp per scenario (the scanner's fiber pool is empty when the scan starts, so the first split really allocates).
    The regexps come from a small grammar: literal prefix, zero-width assertion (\b \B ^ $ or none), an element that splits the
    fiber (alternation, ? * + {n,m}, greedy and ungreedy, classes), in both orders and nested, mirrored in front of a long atom
    (backwards execution), with nocase / wide variants, the fast path (hex jumps, /ab.{1,3}cd/) and the `matches` operator.
    Every entry carries data that reaches and satisfies it: the baseline must match."""
    out = []

    def add(tag, rx, data, mods="", cond=None):
        if cond is None:
            src = "rule re { strings: $a = /%s/%s condition: $a }" % (rx, (" " + mods) if mods else "")
        else:
            src = "rule re { condition: %s }" % cond
        out.append(("re_%03d_%s" % (len(out), tag), src.encode("latin-1"), data, "scan", 10 ** 9))
    # splitting elements that can follow `abc\b` (start with a non-word character) / `abc\B` (start with a word character)
    nw = [("( x| y)", " x"), (" ?x", " x"), (" *x", "  x"), (" +x", " x"), (" {1,2}x", "  x"), (" *?x", " x"), (" +?x", "  x"),
          (" {1,3}?x", "  x"), ("[ -]x?", "-"), ("( |-)+z", " - z"), ("( (x|y)| z)w", " yw"), (".*x", " qqx"), (".{1,3}x", " qx")]
    wd = [("(d|e)", "d"), ("d?e", "e"), ("d*e", "dde"), ("d+e", "de"), ("d{1,2}e", "dde"), ("d*?e", "de"), ("d+?e", "dde"),
          ("d{1,3}?e", "dde"), ("[de]f?", "d"), ("(d|e)+z", "dedz"), ("((d|e)f|g(h|i))z", "giz"), ("\\w*z", "qqz"), ("\\w{1,3}z", "qz")]
    for rx, ex in nw:
        add("b_split", "abc\\b" + rx, ("zz abc" + ex + " zz abc" + ex + " zz").encode())
    for rx, ex in wd:
        add("B_split", "abc\\B" + rx, ("zz abc" + ex + " zz abc" + ex + " zz").encode())
    for rx, ex in wd[:9]:
        add("none_split", "abc" + rx, ("zz abc" + ex + " zz").encode())
    for rx, ex in (("(a|b)cde", "acde"), ("a?bcde", "bcde"), ("a*bcde", "aabcde"), ("a+?bcde", "abcde"), ("a{1,2}bcde", "aabcde"), ("(ab|cd)+efg", "abcdefg"),
                   ("\\b(a|b)cde", "acde"), ("\\b\\b(a|b)cde", "bcde")):
        add("caret_split", "^" + rx, (ex + " zz " + ex).encode())
    for rx in ("c?", "(c|d)?", "c*", "c{0,2}", "(c|d)*?", "\\b(c|d)?", "$c?"):
        add("dollar_split", "xyzab$" + rx, b"zz xyzab zz xyzab")
    # the split first, then the assertion
    for rx, ex in (("(d|e)\\b", "d"), ("d?\\b ", " "), ("(d|e)+\\Bf", "def"), ("d*\\b", "dd"), ("(d|e){1,2}\\b( x| y)", "de y"), ("d+?\\b", "d")):
        add("split_assert", "abc" + rx, ("zz abc" + ex + " zz").encode())
    # backwards execution: the atom is the long literal, what precedes it runs on the reversed code
    for rx, ex in (("( x| y)\\B", " x"), ("( |-)?\\b", "-"), ("[ -]*\\b", " - "), (" {1,2}\\b", "  "), ("(a|b)\\B", "a"), ("(a|b)+?\\B", "ab"), ("a{1,3}\\B", "aa"),
                   ("\\b(a|b)*", "ab"), ("^(a|b)?", "a"), ("\\ba?(b|c)\\B", "ac")):
        add("backward", rx + "qqneedleword", (ex + "qqneedleword zz " + ex + "qqneedleword").encode() if rx.startswith("^") else
            ("zz " + ex + "qqneedleword zz").encode())
    add("middle", "(a|b)\\Bqqneedleword\\b( x| y)", b"zz aqqneedleword y zz")
    add("middle", "(a|b){1,2}?\\Bqqneedleword$( x)??", b"zz abqqneedleword")
    # repeats, jumps, nested alternations
    for rx, ex in (("ab{2,3}c", "abbc"), ("a(bc){1,2}d", "abcbcd"), ("a(bc){2,3}?d", "abcbcd"), ("ab.{1,3}cd", "abxxcd"), ("ab.*cd", "abxxcd"), ("ab.*?cd", "abxcd"),
                   ("ab.+cd", "abxcd"), ("a[bc]{2,}d", "abcbd"), ("ab{2,}?c", "abbbc"), ("a((b|c)d|e(f|g))h", "acdh"), ("a(b|c(d|e(f|g)))h", "acegh"),
                   ("(ab|a)(bc|c)d", "abcd"), ("a(b{1,2}|c{2,3})+d", "abccbd"), ("ab(\\b|c)d?", "ab"), ("a.{2}?b.{1,2}?c", "axxbxc"), ("(abc|abd|abe){2}", "abdabe"),
                   ("a\\d+\\.\\d{1,3}b", "a12.5b"), ("ab[^c]{1,4}c", "abxxc")):
        add("repeat", rx, ("zz " + ex + " zz " + ex + " zz").encode())
    # modifiers
    for rx, ex in (("abc\\b( x| y)", "abc x"), ("abc\\B(d|e)+f", "abcdef"), ("ab{2,3}c", "abbc"), ("a(b|c(d|e))f", "acef")):
        add("nocase", rx, ("zz " + ex.upper() + " zz").encode(), "nocase")
        add("wide", rx, ("zz " + ex + " zz").encode("utf-16le"), "wide")
        add("asciiwide", rx, ("zz " + ex + " zz ").encode() + ("zz " + ex + " zz").encode("utf-16le"), "ascii wide nocase")
        add("fullword", rx, ("zz " + ex + " zz").encode(), "fullword")
    # the fast path (yr_re_fast_exec): hex strings with jumps, wildcards; and literal regexps with .{n,m}
    for hexs, data in (("61 62 [1-3] 63 64", b"zz abxxcd zz"), ("61 62 [2-] 63 64", b"zz abxxxxcd zz"), ("61 ?? 62 [0-2] 63", b"zz axbc zz axbxxc"),
                       ("61 62 [1-2] 63 [1-2] 64", b"zz abxcxxd zz"), ("61 62 [0-40] 63 64 [1-3] 65", b"zz ab cd cd xe abcdxe"), ("61 6? [1-2] ?3 64", b"zz abxcd zz")):
        out.append(("re_%03d_fasthex" % len(out), ("rule re { strings: $a = { %s } condition: $a }" % hexs).encode(), data, "scan", 10 ** 9))
    out.append(("re_%03d_hexalt" % len(out), b"rule re { strings: $a = { 61 62 ( 63 | 64 65 ) [1-2] 66 } condition: $a }", b"zz abdexf zz abcxxf", "scan", 10 ** 9))
    # the `matches` operator (yr_re_exec with RE_FLAGS_SCAN from exec.c); the scanner defines ext_s = "abcd"
    for cond in ('ext_s matches /^a(b|x)c\\B(d|e)/', 'ext_s matches /abc\\B(d|e)$/', 'ext_s matches /abcd$e?/', 'ext_s matches /^(a|b)+?c/',
                 '"abc x" matches /abc\\b( x| y)/', '"zz ABC x" matches /abc\\b( x| y)/i', '"a\\nbc" matches /a.b?c/s', 'ext_s matches /b{1,2}c(d|e)/',
                 'ext_s matches /a.*d/ and ext_s matches /a.*?d$/'):
        add("matches", None, b"zz", cond=cond)
    return out


# ------------------------------------------------------------------ text strings that go through base64.c (and sizedstr.c: ss_new / ss_dup / ss_convert_to_wide)
B64_ALPHA = "!@#$%^&*(){}[].,|ABCDEFGHIJ\\x09LMNOPQRSTUVWXYZabcdefghijklmnopqrstu"


def base64_scenarios(tier):
    import base64
    text = b"This program cannot"
    enc = base64.b64encode(text) + b" " + base64.b64encode(text.decode().encode("utf-16le")) + b" "
    data = b"zz " + enc + enc.decode().encode("utf-16le") + b" zz"
    mods = ["base64", "base64wide", "base64 base64wide", "wide base64", "wide base64wide", "ascii wide base64", "ascii wide base64wide",
            "ascii wide base64 base64wide", 'base64("%s")' % B64_ALPHA, 'base64wide("%s")' % B64_ALPHA, 'wide base64("%s")' % B64_ALPHA,
            'ascii wide base64("%s") base64wide("%s")' % (B64_ALPHA, B64_ALPHA), "base64 private", "wide base64 private"]
    out = []
    for i, m in enumerate(mods):
        if tier != "thorough" and "private" in m:
            continue
        src = 'rule b64 { strings: $a = "This program cannot" %s condition: $a }' % m
        out.append(("b64_%02d_%s" % (i, re.sub(r"\W+", "_", re.sub(r'\("[^"]*"\)', "_alpha", m))), src.encode("latin-1"), data, "compile", 10 ** 9))
    several = "rule b64all { strings: " + " ".join('$s%d = "%s" %s' % (i, ["This program cannot", "be run in DOS mode", "abc"][i % 3], m)
                                                   for i, m in enumerate(mods[:12])) + " condition: any of them }"
    out.append(("b64_several", several.encode("latin-1"), data, "compile", 10 ** 9 if tier == "thorough" else 1500))
    # the other users of ss_new / ss_dup / ss_convert_to_wide: string literals and concatenations in conditions, metas, wide/xor text strings
    src = ('rule ss { meta: m = "meta string" strings: $w = "wide text" wide $x = "xored" xor(1-2) wide ascii $n = "NoCase" nocase wide '
           'condition: any of them or ext_s contains "b" or ext_s icontains "B" or ext_s startswith "a" or ext_s iendswith "C" or ext_s iequals "ABC" '
           'or "abc" == ext_s or for any s in ("a", "b", ext_s) : ( s == "abc" ) }')
    out.append(("b64_sized_strings", src.encode("latin-1"), data, "compile", 10 ** 9))
    return out


# ------------------------------------------------------------------ scans that cross every lazily allocated page / growth step
def growth_scenarios(tier):
    """One scan makes the interpreter and the scanner allocate their SECOND page / grow their pools: more than 512 iterators of every
    kind (the iterator notebook has room for 512 per page), more than 512 objects returned by module functions (object arena),
    tens of thousands of matches with match data (matches notebook), hundreds of live regexp fibers (fiber pool)."""
    out = []

    def add(name, src, data, limit=10 ** 9):
        out.append(("grow_" + name, src.encode("latin-1"), data, "scan", limit if tier != "thorough" else 10 ** 9))
    outer = "for all i in (0..600) : ( %s )"
    add("iter_int_range", "rule g { condition: " + outer % "for any j in (0..1) : ( j <= i )" + " }", DATA_TEXT)
    add("iter_int_enum", "rule g { condition: " + outer % "for any j in (1, 2, 700) : ( j > i or j == 1 )" + " }", DATA_TEXT)
    add("iter_string_set", "rule g { condition: " + outer % 'for any s in ("a", "b") : ( s == "a" )' + " }", DATA_TEXT)
    add("iter_text_strings", 'rule g { strings: $a1 = "needle" $a2 = "zz" condition: ' + outer % "for any of ($a*) : ( $ )" + " }", DATA_TEXT)
    add("iter_of_rules", 'rule r1 { condition: true } rule g { condition: ' + outer % "any of (r*)" + " }", DATA_TEXT)
    add("iter_array", 'import "pe" rule g { condition: ' + outer % "for any s in pe.sections : ( s.raw_data_size >= 0 ) or true" + " }", ("file", "tiny"), 400)
    add("iter_dict", 'import "pe" rule g { condition: ' + outer % 'for any k, v in pe.version_info : ( k != "" ) or true' + " }", ("file", "mtxex.dll"), 400)
    add("iter_nested3", "rule g { condition: for all i in (0..30) : ( for all j in (0..30) : ( for any k in (0..1) : ( k <= j + i ) ) ) }", DATA_TEXT)
    add("objects", 'import "math" import "hash" rule g { condition: for all i in (0..200) : ( math.to_string(i) != "" and math.abs(i) >= 0 and hash.crc32("ab") > 0 ) }',
        DATA_TEXT)
    add("matches", 'rule g { strings: $a = "ab" $b = /a[bc]/ $c = { 61 62 } condition: #a > 20000 and #b > 20000 and #c > 20000 }', b"ab " * 24000)
    add("match_data", 'rule g { strings: $a = /x[a-z]{300,400}y/ condition: #a > 2000 }', (b"x" + b"q" * 350 + b"y ") * 2600)
    add("fibers", 'rule g { strings: $a = /z(a|aa|aaa|aaaa)+(b|bb)+(c|cc)*d/ $b = /q(.|..|...){1,20}r/s condition: $a and $b }',
        b"z" + b"a" * 40 + b"b" * 12 + b"ccc" + b"d zz q" + b"p" * 50 + b"r")
    return out


# ------------------------------------------------------------------ API histories on external variables
HIST_SRC = b'rule h { condition: ext_s contains "needle" } rule i { condition: ext_i == 7 or ext_b or ext_f > 2.0 }'
HIST_COMPILE = "cnew cdefs:abc cdefi:ext_i:1 cdefb:ext_b:0 cdeff:ext_f cadd cget cdel "
HIST_TAIL = " inj- rdefs:final_needle snew scan sdel"


def history_scenarios(tier):
    """Sequences of define calls on the same external at compiler, rules and scanner level, with save/load in between; the
    injection window is the history itself; after a faulted call the history goes on (scanner create, scan, define again)."""
    H = [
        ("rules_twice", HIST_COMPILE + "inj+ rdefs:first_value_which_is_long rdefs:2nd snew scan sdel rdefs:third_has_needle snew scan sdel" + HIST_TAIL),
        ("rules_thrice_then_scanner", HIST_COMPILE + "inj+ rdefs:a rdefs:bb_needle rdefs:ccc snew sdefs:s1 sdefs:s2_needle scan sdel" + HIST_TAIL),
        ("scanner_twice", HIST_COMPILE + "inj+ snew sdefs:first_long_value_xxxxxxxx sdefs:2 scan sdefs:third_needle scan sdel" + HIST_TAIL),
        ("compiler_twice", "inj+ cnew cdefs:abc cdefs:second_definition cdefi:ext_i:1 cdefi:ext_i:2 cdefb:ext_b:0 cdeff:ext_f cadd cget cdel" + HIST_TAIL),
        ("save_load", HIST_COMPILE + "save inj+ rdefs:first_value_long rdefs:second load rdefs:on_loaded_1 rdefs:on_loaded_needle_2 snew scan sdel" + HIST_TAIL),
        ("load_then_define", HIST_COMPILE + "save inj+ load rdefs:on_loaded_1 rdefs:needle_2 snew scan sdel rdefs:x3 rdefs:x4_needle snew scan sdel" + HIST_TAIL),
        ("mixed_kinds", HIST_COMPILE + "inj+ rdefs:first rdefi:ext_s:5 rdefb:ext_s:1 rdeff:ext_s rdefi:ext_i:7 rdefb:ext_b:1 rdeff:ext_f rdefs@ext_i:str "
                        "rdefs:again_needle snew sdefi:ext_s:3 sdefs@ext_i:x sdefs:scanner_needle scan sdel" + HIST_TAIL),
    ]
    return [("hist_" + n, HIST_SRC, b"zz", "hist:" + sc, 10 ** 9) for n, sc in H]


def case_lines(sc, kfrom, kto, sticky, lsan_each=0):
    name, src, data, window, _ = sc
    lines = ["src " + hx(src), "file inc.yar " + hx(INC)]
    if isinstance(data, tuple):
        lines.append("datafile " + data_file(data[1]))
    else:
        lines.append("data " + hx(data))
    if window.startswith("hist:"):
        return lines + ["script " + window[5:], "hrun %d %d %d" % (kfrom, kto, sticky)]
    lines += ["window " + window, "run %d %d %d %d" % (kfrom, kto, sticky, lsan_each)]
    return lines


RES = re.compile(r"res k=(\d+) fired=(\d+) phase=(\S+) rc=(-?\d+) errs=(\d+) count=(\d+) live=(-?\d+) live2=(-?\d+) lsan=(-?\d+) sig=(\S+) follow=(\S+)")


def parse_res(line):
    m = RES.match(line)
    if not m:
        return None
    return dict(k=int(m.group(1)), fired=int(m.group(2)), phase=m.group(3), rc=int(m.group(4)), errs=int(m.group(5)),
                count=int(m.group(6)), live=int(m.group(7)), live2=int(m.group(8)), lsan=int(m.group(9)), sig=m.group(10),
                follow=m.group(11))


def run_batch(h, sc, ks, sticky, timeout=600):
    """Runs the given k values (list of contiguous ranges) for one scenario; returns ({k: res dict | 'crash ...'}, stderr)."""
    cases = []
    for i, (a, b) in enumerate(ks):
        cases.append(("%s.%d.%d.%d" % (sc[0], sticky, a, b), case_lines(sc, a, b, sticky)))
    out, err = vlib.run_cases(h, cases, timeout=timeout, args=["300"])
    res = {}
    leak_ranges = []
    for cid, lines in out.items():
        cur = None
        for l in lines:
            if l.startswith("begin k="):
                cur = int(l[8:])
            elif l.startswith("res "):
                r = parse_res(l)
                if r:
                    res[r["k"]] = r
                    cur = None
            elif l.startswith("crash"):
                if cur is not None:
                    res[cur] = l
                else:
                    res[("case", cid)] = l
            elif l.startswith("leakcheck") and l != "leakcheck 0":
                leak_ranges.append(cid)
    return res, err, leak_ranges


def inject_sites(h, err):
    """{k: function name where the injected failure happened} from the INJECT lines of the harness' stderr."""
    addrs = {}
    for m in re.finditer(r"INJECT k=(\d+) bt=(\S+)", err):
        addrs[int(m.group(1))] = [a for a in m.group(2).split(",") if a]
    uniq = sorted({a for l in addrs.values() for a in l if len(a) < 12})
    names = {}
    for i in range(0, len(uniq), 400):
        chunk = uniq[i:i + 400]
        p = subprocess.run(["addr2line", "-f", "-e", h] + chunk, stdout=subprocess.PIPE, text=True)
        ls = p.stdout.split("\n")
        for j, a in enumerate(chunk):
            names[a] = ls[2 * j] if 2 * j < len(ls) else "??"
    site = {}
    for k, l in addrs.items():
        fns = []
        for a in l:
            n = names.get(a, "??")
            if n in SKIP_FRAMES or n.startswith("__interceptor") or n.startswith("__wrap"):
                continue
            fns.append(n)
            if len(fns) == 2:
                break
        site[k] = "<".join(fns) if fns else "?"
    return site


def asan_summary(err, k):
    """first lines of the sanitizer report that follows 'BEGIN k=<k>' in stderr"""
    i = err.find("BEGIN k=%d\n" % k)
    if i < 0:
        return ""
    j = err.find("BEGIN k=", i + 8)
    seg = err[i:j if j > 0 else len(err)]
    m = re.search(r"(ERROR: AddressSanitizer[^\n]*|runtime error[^\n]*|ERROR: LeakSanitizer[^\n]*)", seg)
    frames = re.findall(r"#\d+ 0x[0-9a-f]+ in (\S+)", seg)
    fr = [f for f in frames if not f.startswith("__") and f not in SKIP_FRAMES][:4]
    return (m.group(1) if m else seg[-300:]) + " @ " + ">".join(fr)


def foreign_leak(err):
    """True when a LeakSanitizer report in err lists a block that was not allocated through the interposed allocator"""
    for blk in re.split(r"\n\s*\n", err):
        if re.match(r"\s*(Direct|Indirect) leak of", blk) and "__wrap_" not in blk:
            return True
    return False


def compiler_reused_after_failed_define(sc, r, errs, k):
    """For a history scenario: the injected failure made a compiler-level yr_compiler_define_*_variable return ERROR_INSUFFICIENT_MEMORY and
    the history went on using that compiler.  The harness prints the op the failure fell into (third part of sig; for a crashed run it is
    not printed: then the INJECT site decides)."""
    if not sc[3].startswith("hist:"):
        return None
    ops = [o for o in sc[3][5:].split() if o not in ("inj+", "inj-")]
    if isinstance(r, dict):
        parts = r["sig"].split(";")
        if len(parts) < 3 or parts[2] == "-":
            return None
        idx, name, rc = parts[2].split(":")
        idx = int(idx)
        if name.startswith("cdef") and rc == "1" and any(o.split(":")[0] in ("cadd", "cget", "cdefs", "cdefi", "cdefb", "cdeff") for o in ops[idx + 1:]):
            return "fault-in-op=%d:%s rc=%s, the compiler is used again afterwards" % (idx, ops[idx], rc)
        return None
    # crashed: no result line; the harness wrote "HOP <index> <op>" to stderr before every op of the history
    i = errs.find("BEGIN k=%d\n" % k)
    if i < 0:
        return None
    j = errs.find("BEGIN k=", i + 8)
    seg = errs[i:j if j > 0 else len(errs)]
    inj = seg.find("INJECT k=%d " % k)
    if inj < 0:
        return None
    before = re.findall(r"^HOP (\d+) (\S+)", seg[:inj], re.M)
    after = re.findall(r"^HOP (\d+) (\S+)", seg[inj:], re.M)
    if before and before[-1][1].startswith("cdef") and after:
        return "fault-in-op=%s:%s, the run crashed later, in op %s:%s" % (before[-1][0], ops[int(before[-1][0])], after[-1][0], after[-1][1])
    return None


def judge(sc, base, r, sticky):
    """None if the outcome for one k is acceptable, else (kind, text)."""
    if isinstance(r, str):
        return ("crash", r)
    name = sc[0]
    if r["live"] != 0:
        return ("leak", "live-allocation delta %d after destroying every object" % r["live"])
    if r["live2"] != 0:
        return ("leak-followup", "live-allocation delta %d after the follow-up compile+scan" % r["live2"])
    if r["follow"] != base["follow"]:
        return ("aftermath", "follow-up compile+scan in the same process gives %s, expected %s" % (r["follow"], base["follow"]))
    if r["fired"] == 0:
        return None
    if sc[3].startswith("hist:"):
        ops = [o for o in sc[3][5:].split() if o not in ("inj+", "inj-")]
        brc, bsig = base["sig"].split(";")[:2]
        rrc, rsig = r["sig"].split(";")[:2]
        bl, rl = [x for x in brc.split(",") if x], [x for x in rrc.split(",") if x]
        if len(bl) != len(rl) or len(rl) != len(ops):
            return ("wrong-rc", "history gave %d return codes for %d calls" % (len(rl), len(ops)))
        lost = False      # an object could not be created: what depends on it is not applicable (-1)
        for op, a, b in zip(ops, rl, bl):
            if a == b:
                continue
            if a == "1" or (op == "cadd" and a != "0"):
                lost = lost or op.split(":")[0] in ("cnew", "cadd", "cget", "load", "snew", "save", "cdefs", "cdefi", "cdefb", "cdeff")
                continue
            if a == "-1" and lost:
                continue
            if a == "0" and b == "56" and "1" in rl:
                continue      # "duplicated external variable" turns into success when the first definition was the one that failed
            return ("wrong-rc", "call %s returned %s (without failure: %s); history %s" % (op, a, b, rrc))
        fin_b, fin_r = bsig.rstrip("|").split("|")[-1], rsig.rstrip("|").split("|")[-1]
        if rl[-2] == "0" and fin_r != fin_b:
            return ("wrong-result", "after the history the final define+scan gives %s, expected %s (%s)" % (fin_r, fin_b, rsig))
        if rl[-2] not in ("0", "-1", "1"):
            return ("wrong-rc", "final scan returned %s" % rl[-2])
        return None
    if r["phase"] == "-":
        # the failure was absorbed: the operation completed; it must have completed correctly
        if r["sig"] != base["sig"]:
            return ("wrong-result", "operation reported success after a failed allocation but the scan result is %s, expected %s" % (r["sig"], base["sig"]))
        return None
    if r["phase"] == "compile.add":
        if r["errs"] <= 0:
            return ("wrong-rc", "compile failed without an error")
        return None
    if r["rc"] != ERROR_INSUFFICIENT_MEMORY:
        return ("wrong-rc", "phase %s returned %d, expected ERROR_INSUFFICIENT_MEMORY" % (r["phase"], r["rc"]))
    return None


def ranges(ks):
    """sorted ints -> list of contiguous (a,b)"""
    out = []
    for k in ks:
        if out and out[-1][1] + 1 == k:
            out[-1] = (out[-1][0], k)
        else:
            out.append((k, k))
    return out


def explore(chk, h, tier, only=None):
    rng = chk.rng.fork()
    stats = {}
    tasks = []
    scs = [s for s in scenarios(tier) if not only or s[0] in only or ("re" in only and s[0].startswith("re_")) or
           ("b64" in only and s[0].startswith("b64_")) or ("grow" in only and s[0].startswith("grow_")) or
           ("hist" in only and s[0].startswith("hist_"))]
    bases = {}
    # baselines (k = 0): allocation count and the expected scan result
    cases = [(s[0], case_lines(s, 0, 0, 0)) for s in scs]
    out, err = vlib.run_cases(h, cases, timeout=600, args=["120"])
    for s in scs:
        r = None
        for l in out.get(s[0], []):
            if l.startswith("res "):
                r = parse_res(l)
        if r is not None and s[0].startswith("re_") and r["phase"] == "-" and r["sig"] == "-":
            # the data is meant to reach the construct: a baseline that does not match means the scenario no longer exercises it
            chk.violation("scenario:%s:baseline-nomatch" % s[0], "regexp scenario %s does not match its own data: %s" % (s[0], s[1][:200]),
                          {"scenario": s[0], "source": s[1].decode("latin-1"), "output": out.get(s[0])}, found_input=False)
        if r is None or r["phase"] not in ("-", "H") or r["live"] != 0 or r["live2"] != 0:
            chk.violation("scenario:%s:baseline" % s[0], "scenario %s does not run cleanly without any injected failure: %s" % (s[0], out.get(s[0])),
                          {"scenario": s[0], "output": out.get(s[0]), "stderr": err[-1500:]}, found_input=True)
            continue
        bases[s[0]] = r
    for s in scs:
        if s[0] not in bases:
            continue
        n = bases[s[0]]["count"]
        for sticky in (0, 1):
            if n <= s[4]:
                ks = list(range(1, n + 1))
                mode = "exhaustive"
            else:
                want = s[4]
                ks = set(range(1, min(n, 40) + 1)) | set(range(max(1, n - 20), n + 1))
                stride = max(1, n // max(1, want // 2))
                ks |= set(range(1, n + 1, stride))
                while len(ks) < want:
                    ks.add(rng.range(1, n))
                ks = sorted(ks)
                mode = "sampled"
            stats.setdefault(s[0], {"allocations": n, "window": s[3]})["k_tested_sticky%d" % sticky] = len(ks)
            stats[s[0]]["mode"] = mode
            # chunks for the worker pool
            per = max(20, len(ks) // 8 + 1)
            for i in range(0, len(ks), per):
                tasks.append((s, sticky, ks[i:i + per]))
    results = []

    def work(t):
        s, sticky, ks = t
        todo = list(ks)
        got = {}
        errs = ""
        leaks = []
        while todo:
            res, err, leak_ranges = run_batch(h, s, ranges(todo), sticky)
            errs += err
            leaks += leak_ranges
            got.update({k: v for k, v in res.items() if not isinstance(k, tuple)})
            done = set(k for k in res if not isinstance(k, tuple))
            rest = [k for k in todo if k not in done]
            if len(rest) == len(todo):
                break
            # after a crash at k the child is gone: continue with what had not run yet
            crashed = [k for k in done if isinstance(res[k], str)]
            todo = rest if crashed else []
        return (s, sticky, ks, got, errs, leaks)

    with ThreadPoolExecutor(int(os.environ.get("VERIF_JOBS", "8"))) as ex:
        results = list(ex.map(work, tasks))
    evaluations = 0
    by_key = {}
    fired_total = 0
    distinct = set()
    absorbed = 0
    phases = {}
    for s, sticky, ks, got, errs, leaks in results:
        base = bases[s[0]]
        sites = None
        for k in ks:
            r = got.get(k)
            if r is None:
                continue
            evaluations += 1
            if not isinstance(r, str):
                if r["fired"]:
                    fired_total += 1
                    phases[r["phase"]] = phases.get(r["phase"], 0) + 1
                    if r["phase"] == "-":
                        absorbed += 1
            v = judge(s, base, r, sticky)
            if sites is None:
                sites = inject_sites(h, errs)
            distinct.add((s[0], sites.get(k, "?"), "x" if isinstance(r, str) else r["phase"]))
            if v is None:
                continue
            kind, text = v
            site = sites.get(k, "?")
            reused = compiler_reused_after_failed_define(s, r, errs, k)
            detail = asan_summary(errs, k) if kind == "crash" else ""
            # stable key: what went wrong, where the failed allocation was requested (function < caller), and for a
            # crash the function it crashed in; the scenario and k are in the replay
            key = "%s:site:%s" % (kind, site)
            if b"include " in s[1]:
                key += ":in-include"      # a failure while an included file is being parsed is a context of its own
            if kind == "crash":
                key += ":at:" + (detail.split(" @ ")[-1].split(">")[0] or "?")
            if reused:
                key = "compiler-reused-after-failed-define"
                text += " [%s]" % reused
            chk.violation(key, "C16 scenario %s, allocation #%d of %d fails%s (in %s): %s: %s %s" % (
                s[0], k, base["count"], " and every later one" if sticky else "", site, kind, text, detail),
                {"scenario": s[0], "k": k, "sticky": sticky, "site": site, "kind": kind, "result": r, "window": s[3],
                 "source": s[1].decode("latin-1"), "data": s[2] if isinstance(s[2], tuple) else hx(s[2][:200]),
                 "sanitizer": detail, "cmd": "bin/check C16 --replay <this file>"}, found_input=True)
            by_key.setdefault(key, []).append((s[0], k, sticky))
        if leaks and foreign_leak(errs):
            # LeakSanitizer saw, in this batch, a leaked block whose allocation stack does not pass through the wrappers.  Leaks of blocks that went through the wrappers are already reported per k by
            # the live-allocation counter; what remains is memory allocated elsewhere (libcrypto, libc): localise by re-running the
            # k whose counter balanced with a leak check after every k (the first k that reports is the culprit, then continue after it)
            todo = [k for k in ks if isinstance(got.get(k), dict) and got[k]["live"] == 0 and got[k]["live2"] == 0]
            for _ in range(12):
                if not todo:
                    break
                cases = [("%s.l.%d.%d" % (s[0], a, b), case_lines(s, a, b, sticky, 1)) for a, b in ranges(todo)]
                out2, err2 = vlib.run_cases(h, cases, timeout=600, args=["300"])
                hit = None
                for cid in sorted(out2, key=lambda c: int(c.split(".")[-2])):
                    for l in out2[cid]:
                        r = parse_res(l) if l.startswith("res ") else None
                        if r and r["lsan"] == 1 and hit is None:
                            hit = r["k"]
                    if hit is not None:
                        break
                if hit is None:
                    break
                site = inject_sites(h, err2).get(hit, sites.get(hit, "?") if sites else "?")
                m = re.search(r"BEGIN k=%d\n(.*?)(?:BEGIN k=|$)" % hit, err2, re.S)
                frames = re.findall(r"#\d+ 0x[0-9a-f]+ in (\S+)", m.group(1) if m else "")
                where = ">".join([f for f in frames if not f.startswith("__") and f not in SKIP_FRAMES][:4])
                key = "lsan-leak:alloc:%s" % ">".join(where.split(">")[:3])
                chk.violation(key, "C16 scenario %s, allocation #%d of %d fails%s (in %s): LeakSanitizer reports leaked memory that was not "
                              "allocated through the interposed allocator (allocated in %s)" % (s[0], hit, base["count"],
                              " and every later one" if sticky else "", site, where),
                              {"scenario": s[0], "k": hit, "sticky": sticky, "site": site, "kind": "lsan-leak", "window": s[3],
                               "source": s[1].decode("latin-1"), "allocated_in": where}, found_input=True)
                by_key.setdefault(key, []).append((s[0], hit, sticky))
                todo = [k for k in todo if k > hit]
    chk.note(scenarios=stats, scenario_evaluations=evaluations, injected_failures=fired_total, failures_absorbed_with_correct_result=absorbed,
             failing_phase_histogram=phases, violation_keys={k: v[:3] for k, v in sorted(by_key.items())}, distinct_injection_sites=len({d[1] for d in distinct}))
    return evaluations, distinct


def run(chk):
    ok, log, st = vlib.proof_obligations(chk, PROPS)
    if not ok:
        chk.violation("proof", "C16 obligations (fail-safety of the AllocLang translations) no longer check: " + log[-1200:],
                      {"theorems": PROPS, "log": log[-4000:], "generated": st}, found_input=False)
    import c16fn
    n_fn, d_fn = c16fn.function_level(chk)
    h = build.harness("h_alloc", "asan", extra_flags=WRAP)
    n_sc, d_sc = explore(chk, h, chk.tier)
    chk.note(evaluations=n_fn + n_sc, distinct_nontrivial=len(d_fn) + len(d_sc), traces_validated_against_impl=n_fn,
             sanitizer="ASan+UBSan build of libyara and harness; allocator interposed with --wrap; LeakSanitizer check at the end of every batch; "
                       "live-allocation counter checked after every k",
             rule="function level: distinct = (function, input shape, failing index, outcome); scenario level: distinct = (scenario, function "
                  "containing the failed allocation, phase that reported it)")
    chk.assumptions += ["PARTIAL: fail-safety is proved for the modelled functions only; every other allocation site is explored by injection, not proved",
                        "allocations made inside libc and libcrypto (not linked through --wrap) are not failed",
                        "a single failing allocation (or a failing suffix) per run; arbitrary failing subsets are covered by the theorems only"]


def replay(chk, path):
    d = json.load(open(path))["replay"]
    h = build.harness("h_alloc", "asan", extra_flags=WRAP)
    sc = [s for s in scenarios("thorough") if s[0] == d["scenario"]][0]
    res, err, _ = run_batch(h, sc, [(0, 0), (d["k"], d["k"])], d["sticky"])
    print(res)
    print(err[-3000:])
    base = res.get(0)
    r = res.get(d["k"])
    v = judge(sc, base, r, d["sticky"]) if base is not None and r is not None else ("norun", "")
    print("replay:", v)
    return 1 if v else 0
