"""C04: rule conditions evaluate per the documented language semantics."""
import re
import vlib, build, rulegen, condgen
from vlib import hx

PROPS = "Props/Properties_C04.v"


SOPS = ["contains", "icontains", "startswith", "istartswith", "endswith", "iendswith", "iequals", "==", "!=", "<", "<=", ">", ">="]


def strop_part(chk, model, hscan):
    """string operators on literals and string externals against Spec/StrOpSpec.v: operands built to overlap themselves
    (needles whose prefix re-occurs inside them, haystacks with a partial occurrence right before the real one), case variants,
    empty operands, one operand a prefix / suffix of the other"""
    n = 120 if chk.tier == "quick" else 2000
    cases, meta, mq = [], {}, []
    for i in range(n):
        r = chk.rng.fork()
        alpha = r.choice([b"ab", b"aAbB", b"abc", b"wW.", b"abAB01"])

        def word(lo, hi):
            return bytes(r.choice(alpha) for _ in range(r.range(lo, hi)))
        rules, atoms = [], []
        exts = [word(0, 8).replace(b"\0", b"a"), word(1, 5)]
        for k in range(6):
            op = r.choice(SOPS + ["icontains", "contains", "iendswith", "istartswith"])
            needle = word(0, 4)
            c = r.below(6)
            if c == 0:
                hay = word(0, 3) + needle[:-1] + needle + word(0, 3)          # a partial occurrence right before the real one
            elif c == 1:
                hay = needle[:max(0, len(needle) - 1)] * 2 + needle
            elif c == 2:
                hay = word(0, 2) + needle.swapcase() + word(0, 2)
            elif c == 3:
                hay = needle + word(0, 2) if r.chance(1, 2) else word(0, 2) + needle
            elif c == 4:
                hay = needle
            else:
                hay = word(0, 9)
            if needle and r.chance(1, 3):
                # the needle's first character repeated 1..3 times right before it: a partial match that ends inside the real occurrence
                hay = word(0, 2) + needle[:1] * r.range(1, 3) + needle + word(0, 2)
            if needle and r.chance(1, 6):
                hay = word(0, 2) + needle[:2] + needle + word(0, 1)
            a, b = hay, needle
            ea = eb = None
            if r.chance(1, 3):
                exts[0] = a if 0 not in a and a else exts[0]
                if exts[0] == a:
                    ea = 0
            if r.chance(1, 4) and b and 0 not in b:
                exts[1] = b
                eb = 1
            # an external operand takes the value the external has at the end: evaluate with the final values
            atoms.append((op, a, b, ea, eb, r.chance(1, 4)))
        for k, (op, a, b, ea, eb, neg) in enumerate(atoms):
            av = exts[ea] if ea is not None else a
            bv = exts[eb] if eb is not None else b
            ta = "exts%d" % ea if ea is not None else '"%s"' % rulegen.yara_escape(av)
            tb = "exts%d" % eb if eb is not None else '"%s"' % rulegen.yara_escape(bv)
            cond = "%s %s %s" % (ta, op, tb)
            rules.append("rule s%d { condition: %s }" % (k, "not (%s)" % cond if neg else cond))
            mq.append("strop %s %s %s" % (op, hx(av) if av else "-", hx(bv) if bv else "-"))
            meta[(i, k)] = (cond, neg, av, bv)
        src = "\n".join(rules)
        cases.append(("s%d" % i, ["newcompiler", "defs exts0 " + hx(b"x"), "defs exts1 " + hx(b"y"), "add " + hx(src.encode()), "getrules", "scanner 0",
                                  "sdefs exts0 " + hx(exts[0] or b""), "sdefs exts1 " + hx(exts[1]), "scan " + hx(b"zz")]))
        meta[i] = (src, exts)
    out, err = vlib.run_cases(hscan, cases, timeout=3000, args=["60"], jobs=16)
    res, _ = vlib.run_lines(model, mq, timeout=3000)
    st = {"atoms": 0, "agree": 0, "rejected_rule_sets": 0, "true_atoms": 0, "by_operator": {}}
    pos = 0
    for i in range(n):
        lines = out.get("s%d" % i, [])
        sc = [l for l in lines if l.startswith("scan msgs=")]
        src, exts = meta[i]
        if any(l.startswith("crash") for l in lines):
            chk.violation("crash:strop", "evaluating string operators crashes: %s" % lines[-2:], {"rules": src, "externals": [e.decode("latin-1") for e in exts]})
            pos += 6
            continue
        if not sc:
            st["rejected_rule_sets"] += 1
            pos += 6
            continue
        for k in range(6):
            cond, neg, av, bv = meta[(i, k)]
            want = (res[pos] == "1") != neg
            pos += 1
            got = ("M:default:s%d;" % k) in sc[0] or ("M:default:s%d:" % k) in sc[0]
            st["atoms"] += 1
            op = cond.split()[1] if not cond.startswith('"') else None
            if got == want:
                st["agree"] += 1
                st["true_atoms"] += want
            else:
                chk.violation("strop:" + [o for o in SOPS if " %s " % o in cond][0], "%s%s with operands %r, %r: implementation %s, documented %s"
                              % ("not " if neg else "", cond[:120], av, bv, got, want),
                              {"rules": src, "externals_hex": [hx(e) for e in exts], "rule": "s%d" % k,
                               "how": "h_scan: newcompiler; defs exts0 x; defs exts1 y; add <rules>; getrules; scanner 0; sdefs exts0 <hex>; sdefs exts1 <hex>; scan 7a7a"})
    return st


def run(chk):
    tier = chk.tier
    ok, log, st = vlib.proof_obligations(chk, PROPS)
    if not ok:
        err = [v for v in st.values() if v.startswith("error")]
        chk.violation("proof", "C04 obligations no longer check: " + (err[0] if err else log[-1200:]), {"log": log[-4000:], "generated": st}, found_input=False)
    hscan = build.harness("h_scan")
    model = vlib.build_model()
    ncases = 400 if tier == "quick" else 6000
    cases, meta = [], {}
    for i in range(ncases):
        r = chk.rng.fork()
        strs = []
        for j in range(condgen.NSTR):
            strs.append(bytes(r.choice(b"abcxyz019") for _ in range(r.range(1, 4))))
        exts = [r.choice([0, 1, -1, 3, 7, 100, -5, 2 ** 40, -(2 ** 63), 2 ** 63 - 1]) if r.chance(1, 2) else r.range(-10, 30) for _ in range(3)]
        nrules = r.range(1, 3)
        trees = []
        names = ["r%d" % k for k in range(nrules)]
        for k in range(nrules):
            g = condgen.Gen(r.fork(), k, 3)
            trees.append(g.bexpr(r.range(1, 5)))
        decl = " ".join('$%s = "%s"' % (condgen.sid(j), strs[j].decode()) for j in range(condgen.NSTR))
        src = ""
        for k, t in enumerate(trees):
            src += "rule %s { strings: %s condition: %s }\n" % (names[k], decl, condgen.Printer(names).raw(t))
        # buffer: planted strings + noise, small
        size = r.choice([0, 1, 4, 9, 16, 33])
        buf = bytearray(r.choice(b"abcxyz019 .") for _ in range(size))
        for _ in range(r.below(5)):
            s = r.choice(strs)
            if size >= len(s):
                p = r.choice([0, size - len(s), r.below(size - len(s) + 1)])
                buf[p:p + len(s)] = s
        if i % 10 == 3:
            # aimed at the fixed-offset optimisation: a string used only through `at <folded constant expression>`, present exactly there
            # (or one byte off), so that the constant the compiler folds and the value the VM computes must agree
            g = condgen.Gen(r.fork(), 0, 3)
            e = g.const_small()
            v = condgen.const_value(e)
            t = ("at", 0, e)
            if r.chance(1, 3):
                t = (r.choice(["and", "or"]), t, ("cmp", "eq", ("fs",), ("lit", r.below(3))))
            trees, names = [t], ["r0"]
            src = "rule r0 { strings: %s condition: %s }\n" % (decl, condgen.Printer(names).raw(t))
            p0 = max(0, v + r.choice([0, 0, 0, 1, -1]))
            buf = bytearray(r.choice(b" .") for _ in range(p0 + len(strs[0]) + r.below(4)))
            buf[p0:p0 + len(strs[0])] = strs[0]
        if i % 10 == 2:
            # aimed at the manual's precedence / associativity table: `a op1 b op2 c` without parentheses for every ordered pair of binary
            # operators, with operands for which the two groupings have different values (both groupings are generated; the printer adds
            # parentheses only where the manual's table needs them), constant and with a run-time operand
            ops = sorted(condgen.ARITH)
            pi = (i // 10) % (len(ops) * len(ops))
            op1, op2 = ops[pi // len(ops)], ops[pi % len(ops)]
            found = None
            for _ in range(60):
                a, b, c_ = r.choice([1, 2, 3, 5, 7, 9, 12, 20, 33, 64, 100]), r.choice([1, 2, 3, 4, 5, 7]), r.choice([1, 2, 3, 4, 5, 6])
                L = (op2, (op1, ("lit", a), ("lit", b)), ("lit", c_))
                R = (op1, ("lit", a), (op2, ("lit", b), ("lit", c_)))
                try:
                    il, ir = condgen.const_value(L[1]), condgen.const_value(R[2])
                    if not (0 <= il < 2 ** 31 and 0 <= ir < 2 ** 31) or (op2 in ("shl", "shr") and ir > 40) or (op1 in ("shl", "shr") and (b > 40)):
                        continue
                    vl, vr = condgen.const_value(L), condgen.const_value(R)
                except (ZeroDivisionError, ValueError, OverflowError):
                    continue
                if vl != vr and 0 <= vl < 2 ** 40 and 0 <= vr < 2 ** 40:
                    found = (L, R, vl, vr, a)
                    break
            if found:
                L, R, vl, vr, a = found
                exts[0] = a
                rt = lambda t: (t[0], rt(t[1]), rt(t[2])) if t[0] != "lit" else (("ext", 0) if t[1] == a else t)
                trees = [("cmp", "eq", L, ("lit", vl)), ("cmp", "eq", R, ("lit", vr)), ("cmp", "eq", rt(L), ("lit", vl)), ("cmp", "eq", rt(R), ("lit", vr))]
                names = ["r0", "r1", "r2", "r3"]
                src = "".join("rule %s { strings: %s condition: %s or (false and any of them) }\n" % (names[k], decl, condgen.Printer(names).raw(t)) for k, t in enumerate(trees))
                trees = [("or", t, ("and", ("f",), ("of", "any", [0, 1, 2]))) for t in trees]
        if i % 10 == 1:
            # aimed at the loop-variable frames: 3 or 4 nested loops (ranges, lists, and a `for..of` innermost) whose verdict depends on the
            # variables and quantifiers of EVERY level (each loop keeps counters, quantifier and variable in its own frame of the VM memory)
            depth = r.choice([3, 3, 4])
            nv = depth
            def cmpv(a, b):
                return ("cmp", r.choice(["eq", "lt", "le", "ne", "ge"]), a, b)
            vs = [("var", k) for k in range(nv)]
            body = r.choice([
                cmpv(("add", vs[0], vs[1]), ("add", vs[nv - 1], ("lit", r.below(4)))),
                ("and", cmpv(vs[nv - 1], vs[0]), cmpv(vs[1], ("lit", r.below(4)))),
                cmpv(("add", ("mul", vs[nv - 1], ("lit", 3)), vs[nv - 2]), ("add", ("mul", vs[0], ("lit", 2)), vs[1])),
                ("forof", r.choice(["any", "all", ("num", ("lit", 1))]), [0, 1, 2], ("or", ("cur",), cmpv(vs[1], vs[nv - 1]))),
            ])
            t = body
            for lvl in range(depth):
                q = r.choice(["any", "all", "none", ("num", ("lit", 1)), ("num", ("lit", 2)), ("num", ("lit", 3))])
                if r.chance(2, 3):
                    t = ("forin", q, ("lit", r.below(3)), ("lit", r.range(2, 5)), t)
                else:
                    t = ("forlist", q, [("lit", r.below(6)) for _ in range(r.range(2, 4))], t)
            if r.chance(1, 4):
                t = ("not", t)
            trees, names = [t], ["r0"]
            src = "rule r0 { strings: %s condition: %s }\n" % (decl, condgen.Printer(names).raw(t))
        if i % 10 == 5:
            # aimed at the selection of the strings of a set: the identifier of string 0 is a proper prefix of string 1's, sets naming one of
            # them (or the wildcard form of both), on data where exactly one of the two occurs
            st = r.choice([[0], [1], [0, 2], [1, 2], [0, 1], [2]])
            q = r.choice(["any", "all", "none", ("num", ("lit", 1)), ("num", ("lit", 2))])
            t = r.choice([("of", q, st), ("forof", q, st, ("cur",)), ("ofin", q, st, ("lit", 0), ("lit", 40)), ("forof", q, st, ("curat", ("lit", 1)))])
            if r.chance(1, 3):
                t = ("not", t)
            trees, names = [t], ["r0"]
            strs = [bytes(r.choice(b"abcxyz019") for _ in range(2)) for _ in range(condgen.NSTR)]
            decl = " ".join('$%s = "%s"' % (condgen.sid(j), strs[j].decode()) for j in range(condgen.NSTR))
            src = "rule r0 { strings: %s condition: %s }\n" % (decl, condgen.Printer(names).raw(t))
            present = r.choice([[0], [1], [2], [0, 1], [1, 2], []])
            buf = bytearray(b".")
            for j in present:
                buf += strs[j] + b"."
        if i % 10 == 9:
            # aimed at `N of <set> in (range)`: N counts STRINGS with a match in the range, not matches: one string several times in the range,
            # the others absent or outside
            st = r.choice([[0, 2], [0, 1, 2], [1, 2]])
            q = r.choice(["all", ("num", ("lit", 2)), ("num", ("lit", 3)), ("num", ("add", ("lit", 1), ("lit", 1)))])
            t = r.choice([("ofin", q, st, ("lit", 0), ("lit", 12)), ("ofin", q, st, ("lit", 1), ("lit", 20))])
            if r.chance(1, 3):
                t = ("not", t)
            trees, names = [t], ["r0"]
            strs = [bytes(r.choice(b"abcxyz019") for _ in range(2)) for _ in range(condgen.NSTR)]
            decl = " ".join('$%s = "%s"' % (condgen.sid(j), strs[j].decode()) for j in range(condgen.NSTR))
            src = "rule r0 { strings: %s condition: %s }\n" % (decl, condgen.Printer(names).raw(t))
            rep = r.choice(st)
            buf = bytearray(b".") + (strs[rep] + b".") * r.range(2, 4) + b"." * 25
            if r.chance(1, 2):
                other = r.choice([j for j in range(condgen.NSTR) if j != rep])
                buf += strs[other]
        if i % 10 == 7:
            # aimed at the required-strings analysis (a rule none of whose strings matched is not evaluated when the compiler decided
            # that it needs a string): quantifiers that are not constants and evaluate to 0 at scan time, on data without the strings
            g = condgen.Gen(r.fork(), 0, 3)
            e = r.choice([("ext", r.below(3)), ("sub", ("fs",), ("fs",)), ("cnt", r.below(condgen.NSTR)), ("band", ("fs",), ("lit", 0))])
            if e[0] == "ext":
                exts[e[1]] = 0
            t = r.choice([("of", ("num", e), g.strset()), ("ofin", ("num", e), g.strset(), ("lit", 0), ("lit", 9)),
                          ("ofat", ("num", e), g.strset(), ("lit", 0))])
            if r.chance(1, 2):
                t = ("and", t, ("cmp", "ge", ("fs",), ("lit", 0)))
            elif r.chance(1, 3):
                t = ("or", ("f",), t)
            trees, names = [t], ["r0"]
            src = "rule r0 { strings: %s condition: %s }\n" % (decl, condgen.Printer(names).raw(t))
            buf = bytearray(r.choice(b" .") for _ in range(r.choice([0, 1, 7])))
        buf = bytes(buf)
        cmds = ["newcompiler"] + ["defi ext%d %d" % (j, 0) for j in range(3)] + ["add " + hx(src.encode()), "getrules", "scanner 0"] + \
               ["sdefi ext%d %d" % (j, exts[j]) for j in range(3)] + ["scan " + hx(buf)]
        cases.append(("c%d" % i, cmds))
        meta["c%d" % i] = (src, trees, strs, exts, buf)
    out, err = vlib.run_cases(hscan, cases, timeout=3000, args=["60"], jobs=16)
    mq, ids = [], []
    for cid, _ in cases:
        src, trees, strs, exts, buf = meta[cid]
        mq.append("cond %s %d %s 3 %s %d %s" % (hx(buf), len(strs), " ".join(hx(s) for s in strs), " ".join(str(e) for e in exts),
                                                len(trees), " ".join(condgen.sexp(t) for t in trees)))
        ids.append(cid)
    mres, _ = vlib.run_lines(model, mq, timeout=3000)
    agree = rejected = 0
    nontriv = set()
    opkinds = {}
    for cid, mr in zip(ids, mres):
        src, trees, strs, exts, buf = meta[cid]
        lines = out.get(cid, [])
        replay = {"rules": src, "buffer_hex": hx(buf), "externals": exts, "model_verdicts": mr, "impl": lines[-3:],
                  "how": "h_scan: newcompiler; defi ext0..2 0; add <rules>; getrules; scanner 0; sdefi ext_i <v>; scan <buffer>"}
        if any(l.startswith("crash") for l in lines):
            chk.violation("crash", "compiling/evaluating a condition crashes: %s" % lines[-2:], replay)
            continue
        sc = [l for l in lines if l.startswith("scan msgs=")]
        if not sc:
            adds = [l for l in lines if l.startswith("add errors=")]
            if adds and adds[0] != "add errors=0":
                rejected += 1           # compile-time rejection (constant division by zero, overflow, ...): not a verdict
                continue
            chk.violation("norun", "scan did not run: %s" % lines[-3:], replay, found_input=False)
            continue
        if not re.fullmatch(r"[01]+", mr or ""):
            chk.violation("model", "model runner failed: %s" % mr[:200], replay, found_input=False)
            continue
        impl = "".join("1" if ("M:default:r%d:" % k) in sc[0] or ("M:default:r%d;" % k) in sc[0] else "0" for k in range(len(trees)))
        for t in trees:
            for m in re.finditer(r"\( (\w+)", condgen.sexp(t)):
                opkinds[m.group(1)] = opkinds.get(m.group(1), 0) + 1
        if impl != mr:
            k = next(i for i in range(len(trees)) if impl[i] != mr[i])
            # the known finding is an undefined QUANTIFIER: only when some non-literal quantifier of the rules evaluated so far really is
            # undefined on this input (the model is asked; quantifiers that mention loop variables cannot be asked at top level)
            qs = [q for t in trees[:k + 1] for q in condgen.quant_exprs(t)]
            undefined_q = False
            if qs:
                if any(condgen.mentions_var(q) for q in qs):
                    undefined_q = True
                else:
                    dq = "cond %s %d %s 3 %s %d %s" % (hx(buf), len(strs), " ".join(hx(s_) for s_ in strs), " ".join(str(e) for e in exts),
                                                    len(qs), " ".join(condgen.sexp(("defi", q)) for q in qs))
                    dres, _ = vlib.run_lines(model, [dq], timeout=600)
                    undefined_q = "0" in (dres[0] if dres else "0")
            if undefined_q:
                chk.violation("undefined-quantifier", "a quantifier that evaluates to undefined is treated as 'all' (rule r%d): implementation %s, documented %s"
                              % (k, impl, mr), replay)
            else:
                chk.violation("verdict:" + trees[k][0], "rule r%d: implementation verdicts %s, documented semantics %s" % (k, impl, mr), replay)
        else:
            agree += 1
            nontriv.add((trees[0][0], impl, len(buf) > 0))
    sstat = strop_part(chk, model, hscan)
    chk.note(string_operators=sstat)
    chk.note(evaluations=len(cases), distinct_nontrivial=len(nontriv), traces_validated_against_impl=agree, rejected_at_compile_time=rejected,
             operator_histogram=dict(sorted(opkinds.items(), key=lambda x: -x[1])[:40]),
             rule="random typed condition trees (depth <= 5, <= 3 nested loops, every operator kind, defined/undefined operands: reads past the "
                  "end, indexes beyond #s, division by zero, externals at INT64 extremes) printed with minimal parentheses; 1-3 rules per set with "
                  "references to earlier rules; verdicts compared with the extracted documented-semantics evaluator over the reference match sets; "
                  "distinct = (top operator, verdict vector, buffer empty?)")
    chk.sample({"rules": meta[ids[0]][0], "buffer_hex": hx(meta[ids[0]][4]), "externals": meta[ids[0]][3], "verdicts": mres[0]})
    chk.sample({"rules": meta[ids[-1]][0]})
