"""C03: regular-expression strings and `matches` agree with regex semantics."""
import re
import vlib, build, regen, recheck
from vlib import hx

PROPS = "Props/Properties_C03.v"


def shape(e):
    return e[0] + ("/" + e[1][0] if e[0] in ("cat", "alt", "star", "plus", "opt", "rep") and isinstance(e[1], tuple) else "")


def run(chk):
    tier = chk.tier
    ok, log, st = vlib.proof_obligations(chk, PROPS)
    if not ok:
        chk.violation("proof", "C03 obligations no longer check: " + log[-1200:], {"log": log[-4000:], "generated": st}, found_input=False)
    hscan = build.harness("h_scan")
    model = vlib.build_model()
    n = 150 if tier == "quick" else 2500
    items = []
    for i in range(n):
        r = chk.rng.fork()
        nocase = r.chance(1, 5)
        dotall = r.chance(1, 4)
        g = regen.ReGen(r.fork(), nocase, dotall)
        ast = g.with_literal(r.range(1, 3))
        txt = regen.re_print(ast)
        sexp = regen.re_sexp(ast, nocase, dotall)
        decl = "/%s/%s%s" % (txt.replace("/", "\\x2f"), "s" if dotall else "", " nocase" if nocase else "")
        bufs = [recheck.make_buffer(r, [sexp], r.choice([3, 8, 20, 40, 90]), regen.ALPHA + b"\n\0\xff") for _ in range(4)]
        items.append((decl, sexp, bufs, {"shape": shape(ast), "nocase": nocase, "dotall": dotall}))
    agree, total, nontriv, rejected = recheck.compare(chk, model, hscan, items, "regex")
    # the `matches` operator on string externals (no NUL bytes)
    nm = 80 if tier == "quick" else 1200
    cases, mq, meta = [], [], []
    for i in range(nm):
        r = chk.rng.fork()
        dotall = r.chance(1, 4)
        icase = r.chance(1, 5)
        g = regen.ReGen(r.fork(), icase, dotall)
        ast = g.gen(r.range(1, 3))
        sexp = regen.re_sexp(ast, icase, dotall)
        lit = "/%s/%s%s" % (regen.re_print(ast).replace("/", "\\x2f"), "i" if icase else "", "s" if dotall else "")
        subj = bytes(b for b in recheck.make_buffer(r, [sexp], r.choice([0, 1, 4, 12, 30]), regen.ALPHA + b"\n") if b != 0)
        src = "rule m { condition: ext_s matches %s }" % lit
        meta.append((src, subj))
        cases.append(("m%d" % i, ["newcompiler", "defs ext_s " + hx(b"x"), "add " + hx(src.encode()), "getrules", "scanner 0",
                                   "sdefs ext_s " + hx(subj), "scan " + hx(b"z")]))
        mq.append("rem %s %s" % (hx(subj), sexp))
    out, err = vlib.run_cases(hscan, cases, timeout=3000, args=["120"])
    mres, _ = vlib.run_lines(model, mq, timeout=3000)
    magree = 0
    for i in range(nm):
        mr = mres[i]
        lines = out.get("m%d" % i, [])
        sc = [l for l in lines if l.startswith("scan msgs=")]
        src, subj = meta[i]
        replay = {"rule": src, "subject_hex": hx(subj), "model": mr, "impl": lines[-3:]}
        if any(l.startswith("crash") for l in lines):
            chk.violation("crash:matches", "matches operator crashes: %s" % lines[-2:], replay)
            continue
        if not sc:
            adds = [l for l in lines if l.startswith("add errors=")]
            if adds and adds[0] != "add errors=0":
                rejected += 1
            continue
        impl = "1" if "M:default:m" in sc[0] else "0"
        first = int(mr.split()[1]) if " " in mr else -1
        mr = mr.split()[0]
        if impl != mr and mr == "1" and first == len(subj):
            chk.violation("matches-only-empty-at-end", "`%s` on %r: the expression matches only the empty string at the end of the operand; "
                          "implementation says no match" % (src[:160], subj), replay)
        elif impl != mr:
            chk.violation("matches-operator", "`%s` on %r: implementation %s, regex semantics %s" % (src[:160], subj, impl, mr), replay)
        else:
            magree += 1
    # probe of the known finding: a lazily quantified zero-width assertion makes the scan loop forever
    pout, _ = vlib.run_cases(hscan, [("probe", ["newcompiler", "add " + hx(b'rule h { strings: $a = /(\\B)*?cy/ condition: $a }'), "getrules",
                                                "scanner 0", "scan " + hx(b"cy abc cycy xx"), "scan " + hx(b"zz")])], timeout=60, args=["4"])
    pl = pout.get("probe", [])
    if len([l for l in pl if l.startswith("scan msgs=")]) < 2:
        chk.violation("quantified-zero-width-assertion", "scanning 'cy abc cycy xx' with /(\\B)*?cy/ does not terminate (killed after 4 s): %s" % pl[-2:],
                      {"rule": "rule h { strings: $a = /(\\B)*?cy/ condition: $a }", "buffer": "cy abc cycy xx", "output": pl[-3:]})
    chk.note(evaluations=total + nm, distinct_nontrivial=len(nontriv), traces_validated_against_impl=agree + magree, rejected_at_compile_time=rejected,
             rule="regex ASTs (literals incl. NUL/high bytes, dot with/without /s, classes with ranges and negation, \\w\\s\\d and their complements, "
                  "groups, alternation incl. empty branch, greedy and lazy * + ? {n} {n,} {n,m}, ^ $ \\b \\B, nocase) containing a literal run, "
                  "printed by the generator, x buffers with planted members of the language; offsets must equal the reference's offsets of "
                  "non-empty matches, lengths must be admissible; plus the `matches` operator on string externals; distinct = (shape, #matches class, match at 0)")
    chk.sample({"string": items[0][0], "sexp": items[0][1], "buffer_hex": hx(items[0][2][0])})
    chk.sample({"matches_rule": meta[0][0], "subject_hex": hx(meta[0][1])})
    chk.assumptions += ["ascii regular expressions only (wide and fullword regex strings are not generated)", "buffers shorter than YR_RE_SCAN_LIMIT"]
