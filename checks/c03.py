"""C03: regular-expression strings and `matches` agree with regex semantics."""
import re
import vlib, build, regen, recheck
from vlib import hx

PROPS = "Props/Properties_C03.v"


def shape(e):
    return e[0] + ("/" + e[1][0] if e[0] in ("cat", "alt", "star", "plus", "opt", "rep") and isinstance(e[1], tuple) else "")


def run(chk):
    tier = chk.tier
    ok, log, st = vlib.proof_obligations(chk, PROPS)
    if not ok:
        chk.violation("proof", "C03 obligations no longer check: " + log[-1200:], {"log": log[-4000:], "generated": st}, found_input=False)
    hscan = build.harness("h_scan")
    model = vlib.build_model()
    n = 150 if tier == "quick" else 2500
    items = []
    for i in range(n):
        r = chk.rng.fork()
        nocase = r.chance(1, 5)
        dotall = r.chance(1, 4)
        wide = r.choice(["", "", "", "wide", "ascii wide"])
        g = regen.ReGen(r.fork(), nocase, dotall, allow_anchor=not wide)
        ast = g.with_literal(r.range(1, 3))
        fullword = wide != "ascii wide" and r.chance(1, 4)
        if fullword and r.chance(1, 3):
            # no literal at all: the string has no atom, every position is a candidate and the whole expression is forward code
            def smallcls():
                lo = r.choice(b"acx04")
                return r.choice([("class", False, [(lo, lo + r.range(1, 3))]), ("esc", "d"), ("class", False, [(0x61, 0x63), (0x30, 0x32)])])
            ast = smallcls()
            for _ in range(r.range(1, 2)):
                ast = ("cat", ast, smallcls())
            if r.chance(1, 2):
                n_ = r.range(2, 3)
                ast = ("rep", smallcls(), n_, n_, True)
        txt = regen.re_print(ast)
        sexp = regen.re_sexp(ast, nocase, dotall)
        if wide == "wide":
            sexp = regen.widen_sexp(sexp)
        elif wide:
            sexp = "( alt %s %s )" % (sexp, regen.widen_sexp(sexp))
        decl = "/%s/%s%s%s%s" % (txt.replace("/", "\\x2f"), "s" if dotall else "", " nocase" if nocase else "", " " + wide if wide else "", " fullword" if fullword else "")
        bufs = [recheck.make_buffer(r, [sexp], r.choice([3, 8, 20, 40, 90]), regen.ALPHA + b"\n\0\xff") for _ in range(4)]
        meta_ = {"shape": shape(ast) + ("/" + wide.replace(" ", "+") if wide else "") + ("/fullword" if fullword else ""), "nocase": nocase, "dotall": dotall}
        if fullword:
            # the match must be delimited as a word (Spec/TextSpec.v fullword_ascii / fullword_wide); members planted with word characters,
            # delimiters and the buffer's ends as neighbours, in the narrow or the 16-bit form
            meta_["cmd"] = "refw w" if wide == "wide" else "refw a"
            for _ in range(3):
                m_ = regen.sample_match(r, sexp)
                if not m_:
                    continue
                def nb():
                    c = r.choice(b"x7 .-_Z")
                    return bytes([c, 0]) if wide == "wide" else bytes([c])
                bufs.append(r.choice([b"", nb(), nb() + nb()]) + m_ + r.choice([b"", nb(), nb() + nb(), nb()[:1]]) + m_ + r.choice([b"", nb()]))
        if regen.has_looped_nullable_rep(ast):
            meta_["known_missed_key"] = "counted-repeat-of-nullable-group"
        items.append((decl, sexp, bufs, meta_))
    agree, total, nontriv, rejected = recheck.compare(chk, model, hscan, items, "regex")
    # the `matches` operator on string externals (no NUL bytes)
    nm = 80 if tier == "quick" else 1200
    cases, mq, meta = [], [], []
    for i in range(nm):
        r = chk.rng.fork()
        dotall = r.chance(1, 4)
        icase = r.chance(1, 5)
        g = regen.ReGen(r.fork(), icase, dotall)
        ast = g.gen(r.range(1, 3))
        sexp = regen.re_sexp(ast, icase, dotall)
        lit = "/%s/%s%s" % (regen.re_print(ast).replace("/", "\\x2f"), "i" if icase else "", "s" if dotall else "")
        subj = bytes(b for b in recheck.make_buffer(r, [sexp], r.choice([0, 1, 4, 12, 30]), regen.ALPHA + b"\n") if b != 0)
        src = "rule m { condition: ext_s matches %s }" % lit
        meta.append((src, subj, regen.has_looped_nullable_rep(ast), regen.has_unbounded_nullable_rep(ast)))
        cases.append(("m%d" % i, ["newcompiler", "defs ext_s " + hx(b"x"), "add " + hx(src.encode()), "getrules", "scanner 0",
                                   "sdefs ext_s " + hx(subj), "scan " + hx(b"z")]))
        mq.append("rem %s %s" % (hx(subj), sexp))
    out, err = vlib.run_cases(hscan, cases, timeout=3000, args=["120"], jobs=16)
    mres, _ = vlib.run_lines(model, mq, timeout=3000)
    magree = 0
    for i in range(nm):
        mr = mres[i]
        lines = out.get("m%d" % i, [])
        sc = [l for l in lines if l.startswith("scan msgs=")]
        src, subj, looped_nullable, unbounded_nullable = meta[i]
        replay = {"rule": src, "subject_hex": hx(subj), "model": mr, "impl": lines[-3:]}
        if any(l.startswith("crash") for l in lines):
            chk.violation("crash:matches", "matches operator crashes: %s" % lines[-2:], replay)
            continue
        if not sc:
            adds = [l for l in lines if l.startswith("add errors=")]
            if adds and adds[0] != "add errors=0":
                rejected += 1
            continue
        impl = "1" if "M:default:m" in sc[0] else "0"
        first = int(mr.split()[1]) if " " in mr else -1
        mr = mr.split()[0]
        if impl != mr and mr == "1" and first == len(subj):
            chk.violation("matches-only-empty-at-end", "`%s` on %r: the expression matches only the empty string at the end of the operand; "
                          "implementation says no match" % (src[:160], subj), replay)
        elif impl != mr and impl == "0" and unbounded_nullable:
            chk.violation("star-of-nullable-group-exhausts-fibers", "`%s` on %r: implementation says no match, regex semantics says match (a group that can "
                          "match the empty string under an unbounded quantifier: the fibers are exhausted and `matches` swallows the error)" % (src[:160], subj), replay)
        elif impl != mr and impl == "0" and looped_nullable:
            chk.violation("counted-repeat-of-nullable-group", "`%s` on %r: implementation says no match, regex semantics says match (a counted repeat "
                          "{n,..} with n >= 3 over a group that can match the empty string)" % (src[:160], subj), replay)
        elif impl != mr:
            chk.violation("matches-operator", "`%s` on %r: implementation %s, regex semantics %s" % (src[:160], subj, impl, mr), replay)
        else:
            magree += 1
    # probe of the known finding: a lazily quantified zero-width assertion makes the scan loop forever
    pout, _ = vlib.run_cases(hscan, [("probe", ["newcompiler", "add " + hx(b'rule h { strings: $a = /(\\B)*?cy/ condition: $a }'), "getrules",
                                                "scanner 0", "scan " + hx(b"cy abc cycy xx"), "scan " + hx(b"zz")])], timeout=60, args=["4"])
    pl = pout.get("probe", [])
    if len([l for l in pl if l.startswith("scan msgs=")]) < 2:
        chk.violation("quantified-zero-width-assertion", "scanning 'cy abc cycy xx' with /(\\B)*?cy/ does not terminate (killed after 4 s): %s" % pl[-2:],
                      {"rule": "rule h { strings: $a = /(\\B)*?cy/ condition: $a }", "buffer": "cy abc cycy xx", "output": pl[-3:]})
    # probe of the known finding: a nullable group under an unbounded lazy quantifier exhausts the fibers and `matches` swallows the error
    psrc = b'rule p { condition: ext_s matches /(.??)*?\\x2d/ }'
    pout, _ = vlib.run_cases(hscan, [("pn", ["newcompiler", "defs ext_s " + hx(b"x"), "add " + hx(psrc), "getrules", "scanner 0", "sdefs ext_s " + hx(b"-Cxx"),
                                             "scan " + hx(b"z")])], timeout=60, args=["20"])
    pp = [l for l in pout.get("pn", []) if l.startswith("scan msgs=")]
    if pp and "M:default:p" not in pp[0]:
        chk.violation("star-of-nullable-group-exhausts-fibers", "'-Cxx' matches /(.??)*?\\x2d/ evaluates to false: %s" % pp[0][:160],
                      {"rule": psrc.decode(), "subject": "-Cxx"})
    # probe of the known finding: counted repeat (n >= 4, or 3..m) of a group that can match the empty string
    pout, _ = vlib.run_cases(hscan, [("nrep", ["newcompiler", "add " + hx(b'rule n { strings: $a = /(x?){4}aa/ $b = /(x?){3}aa/ condition: any of them }'), "getrules",
                                               "scanner 0", "scan " + hx(b"aaa1")])], timeout=60, args=["10"])
    pn = [l for l in pout.get("nrep", []) if l.startswith("scan msgs=")]
    if pn and "$b=0/" in pn[0] and "$a=0/" not in pn[0]:
        chk.violation("counted-repeat-of-nullable-group", "/(x?){4}aa/ does not match 'aaa1' at 0 although /(x?){3}aa/ does: %s" % pn[0][:160],
                      {"rule": "rule n { strings: $a = /(x?){4}aa/ $b = /(x?){3}aa/ condition: any of them }", "buffer": "aaa1"})
    # probe of the known finding: a match longer than YR_RE_SCAN_LIMIT bytes is never found
    K = vlib.consts()
    lim = int(K.get("YR_RE_SCAN_LIMIT", 1024))
    reps = lim // 2 + 1
    lsrc = "rule l { strings: $a = /(ab){%d}c/ condition: $a }" % reps
    ssrc = "rule l { strings: $a = /(ab){%d}c/ condition: $a }" % (lim // 2 - 2)
    pout, _ = vlib.run_cases(hscan, [("lim", ["newcompiler", "add " + hx(lsrc.encode()), "getrules", "scanner 0", "scan " + hx(b"x" + b"ab" * reps + b"c")]),
                                     ("lim0", ["newcompiler", "add " + hx(ssrc.encode()), "getrules", "scanner 0", "scan " + hx(b"x" + b"ab" * (lim // 2 - 2) + b"c")])],
                             timeout=120, args=["30"])
    l1 = [l for l in pout.get("lim", []) if l.startswith("scan msgs=")]
    l0 = [l for l in pout.get("lim0", []) if l.startswith("scan msgs=")]
    if not l0 or "M:default:l" not in l0[0]:
        chk.violation("scan-limit-probe", "a regexp matching %d bytes (below YR_RE_SCAN_LIMIT) is not found: %s" % (lim - 3, pout.get("lim0", [])[-2:]),
                      {"rule": ssrc}, found_input=True)
    if l1 and "M:default:l" not in l1[0]:
        chk.violation("match-longer-than-scan-limit", "/(ab){%d}c/ does not match 'x' + 'ab' * %d + 'c': matches longer than YR_RE_SCAN_LIMIT = %d bytes are never found"
                      % (reps, reps, lim), {"rule": lsrc, "buffer": "x + ab*%d + c" % reps, "output": l1[-1][:200]})
    chk.note(evaluations=total + nm, distinct_nontrivial=len(nontriv), traces_validated_against_impl=agree + magree, rejected_at_compile_time=rejected,
             rule="regex ASTs (literals incl. NUL/high bytes, dot with/without /s, classes with ranges and negation, \\w\\s\\d and their complements, "
                  "groups, alternation incl. empty branch, greedy and lazy * + ? {n} {n,} {n,m}, ^ $ \\b \\B, nocase, wide and ascii wide) containing a literal run, "
                  "printed by the generator, x buffers with planted members of the language; offsets must equal the reference's offsets of "
                  "non-empty matches, lengths must be admissible; plus the `matches` operator on string externals; distinct = (shape, #matches class, match at 0)")
    chk.sample({"string": items[0][0], "sexp": items[0][1], "buffer_hex": hx(items[0][2][0])})
    chk.sample({"matches_rule": meta[0][0], "subject_hex": hx(meta[0][1])})
    chk.assumptions += ["ascii wide fullword regexps are not generated; where only some of the admissible lengths at an offset are delimited as a word the offset is neither demanded nor forbidden", "generated matches are shorter than YR_RE_SCAN_LIMIT (longer ones: known finding)"]
