"""C18: command-line results are independent of thread count and rule form.

1. proof obligations: Props/Properties_C18.v over gen/GenQueue.v (regenerated from cli/yara.c now).
2. tie A (scheduler shim): the real cli/yara.c linked with harness/h_c18_shim.c instead of cli/threading.c,
   run under seeded/adversarial schedules; every recorded op trace is replayed step by step in the extracted
   model (head/tail, next op and enabledness of every thread, item handed over compared at every scheduling
   decision); the run itself is checked against the property (no deadlock, each file handed over exactly
   once, output = union of single-file runs).
3. tie B (black box): real `yara`/`yarac` built from /repo's current tree: `-p N` for N in 1..32 over
   generated trees with more files than queue slots vs single-file single-thread runs, output options,
   source vs compiled rules with externals at either stage, exit status.
"""
import os, re, json, hashlib, subprocess, shutil, tempfile, time, difflib
import vlib, build, gen
import genqueue  # noqa: registers the GenQueue.v translator (and, through it, GenOutput.v)
import genoutput

PROPS = "Props/Properties_C18.v"
LEVEL = "proof"
COQ = vlib.COQ
DEFAULT_NAMES = dict(head="queue_head", tail="queue_tail", ring="file_queue", mutex="queue_mutex",
                     sem_used="used_slots", sem_unused="unused_slots", slots=(65, ""))


# ------------------------------------------------------------------ helpers
def sh(cmd, timeout=60, env=None, cwd=None):
    """Returns (rc, stdout, stderr); rc = 'timeout' when the command hangs."""
    try:
        p = subprocess.run(cmd, stdout=subprocess.PIPE, stderr=subprocess.PIPE, timeout=timeout, env=env, cwd=cwd)
        return p.returncode, p.stdout.decode("latin-1"), p.stderr.decode("latin-1")
    except subprocess.TimeoutExpired as e:
        return "timeout", (e.stdout or b"").decode("latin-1"), (e.stderr or b"").decode("latin-1")


def qmodel():
    """A private model runner holding only the queue model (the shared runner is rebuilt by every check and
    may be built without this part): extraction of Model/Queue.v + gen/GenQueue.v, ocaml/prelude.ml,
    ocaml/cmds/20_queue.ml, ocaml/main.ml.  Cached by content."""
    srcs = [os.path.join(COQ, "gen", "GenQueue.v"), os.path.join(COQ, "gen", "GenConsts.v"),
            os.path.join(COQ, "Model", "Queue.v"), os.path.join(COQ, "Model", "QueueOps.v"),
            os.path.join(vlib.VERIF, "ocaml", "prelude.ml"), os.path.join(vlib.VERIF, "ocaml", "cmds", "20_queue.ml"),
            os.path.join(vlib.VERIF, "ocaml", "main.ml"), os.path.join(COQ, "Extract", "parts", "20_queue.txt")]
    h = hashlib.sha256()
    for s in srcs:
        h.update(open(s, "rb").read())
    d = os.path.join(build.CACHE, "c18-model-" + h.hexdigest()[:12])
    out = os.path.join(d, "qmodel")
    if os.path.exists(out):
        os.utime(d, None)
        return out
    tmp = tempfile.mkdtemp(prefix="verif-c18m.", dir=build.scratch_root())
    try:
        reqs, names = [], []
        for line in open(srcs[-1]):
            if line.startswith("require:"):
                reqs += line[8:].split()
            elif line.startswith("names:"):
                names += line[6:].split()
        open(os.path.join(tmp, "X.v"), "w").write(
            "Require Extraction.\nRequire Import ExtrOcamlBasic.\nFrom Coq Require Import NArith ZArith.\n"
            "From YV Require Import %s.\nExtraction \"model.ml\" %s N.succ Z.succ.\n"   # N/Z: types used by ocaml/prelude.ml
            % (" ".join(reqs), " ".join(names)))
        lock = vlib.coq_lock()
        try:
            ok, log = vlib.coq_make(["gen/GenQueue.vo", "Model/Queue.vo"], timeout=300)
            if not ok:
                raise vlib.CoqError("queue model does not compile:\n" + log[-2000:])
            p = subprocess.run(["coqc", "-R", COQ, "YV", "-w", "-all", "X.v"], cwd=tmp, stdout=subprocess.PIPE,
                               stderr=subprocess.STDOUT, text=True, timeout=300)
        finally:
            lock.close()
        if p.returncode != 0:
            raise vlib.CoqError("queue model extraction failed:\n" + p.stdout[-2000:])
        od = os.path.join(vlib.VERIF, "ocaml")
        drv = "open Model\n" + "\n".join(open(f).read() for f in
                                         [os.path.join(od, "prelude.ml"), os.path.join(od, "cmds", "20_queue.ml"),
                                          os.path.join(od, "main.ml")])
        open(os.path.join(tmp, "driver.ml"), "w").write(drv)
        p = subprocess.run(["ocamlfind", "ocamlopt", "-inline", "50", "-w", "-a", "-o", "qmodel", "model.mli", "model.ml",
                            "driver.ml"], cwd=tmp, stdout=subprocess.PIPE, stderr=subprocess.STDOUT, text=True)
        if p.returncode != 0:
            raise vlib.CoqError("queue model runner does not build:\n" + p.stdout[-2000:])
        os.makedirs(d, exist_ok=True)
        shutil.copy2(os.path.join(tmp, "qmodel"), out + ".tmp%d" % os.getpid())
        os.rename(out + ".tmp%d" % os.getpid(), out)
        for old in sorted([x for x in os.listdir(build.CACHE) if x.startswith("c18-model-")],
                          key=lambda x: os.path.getmtime(os.path.join(build.CACHE, x)))[:-3]:
            shutil.rmtree(os.path.join(build.CACHE, old), ignore_errors=True)
        return out
    finally:
        shutil.rmtree(tmp, ignore_errors=True)


# stdio functions interposed in the shim build (calls from cli/yara.c and from libyara.a)
WRAPPED = ["printf", "vprintf", "fprintf", "vfprintf", "puts", "putchar", "fputs", "fputc", "putc", "fwrite"]


def shim_binary(info):
    fl = ["-DQ_HEAD=%s" % info["head"], "-DQ_TAIL=%s" % info["tail"], "-DQ_RING=%s" % info["ring"],
          "-DQ_MUTEX=%s" % info["mutex"], "-DQ_USED=%s" % info["sem_used"], "-DQ_UNUSED=%s" % info["sem_unused"],
          "-DQ_SLOTS=%d" % info["slots"][0], "-DQ_OUTMUTEX=%s" % info.get("outmutex", "output_mutex"),
          "-Wl," + ",".join("--wrap=" + f for f in WRAPPED)]
    return build.harness("h_c18_shim", extra_flags=fl, link_cli=["yara", "args", "common"])


# ------------------------------------------------------------------ inputs
RULES_A = r'''
rule always : tagA tagB { meta: author = "x\ty" n = 5 b = true condition: true }
rule has_hello : tagA { meta: d = "plain" strings: $a = "hello" $b = "abc" wide ascii condition: any of them }
rule hexpat : tagH { strings: $h = { DE AD ?? EF } condition: $h }
rule xored : tagX { strings: $x = "secretword" xor(1-255) condition: $x }
rule is_empty { condition: filesize == 0 }
rule is_elf : tagE { condition: filesize > 4 and uint32(0) == 0x464c457f }
rule never { condition: false }
rule many : tagA { strings: $m = "ab" condition: #m > 3 }
'''
RULES_B = r'''
rule ext_int : tagA { condition: ext_i == 7 and filesize > 0 }
rule ext_str { strings: $n = "needle" condition: ext_s contains "stack" and $n }
rule ext_bool : tagB { condition: ext_b and filesize > 20 }
rule last_one { strings: $z = "zebra" nocase condition: $z or filesize == 3 }
'''
EXT_GOOD = ["-d", "ext_i=7", "-d", "ext_s=haystack", "-d", "ext_b=true"]
EXT_OTHER = ["-d", "ext_i=0", "-d", "ext_s=zz", "-d", "ext_b=false"]
WORDS = ["lorem", "ipsum", "hello", "abc", "needle", "zebra", "ZeBrA", "ab", "abab", "xyz", "0x10", "dolor", "\n", " ", "\t"]


def make_tree(rng, root, nfiles):
    """Deterministic from rng: nested directories, text / ELF / PE / empty / xor / hex / big files, some executable."""
    samples = []
    for n in ("tiny", "tiny-idata-5200", "elf_with_imports", "mtxex.dll", "tiny-macho"):
        p = os.path.join(build.REPO, "tests", "data", n)
        if os.path.exists(p):
            samples.append(open(p, "rb").read())
    dirs = ["", "a", "a/b", "a/b/c", "d", "e/f", "e/g"]
    for d in dirs:
        os.makedirs(os.path.join(root, d), exist_ok=True)
    files = []
    kinds = {}
    for i in range(nfiles):
        kind = rng.choice(["text", "text", "text", "exe", "empty", "xor", "hex", "big", "exectext", "tiny3"])
        if i < 4:
            kind = ["empty", "exe", "big", "text"][i]
        rel = os.path.join(rng.choice(dirs), "f%04d_%s" % (i, kind))
        if kind == "empty":
            data = b""
        elif kind == "exe" and samples:
            data = rng.choice(samples)
        elif kind == "xor":
            k = rng.range(1, 255)
            data = b"pad " + bytes(c ^ k for c in b"secretword") + b" pad " + bytes(c ^ 1 for c in b"secretword")
        elif kind == "hex":
            data = rng.bytes(20) + b"\xde\xad" + rng.bytes(1) + b"\xef" + rng.bytes(rng.range(0, 30)) + b"\xde\xad\x00\xef"
        elif kind == "big":
            data = ("".join(rng.choice(WORDS) for _ in range(rng.range(3000, 9000)))).encode()
        elif kind == "tiny3":
            data = b"abc"
        else:
            data = ("".join(rng.choice(WORDS) for _ in range(rng.range(1, 60)))).encode()
            if rng.chance(1, 4):
                data += "h\0e\0l\0l\0o\0a\0b\0c\0".encode()
        p = os.path.join(root, rel)
        open(p, "wb").write(data)
        if kind in ("exe", "exectext") or rng.chance(1, 8):
            os.chmod(p, 0o755)
        files.append(rel)
        kinds[kind] = kinds.get(kind, 0) + 1
    return files, kinds


# ------------------------------------------------------------------ output canonicalisation
def split_groups(out, count_mode=False):
    """stdout -> (list of groups, list of torn/unparseable lines).  A group is a rule line followed by its
    '0x...' string lines; in -c mode a group is one 'path: N' line."""
    groups, bad = [], []
    lines = out.split("\n")
    if lines and lines[-1] == "":
        lines.pop()
    else:
        bad.append("output does not end with a newline: %r" % lines[-1][-80:] if lines else "")
    for l in lines:
        if l.startswith("0x"):
            if groups and not count_mode:
                groups[-1].append(l)
            else:
                bad.append(l)
        else:
            groups.append([l])
    return groups, [b for b in bad if b]


def by_file(groups, paths, count_mode=False):
    """Assign every group to the file its first line names: {path: [group,...]} ; unassignable groups -> bad."""
    res, bad = {}, []
    pset = set(paths)
    for g in groups:
        l = g[0]
        if count_mode:
            m = re.match(r"^(.*): (\d+)$", l)
            key = m.group(1) if m else None
            val = [m.group(2)] if m else None
        else:
            key = l.rsplit(" ", 1)[-1] if " " in l else None
            val = [l.rsplit(" ", 1)[0]] + g[1:]
        if key in pset:
            res.setdefault(key, []).append(val)
        else:
            bad.append(l)
    return res, bad


class Baseline:
    """Per-file single-threaded invocations of the real yara binary (cached per option set)."""

    def __init__(self, yara, root, files, rules_args):
        self.yara, self.root, self.files, self.rules_args = yara, root, files, rules_args
        self.cache = {}
        self.runs = 0

    def get(self, opts, count_mode=False):
        key = (tuple(opts), tuple(self.rules_args))
        if key in self.cache:
            return self.cache[key]
        res, errs = {}, []
        from concurrent.futures import ThreadPoolExecutor
        with ThreadPoolExecutor(8) as ex:
            outs = list(ex.map(lambda rel: sh([self.yara] + list(opts) + self.rules_args + [os.path.join(self.root, rel)],
                                              timeout=60), self.files))
        for rel, (rc, out, err) in zip(self.files, outs):
            p = os.path.join(self.root, rel)
            self.runs += 1
            if rc != 0 or err.strip():
                errs.append((rel, rc, err[:200]))
            if count_mode:
                res[p] = [[out.strip()]] if out.strip() != "" else []
            else:
                groups, bad = split_groups(out)
                bf, bad2 = by_file(groups, [p])
                if bad or bad2:
                    errs.append((rel, "unparseable", (bad + bad2)[:2]))
                if p in bf:
                    res[p] = bf[p]
        self.cache[key] = (res, errs)
        return self.cache[key]


def compare_dir_run(out, base, root, files, count_mode, negate=False):
    """Compare the stdout of one directory run with the per-file baseline. Returns list of problems."""
    paths = [os.path.join(root, f) for f in files]
    groups, torn = split_groups(out, count_mode)
    bf, bad = by_file(groups, paths, count_mode)
    probs = []
    if torn:
        probs.append(("torn", "lines that are not whole output lines: %r" % torn[:3]))
    if bad:
        probs.append(("foreign", "lines naming no scanned file (torn or interleaved): %r" % bad[:3]))
    for p in paths:
        got, want = bf.get(p, []), base.get(p, [])
        if count_mode and not want:
            continue
        if got != want:
            if len(got) > len(want) and got[:len(want)] == want and got[len(want):] == want[:len(got) - len(want)]:
                kind = "duplicated"
            elif len(got) < len(want):
                kind = "missing"
            else:
                kind = "different"
            probs.append((kind, "%s: directory run printed %d group(s), the single-file run %d; first difference: %r vs %r"
                          % (p, len(got), len(want), next((g for g in got if g not in want), None),
                             next((w for w in want if w not in got), None))))
            if len(probs) > 6:
                break
    return probs


# ------------------------------------------------------------------ shim traces
def parse_trace(text, out=None):
    """out (dict, optional) receives the output-discipline lines: events {tid: str}, writes [5 ints], unlocked [lines]."""
    order, evs, fin, sched = [], [], "", []
    seminit = {}
    if out is not None:
        out.update(events={}, writes=None, unlocked=[])
    for l in text.split("\n"):
        if not l:
            continue
        p = l.split(" ")
        if p[0] == "SEMINIT":
            seminit[p[1]] = int(p[2])
            continue
        if p[0] in ("EVENTS", "WRITES", "UNLOCKED-WRITE"):
            if out is not None:
                if p[0] == "EVENTS" and len(p) >= 3:
                    out["events"][int(p[1])] = "" if p[2] == "-" else p[2]
                elif p[0] == "WRITES":
                    out["writes"] = [int(x) for x in p[1:6]]
                elif p[0] == "UNLOCKED-WRITE":
                    out["unlocked"].append(l)
            continue
        if p[0] in ("END", "DEADLOCK", "STEPLIMIT", "REPLAY-DIVERGED", "REPLAY-EXHAUSTED"):
            fin = l
            continue
        if len(p) < 4 or not p[0].isdigit() or int(p[0]) >= len(p[3]):
            fin = "GARBLED " + l
            continue
        tid, h, t, pend = p[0], p[1], p[2], p[3]
        item = "-"
        if len(p) > 4:
            path = p[4]
            if tid == "0":
                order.append(path)
                item = str(len(order) - 1)
            else:
                item = str(order.index(path)) if path in order else "?"
        evs.append(",".join([tid, h, t, pend, item]))
        sched.append(tid)
    return order, evs, fin, sched, seminit


def run_shim(shim, args, seed, mode, tmp, replay=None, timeout=60):
    tr = os.path.join(tmp, "trace.%d" % os.getpid())
    env = dict(os.environ, C18_TRACE=tr, C18_SEED=str(seed), C18_MODE=str(mode))
    if replay is not None:
        rp = os.path.join(tmp, "replay.%d" % os.getpid())
        open(rp, "w").write(" ".join(replay))
        env["C18_REPLAY"] = rp
    rc, out, err = sh([shim] + args, timeout=timeout, env=env)
    text = open(tr, errors="replace").read() if os.path.exists(tr) else ""
    return rc, out, err, text


def taken_items(evs):
    """From the events: files put by the producer / taken by consumers (as indices)."""
    put, got = [], []
    for e in evs:
        tid, h, t, pend, item = e.split(",")
        if item != "-" and pend[int(tid)] == "U":
            (put if tid == "0" else got).append(item)
    return put, got


def private_obligations():
    """The lemmas that tie the theorems to the source (cfg_shape / Mq_pos / threads_covered for the queue, worker_checked
    for the output path) re-checked against the models translated NOW by this process, in a scratch directory.
    coq/gen/ is shared with every other run (anything that calls coq_prepare rewrites it from its own VERIF_REPO), so
    the shared build alone is not trusted to have compiled this run's translation.  Returns a list of failures."""
    fails = []
    try:
        gq = genqueue.gen_queue()
        body = gq[gq.index("Definition MAX_QUEUED_FILES"):]
        rc, out = vlib.coq_eval(
            "From Coq Require Import ZArith List Lia.\nImport ListNotations.\n"
            "From YV Require Import gen.GenConsts Model.QueueOps.\n"
            "Module P.\nLocal Open Scope Z_scope.\n" + body + "\nEnd P.\n"
            "Goal P.queue_cfg = qstd_cfg (Z.to_nat P.MAX_QUEUED_FILES) (qc_fin_n P.queue_cfg).\nProof. vm_compute. reflexivity. Qed.\n"
            "Goal (0 < Z.to_nat P.MAX_QUEUED_FILES)%nat.\nProof. vm_compute. lia. Qed.\n"
            "Goal (P.queue_max_threads <= qc_fin_n P.queue_cfg)%nat.\nProof. vm_compute. lia. Qed.\n", timeout=300)
        if rc != 0:
            fails.append("queue model translated now: cfg_shape / Mq_pos / threads_covered do not hold: " + " ".join(out.split())[-500:])
    except gen.GenError as e:
        pass    # reported by the caller
    try:
        go = genoutput.gen_output()
        body = go[go.index("Definition out_worker"):]
        rc, out = vlib.coq_eval(
            "From Coq Require Import List String.\nImport ListNotations.\n"
            "From YV Require Import Model.QueueOutput.\n"
            "Module P.\nLocal Open Scope string_scope.\n" + body + "\nEnd P.\n"
            "Goal chk (out_allowed known_unprotected_vars unlocked_stderr_sites (written_vars P.out_worker) P.out_main_writes)\n"
            "         P.out_worker false = Some (mkR (Some false) None None None).\nProof. vm_compute. reflexivity. Qed.\n"
            "Goal exists tr ch, orun 5000 P.out_worker P.out_example_choices = Some (tr, ONormal, ch) /\\\n"
            "     (existsb is_lock tr && existsb is_stdout tr)%bool = true.\nProof. vm_compute. eexists; eexists; split; reflexivity. Qed.\n",
            timeout=300)
        if rc != 0:
            fails.append("output model translated now: worker_checked does not hold (a write or shared access outside the output "
                         "mutex, or unbalanced lock/unlock on some path): " + " ".join(out.split())[-500:])
    except gen.GenError as e:
        pass
    return fails


def out_discipline(chk, od, nfa, what, n, seed, mode, tree_replay, args, sched, octr):
    """Tie of the output model: (i) at run time every stdio call of a scanning thread to stdout happened with the output
    mutex held (the shim's own bookkeeping), to stderr likewise except warnings; (ii) the sequence of lock/unlock/output
    events of every scanning thread is a prefix of an execution of the generated model (gen/GenOutput.v)."""
    if not od or od.get("writes") is None:
        return
    w = od["writes"]
    octr["runs"] += 1
    octr["stdout_locked"] += w[0]
    octr["stderr_locked"] += w[2]
    rep = tree_replay({"kind": "shim", "args": args[:-1] + ["<tree>"], "threads": n, "seed": seed, "mode": mode,
                       "schedule": " ".join(sched) if len(sched) < 60000 else "(too long; rerun with seed/mode)",
                       "unlocked_writes": od["unlocked"][:10]})
    bad_out = [l for l in od["unlocked"] if " stdout " in l]
    bad_err = [l for l in od["unlocked"] if " stderr " in l and not l.split(" ", 3)[3].startswith("warning:")]
    octr["stderr_unlocked_warnings"] += w[3] - len(bad_err)
    if w[1] or bad_out:
        chk.violation("output-unlocked", "real cli/yara.c under the scheduler shim (%s, seed %d mode %d): %d stdio call(s) to stdout "
                      "made by a scanning thread that does not hold the output mutex, e.g. %s" % (what, seed, mode, w[1], bad_out[:3]), rep)
    if bad_err:
        chk.violation("stderr-unlocked", "real cli/yara.c under the scheduler shim (%s, seed %d mode %d): stdio call(s) to stderr "
                      "outside the output mutex that are not warnings: %s" % (what, seed, mode, bad_err[:3]), rep)
    if nfa:
        for t, ev in sorted(od["events"].items()):
            octr["events"] += len(ev)
            i = nfa.accepts_prefix(ev)
            if i >= 0:
                chk.violation("output-model", "scanning thread %d of the real cli/yara.c (%s, seed %d mode %d) produced the lock/output "
                              "event sequence ...%s[%s]%s..., which no execution of the model generated from cli/yara.c has "
                              "(L/U = lock/unlock of the output mutex, o/e = one stdio call to stdout/stderr)"
                              % (t, what, seed, mode, ev[max(0, i - 30):i], ev[i], ev[i + 1:i + 10]),
                              dict(rep, thread=t, position=i), found_input=False)
                break


def extra_runs(chk, shim, tmp, root, paths, rules_src, nfa, tree_replay, octr, quick):
    rules_x = os.path.join(tmp, "rules_x.yar")
    open(rules_x, "w").write('import "console"\nimport "elf"\n'
                             'rule logs { strings: $a = "hello" condition: console.log("n=", #a) and $a }\n'
                             'rule e { condition: elf.type == elf.ET_EXEC or filesize >= 0 }\n')
    big = os.path.join(tmp, "many_matches")
    open(big, "wb").write(b"ab" * 1050000)
    rules_m = os.path.join(tmp, "rules_m.yar")
    open(rules_m, "w").write('rule m { strings: $m = "ab" condition: $m }\n')
    lst = os.path.join(tmp, "xlist.txt")
    open(lst, "w").write("\n".join(paths[:6] + [os.path.join(tmp, "does_not_exist"), big] + paths[6:10]) + "\n")
    runs = [(["-p", "4", "-r", "-s", "-D", rules_x, root], 3), (["-p", "3", "-s", "-g", "--scan-list"] + rules_src + [lst], 0),
            (["-p", "2", "--scan-list", rules_m, lst], 6), (["-p", "5", "-r", "-D", "-m", "-e", rules_x, root], 2)]
    for args, mode in runs[:3 if quick else 4]:
        seed = chk.rng.next() % (1 << 62)
        rc, out, err, text = run_shim(shim, args, seed, mode, tmp, timeout=120)
        od = {}
        order, evs, fin, sched, _ = parse_trace(text, od)
        if rc == "timeout" or not fin.startswith("END"):
            chk.violation("shim-abnormal", "real cli/yara.c under the scheduler shim (%s): %s" % (" ".join(a.replace(tmp, "<tmp>") for a in args), fin[:100] or rc),
                          tree_replay({"kind": "shim-extra", "args": [a.replace(tmp, "<tmp>") for a in args], "seed": seed, "mode": mode}))
            continue
        out_discipline(chk, od, nfa, " ".join(a.replace(tmp, "<tmp>") for a in args[:-2]), int(args[1]), seed, mode, tree_replay, args, sched, octr)


# ------------------------------------------------------------------ external VALUES at the conversion boundaries, three rule forms
EXT_INT_CANDS = [2 ** 31 - 1, 2 ** 31, 2 ** 32 - 1, 2 ** 32, 2 ** 32 + 1, 2 ** 40 + 3, -2 ** 31, -2 ** 31 - 1, -1, 0, 7, 3, 16, 1000,
                 -2 ** 32, 2 ** 63 - 1, 1099511627776, 12]
EXT_VALUES = {
    "integer": [str(v) for v in (2 ** 31 - 1, 2 ** 31, 2 ** 32 - 1, 2 ** 32, 2 ** 32 + 1, 2 ** 40 + 3, -2 ** 31, -2 ** 31 - 1, -1, 0, 2 ** 63 - 1,
                                 -2 ** 32, -2 ** 63)] + ["007", "-0", "00000000004294967296", "99999999999999999999"],
    "float": ["1.5", "-0.0", "0.0", "4294967296.0", "2147483648.5", "-1.25", "123456789012345678.0", "7."],
    "boolean": ["true", "false"],
    "string": ["", "0x10", "1e3", "1e10", "12abc", "abc", "-", "1.2.3", ".5", "TRUE", "4294967296x", " 7", "-1e3", "tru"],
}
EXT_PLACEHOLDER = {"integer": "1", "float": "0.5", "boolean": None, "string": "placeholder"}


def ext_int_cands():
    vals = set(EXT_INT_CANDS)
    for t in EXT_VALUES["integer"]:
        if -2 ** 63 <= int(t) <= 2 ** 63 - 1:
            vals.add(int(t))
    return sorted(vals)


def ext_value_rules(kind):
    lit = lambda v: "(%d)" % v if v >= 0 else "(-%d)" % -v if v > -2 ** 63 else "(-9223372036854775807 - 1)"
    if kind == "integer":
        r = ['import "console"', 'rule show { condition: console.log("v=", v) }', "rule gt_u32 { condition: v > 4294967295 }",
             "rule gt_i32 { condition: v > 2147483647 }", "rule negative { condition: v < 0 }", "rule odd { condition: v % 2 == 1 or v % 2 == -1 }"]
        for i, c in enumerate(ext_int_cands()):
            r.append("rule eq_%d { condition: v == %s }" % (i, lit(c)))
            r.append("rule half_%d { condition: v \\ 2 == %s }" % (i, lit(abs(c) // 2 * (1 if c >= 0 else -1))))
        return "\n".join(r) + "\n"
    if kind == "float":
        return ('import "console"\nrule show { condition: console.log("v=", v) }\nrule eq_1_5 { condition: v == 1.5 }\n'
                "rule gt_u32 { condition: v > 4294967295.5 }\nrule ge_u32 { condition: v >= 4294967296.0 }\nrule negative { condition: v < 0.0 }\n"
                "rule zero { condition: v == 0.0 }\nrule half { condition: v \\ 2.0 == 0.75 }\nrule seven { condition: v == 7.0 }\n")
    if kind == "boolean":
        return "rule is_true { condition: v }\nrule is_false { condition: not v }\n"
    return ('import "console"\nrule show { condition: console.log("v=", v) }\nrule is_empty { condition: v == "" }\n'
            'rule digits { condition: v matches /^[0-9]+/ }\nrule has_x { condition: v contains "x" }\nrule is_1e3 { condition: v == "1e3" }\n'
            'rule is_0x10 { condition: v == "0x10" }\nrule is_12abc { condition: v == "12abc" }\nrule icase_true { condition: v iequals "true" }\n')


def external_value_runs(chk, yara, yarac, tmp, HANG_S):
    """The same `-d v=<value>` must mean the same thing (1) for source rules given to yara, (2) for compiled rules with
    -d given to yara -C, (3) for compiled rules with -d given to yarac: line for line and in exit status."""
    d = os.path.join(tmp, "extvals")
    os.makedirs(os.path.join(d, "dir"), exist_ok=True)
    one = os.path.join(d, "one.txt")
    open(one, "w").write("some text\n")
    for i in range(3):
        open(os.path.join(d, "dir", "f%d.txt" % i), "w").write("file %d\n" % i)
    n = 0
    classes = {}
    inexact = []      # integer externals are int64: `-d v=<decimal that fits in int64>` must define exactly that value
    cands = ext_int_cands()
    for kind, values in EXT_VALUES.items():
        rules = os.path.join(d, "ext_%s.yar" % kind)
        open(rules, "w").write(ext_value_rules(kind))
        for val in values:
            dv = ["-d", "v=" + val]
            ph = EXT_PLACEHOLDER[kind] if kind != "boolean" else ("false" if val == "true" else "true")
            yc_ph, yc_val = os.path.join(d, "ph.yarc"), os.path.join(d, "val.yarc")
            c_ph = sh([yarac, "-d", "v=" + ph, rules, yc_ph], timeout=HANG_S)
            c_val = sh([yarac] + dv + [rules, yc_val], timeout=HANG_S)
            if c_ph[0] != 0:
                chk.violation("external-value:setup", "yarac -d v=%s fails on the %s rules: %r" % (ph, kind, c_ph[2][:200]),
                              {"kind": "external-value", "rules": open(rules).read()}, found_input=False)
                break
            outs = {}
            for tname, targs, srt in (("single file", [one], False), ("directory -p 2", ["-p", "2", os.path.join(d, "dir")], True)):
                forms = [("source rules, -d given to yara", [yara, "-w"] + dv + [rules] + targs),
                         ("compiled rules, -d given to yara -C", [yara, "-w", "-C"] + dv + [yc_ph] + targs),
                         ("compiled rules, -d given to yarac", [yara, "-w", "-C", yc_val] + targs)]
                res = []
                for fname, cmd in forms:
                    if fname.endswith("yarac") and c_val[0] != 0:
                        res.append((fname, c_val[0], ["<yarac failed>"], c_val[2][:200]))
                        continue
                    rc, out, err = sh(cmd, timeout=HANG_S)
                    n += 1
                    lines = [l for l in out.split("\n") if l]
                    res.append((fname, rc, sorted(lines) if srt else lines, err[:200]))
                sig = [(rc, lines, bool(err.strip())) for _, rc, lines, err in res]
                if not (sig[0] == sig[1] == sig[2]):
                    chk.violation("external-value:" + kind,
                                  "`-d v=%s` (%s) means different things in the three rule forms (%s): %s"
                                  % (val, kind, tname, "; ".join("%s -> exit %r, %s%s" % (f, rc, [x.replace(d, "<d>") for x in lines[:6]],
                                                                                           (" stderr " + repr(err[:80])) if err.strip() else "")
                                                                 for f, rc, lines, err in res)),
                                  {"kind": "external-value", "value": val, "class": kind, "rules": open(rules).read(), "target": tname,
                                   "placeholder_given_to_yarac_for_form_2": ph,
                                   "forms": [{"form": f, "exit": rc, "stdout": [x.replace(d, "<d>") for x in lines[:40]], "stderr": err}
                                             for f, rc, lines, err in res]})
                outs[tname] = res[0][2]
                if kind == "integer" and -2 ** 63 <= int(val) <= 2 ** 63 - 1:
                    want_v, want_rule = "v=%d" % int(val), "eq_%d " % cands.index(int(val))
                    for (fname, rc, lines, err), (_, cmd) in zip(res, forms):
                        if rc != 0 or want_v not in lines or not any(l.startswith(want_rule) for l in lines):
                            inexact.append({"value": val, "expected": int(val), "form": fname, "target": tname, "exit": rc,
                                            "printed": [l for l in lines if l.startswith("v=")][:1],
                                            "rule_v_eq_value_matched": any(l.startswith(want_rule) for l in lines),
                                            "cmd": [os.path.basename(cmd[0])] + [c.replace(d, "<d>") for c in cmd[1:]],
                                            "yarac_cmd": (["yarac", "-d", "v=" + (val if fname.endswith("yarac") else ph), "<d>/ext_integer.yar", "<out>"]
                                                          if "compiled" in fname else None),
                                            "stdout": [x.replace(d, "<d>") for x in lines[:12]], "stderr": err})
            classes.setdefault(kind, []).append((val, [l for l in outs["single file"] if l.startswith("v=")][:1]))
    if inexact:
        vals = []
        for x in inexact:
            if x["value"] not in vals:
                vals.append(x["value"])
        ex = inexact[0]
        chk.violation("external-value-exact:int64",
                      "`-d v=<integer>` does not define the int64 value written: %d value(s) wrong (%s) in form(s) %s; e.g. `%s` prints %s and "
                      "`rule { condition: v == %d }` %s (integer externals are 64-bit everywhere else: literal, constant expression, "
                      "yr_*_define_integer_variable)"
                      % (len(vals), ", ".join(vals[:12]), sorted(set(x["form"] for x in inexact)), " ".join(ex["cmd"][:5]), ex["printed"] or "nothing",
                         ex["expected"], "matches" if ex["rule_v_eq_value_matched"] else "does not match"),
                      {"kind": "external-value-exact", "rules": open(os.path.join(d, "ext_integer.yar")).read(), "wrong": inexact[:60],
                       "values_wrong": vals})
    chk.note(external_values=dict(runs=n, int64_values_checked_for_exactness=sum(1 for t in EXT_VALUES["integer"] if -2 ** 63 <= int(t) <= 2 ** 63 - 1), values={k: len(v) for k, v in EXT_VALUES.items()},
                                  observed_conversion={k: ["%s -> %s" % (a, (b[0] if b else "-")) for a, b in v] for k, v in classes.items()}))
    return n


# ------------------------------------------------------------------ per-file module state must not outlive its scan
MOD_RULES = {   # module -> rules that use per-file state of that module (%(...)s filled per tree)
    "hash": 'rule h_known_a { condition: hash.md5(0, filesize) == "%(md5a)s" }\n'
            'rule h_known_b : tagH { meta: which = "group b" condition: filesize > 0 and hash.sha256(0, filesize) == "%(sha256b)s" }\n'
            'rule h_known_elf_sized { condition: hash.md5(0, filesize) == "%(md5e)s" }\n',
    "elf": 'rule is_elf : exe { meta: kind = "elf" condition: elf.type == elf.ET_EXEC or elf.type == elf.ET_DYN }\n'
           'rule elf_many_sections { condition: elf.number_of_sections > 20 }\n',
    "pe": 'rule is_pe : exe { condition: pe.number_of_sections > 0 }\nrule pe_7_sections { condition: pe.number_of_sections == 7 }\n',
    "dotnet": 'rule is_dotnet : exe { condition: dotnet.is_dotnet }\nrule dotnet_5_streams { condition: dotnet.number_of_streams == 5 }\n',
    "macho": 'rule is_macho { condition: defined macho.magic or defined macho.fat_magic }\n',
    "dex": 'rule is_dex { condition: defined dex.header.file_size }\n',
    "math": 'rule entropy_hi { condition: filesize > 0 and math.entropy(0, filesize) >= 6.0 }\n'
            'rule entropy_lo { condition: filesize > 0 and math.entropy(0, filesize) < 4.5 }\n'
            'rule mean_lo { condition: filesize > 0 and math.mean(0, filesize) < 60.0 }\n',
    "string": 'rule str_len { condition: string.length("abc") == 3 and filesize == 0 }\n',
    "time": 'rule time_ok { condition: time.now() > 1600000000 and filesize == 0 }\n',
    "tests": 'rule tests_mod { condition: tests.constants.one == 1 and filesize == 0 }\n',
    "console": "",
}
MOD_LOGS = {    # printed to stdout by the console module: the module values themselves are compared
    "hash": 'rule log_md5 { condition: filesize > 0 and console.log("md5=", hash.md5(0, filesize)) }\n',
    "elf": 'rule log_elf { condition: elf.number_of_sections > 0 and console.log("elf_sections=", elf.number_of_sections) }\n',
    "pe": 'rule log_pe { condition: pe.is_pe and console.log("pe_sections=", pe.number_of_sections) }\n',
    "dotnet": 'rule log_dotnet { condition: dotnet.number_of_streams > 0 and console.log("dotnet_streams=", dotnet.number_of_streams) }\n',
}
# variants: (name, externals [(name, value given where the rules need it, other value)], rules using them, modules NOT imported)
MOD_VARIANTS = [
    ("plain externals of every type", [], "", []),
    ("external named time (not imported)", [("time", "1700000000", "0")],
     "rule ext_time { condition: time > 1600000000 and filesize == 0 }\n", ["time"]),
    ("external named string (not imported)", [("string", "needle", "zz")],
     'rule ext_string { condition: string contains "need" and filesize == 0 }\n', ["string"]),
    ("external named math (not imported)", [("math", "2.5", "0.5")],
     "rule ext_math { condition: math > 2.0 and filesize == 0 }\n", ["math"]),
    ("external named pe (not imported)", [("pe", "true", "false")],
     "rule ext_pe { condition: pe and filesize == 0 }\n", ["pe"]),
    ("external named tests (not imported)", [("tests", "1", "0")],
     "rule ext_tests { condition: tests == 1 and filesize == 0 }\n", ["tests"]),
]
MOD_COMMON_EXT = [("ext_i", "7", "0"), ("ext_s", "haystack", "zz"), ("ext_b", "true", "false"), ("ext_f", "2.5", "0.25")]
MOD_COMMON_RULE = 'rule ext_all_types { condition: ext_i == 7 and ext_s contains "stack" and ext_b and ext_f > 1.0 and filesize == 0 }\n'


def module_tree(root):
    """Deterministic tree: three groups of EQUAL-SIZE text files with different content, ELF / PE / .NET / Mach-O samples
    (several copies each), random files of exactly the size of the ELF sample, empty and tiny files; the returned list
    interleaves the kinds (it is also the order of the scan list)."""
    import hashlib
    data = os.path.join(build.REPO, "tests", "data")
    samples = {}
    for kind, names in (("elf", ["elf_with_imports"]), ("pe", ["tiny", "mtxex.dll"]),
                        ("dotnet", ["0ca09bde7602769120fadc4f7a4147347a7a97271370583586c9e587fd396171",
                                    "3b8b90159fa9b6048cc5410c5d53f116943564e4d05b04a843f9b3d0540d0c1c"]),
                        ("macho", ["tiny-macho", "tiny-universal"])):
        for n in names:
            q = os.path.join(data, n)
            if os.path.exists(q):
                samples.setdefault(kind, []).append(open(q, "rb").read())
    for d in ("", "sub", "sub/deep", "other"):
        os.makedirs(os.path.join(root, d), exist_ok=True)
    by_kind = {}

    def put(kind, rel, content):
        q = os.path.join(root, rel)
        open(q, "wb").write(content)
        by_kind.setdefault(kind, []).append(q)
        return q
    known = {}
    for g, width in (("a", 40), ("b", 97), ("c", 300)):
        for i in range(10):
            body = ("group %s file number %03d " % (g, i)).encode()
            body = (body * (width // len(body) + 1))[:width - 1] + b"\n"
            q = put("text_" + g, os.path.join(("", "sub", "other")[i % 3], "text_%s_%03d.txt" % (g, i)), body)
            if i == 4:
                known[g] = body
    elf_size = len(samples["elf"][0]) if "elf" in samples else 17080
    for i in range(3):
        h = hashlib.sha256(b"filler%d" % i).digest()
        put("elfsized", os.path.join(("sub", "", "sub/deep")[i], "blob_%d.bin" % i), (h * (elf_size // 32 + 1))[:elf_size])
    for kind, blobs in samples.items():
        for j, b in enumerate(blobs):
            for c in range(4 if kind == "elf" else 2):
                put(kind, os.path.join(("", "sub", "sub/deep", "other")[(j + c) % 4], "%s_%d_copy%d.bin" % (kind, j, c)), b)
    for i in range(6):
        put("empty", os.path.join(("", "sub")[i % 2], "empty_%d.dat" % i), b"")
    for i in range(24):
        put("misc", os.path.join(("", "other")[i % 2], "note_%02d.txt" % i), ("note %d " % i).encode() * (i + 1))
    order = []
    kinds = sorted(by_kind)
    k = 0
    while any(by_kind[x] for x in kinds):
        x = kinds[k % len(kinds)]
        if by_kind[x]:
            order.append(by_kind[x].pop(0))
        k += 1
    blob0 = os.path.join(root, "sub", "blob_0.bin")
    fill = dict(md5a=hashlib.md5(known["a"]).hexdigest(), sha256b=hashlib.sha256(known["b"]).hexdigest(),
                md5e=hashlib.md5(open(blob0, "rb").read()).hexdigest())
    return order, fill


def module_state_runs(chk, yara, yarac, tmp, quick, HANG_S):
    """Black box: rules importing every compiled-in module and using per-file module state; externals of every type,
    also named like modules; directory and scan-list scans at several thread counts, source rules and yarac output with
    the externals given at either stage, against one yara process per file."""
    from concurrent.futures import ThreadPoolExecutor
    rc, out, err = sh([yara, "-M"], timeout=HANG_S)
    mods = [m for m in out.split() if m in MOD_RULES]
    root = os.path.join(tmp, "modtree")
    order, fill = module_tree(root)
    lst = os.path.join(tmp, "modlist.txt")
    open(lst, "w").write("\n".join(order) + "\n")
    runs_done, lines_cmp = 0, 0
    tcs = (1, 2, 4, 8, 32)
    for vi, (vname, exts, vrules, not_imported) in enumerate(MOD_VARIANTS):
        imported = [m for m in mods if m not in not_imported]
        text = "".join('import "%s"\n' % m for m in imported)
        text += "".join(MOD_RULES[m] % fill for m in imported)
        if "console" in imported:
            text += "".join(MOD_LOGS[m] for m in imported if m in MOD_LOGS)
        text += MOD_COMMON_RULE + vrules
        rules = os.path.join(tmp, "mod_%d.yar" % vi)
        open(rules, "w").write(text)
        allext = MOD_COMMON_EXT + exts
        good = [x for n, g, o in allext for x in ("-d", "%s=%s" % (n, g))]
        other = [x for n, g, o in allext for x in ("-d", "%s=%s" % (n, o))]
        yc_good, yc_other = os.path.join(tmp, "mod_%d_a.yarc" % vi), os.path.join(tmp, "mod_%d_b.yarc" % vi)
        c1 = sh([yarac] + good + [rules, yc_good], timeout=HANG_S)
        c2 = sh([yarac] + other + [rules, yc_other], timeout=HANG_S)
        if c1[0] != 0 or c2[0] != 0:
            chk.violation("module-state:yarac", "yarac fails on rules importing %s with externals %s: %r" % (imported, good, (c1[2] + c2[2])[:300]),
                          {"kind": "module-state", "variant": vname, "rules": text, "externals": good}, found_input=False)
            continue
        opts = ["-w", "-g", "-m"]
        with ThreadPoolExecutor(8) as ex:
            refs = list(ex.map(lambda q: sh([yara] + opts + good + [rules, q], timeout=HANG_S), order))
        ref = sorted(l for r in refs for l in r[1].split("\n") if l)
        referr = [(os.path.relpath(q, root), r[0], r[2][:100]) for q, r in zip(order, refs) if r[0] != 0 or r[2].strip()]
        if referr:
            chk.violation("module-state:reference", "single-file runs report errors (%s): %r" % (vname, referr[:3]),
                          {"kind": "module-state", "variant": vname, "rules": text}, found_input=False)
            continue
        forms = [("source rules", good + [rules]), ("yarac, externals at compile time", ["-C", yc_good]),
                 ("yarac with other values, externals given to yara -C", ["-C"] + good + [yc_other])]
        for n in tcs:
            for target, targs in (("directory -r", ["-r", root]), ("scan list", ["--scan-list", lst])):
                for fname, fargs in forms:
                    if quick and vi > 0 and fname.startswith("yarac, externals at compile") and n in (2, 8):
                        continue
                    cmd = [yara, "-p", str(n)] + opts + fargs + targs
                    # --scan-list takes the list as the target: rules first
                    rc, out, err = sh(cmd, timeout=HANG_S)
                    runs_done += 1
                    got = sorted(l for l in out.split("\n") if l)
                    lines_cmp += len(got)
                    if rc == "timeout" or rc != 0 or got != ref:
                        missing_l = [l for l in ref if l not in got]
                        extra_l = [l for l in got if l not in ref]
                        chk.violation("module-state:" + vname.split(" (")[0],
                                      "%s, %s, -p %d, %s: %s.  %d expected line(s) missing, %d unexpected, e.g. missing %s unexpected %s "
                                      "(reference = one yara process per file; in a directory / scan-list scan each thread reuses one "
                                      "scanner, so module state of an earlier file must not be visible)"
                                      % (vname, target, n, fname, "does not terminate" if rc == "timeout" else "exit status %r" % rc if rc != 0
                                         else "output differs from the per-file runs", len(missing_l), len(extra_l),
                                         [x.replace(tmp, "<tmp>") for x in missing_l[:2]], [x.replace(tmp, "<tmp>") for x in extra_l[:2]]),
                                      {"kind": "module-state", "variant": vname, "rules": text, "externals": good,
                                       "externals_at_yarac_for_last_form": other,
                                       "cmd": ["yara"] + [c.replace(tmp, "<tmp>") for c in cmd[1:]],
                                       "tree": "checks/c18.py module_tree(): 3 groups of 10 equal-size text files, 3 random files of the size of "
                                               "tests/data/elf_with_imports, copies of the ELF/PE/.NET/Mach-O samples of tests/data, empty "
                                               "files, notes; %d files; scan list interleaves the kinds" % len(order),
                                       "missing": [x.replace(tmp, "<tmp>") for x in missing_l[:12]],
                                       "unexpected": [x.replace(tmp, "<tmp>") for x in extra_l[:12]], "stderr": err[:300]})
    # an external named like a module that IS imported: refused by both compilers
    clash = os.path.join(tmp, "mod_clash.yar")
    open(clash, "w").write('import "time"\nrule t { condition: time.now() > 0 }\n')
    a = sh([yara, "-d", "time=1", clash, order[0]], timeout=HANG_S)
    b = sh([yarac, "-d", "time=1", clash, os.path.join(tmp, "mod_clash.yarc")], timeout=HANG_S)
    if (a[0] == 0) != (b[0] == 0) or (a[0] != 0) != ("error" in a[2]) or (b[0] != 0) != ("error" in b[2]):
        chk.violation("module-state:clash", "external variable named like an imported module: yara exit %r stderr %r, yarac exit %r stderr %r"
                      % (a[0], a[2][:120], b[0], b[2][:120]), {"kind": "module-state", "rules": open(clash).read()})
    chk.note(module_state=dict(modules=mods, variants=[v[0] for v in MOD_VARIANTS], files=len(order), thread_counts=list(tcs),
                               directory_and_scanlist_runs=runs_done, output_lines_compared=lines_cmp))
    return runs_done


# ------------------------------------------------------------------ the check
def run(chk, replay_spec=None):
    quick = chk.tier == "quick"
    t_start = time.time()
    ok, log, st = vlib.proof_obligations(chk, PROPS)
    gq = st.get("GenQueue.v", "missing")
    info = None
    try:
        info = genqueue.parse()
    except gen.GenError as e:
        gq = "error:" + str(e)
    broken = []
    if gq.startswith("error") or gq == "missing":
        broken.append("the translator of the queue functions failed: " + gq)
    go = st.get("GenOutput.v", "missing")
    outinfo = None
    try:
        outinfo = genoutput.parse()
    except gen.GenError as e:
        go = "error:" + str(e)
    if go.startswith("error") or go == "missing":
        broken.append("the translator of the output path (lock discipline of the scanner callback) failed: " + go)
    if not ok:
        broken.append("obligations over the regenerated queue / output models no longer check: " + log[-1500:])
    else:
        pf = private_obligations()
        if pf:
            broken += pf
            try:
                same = open(os.path.join(gen.GEN_DIR, "GenOutput.v")).read() == genoutput.gen_output()
            except (OSError, gen.GenError):
                same = None
            chk.note(discharged=0, private_obligations=pf, shared_gen_output_is_this_runs_translation=same,
                     shared_build_log_tail=log[-600:])
        else:
            chk.note(private_obligations="cfg_shape, Mq_pos, threads_covered, worker_checked re-checked against this run's translation")
    if outinfo:
        chk.note(output_model=dict(worker=outinfo["worker"], callback=outinfo["callback"], mutex=outinfo["outmutex"],
                                   inlined=outinfo["inlined"], nodes=genoutput.count_nodes(outinfo["ast"]),
                                   stdout_sites=sorted(k for k, v in outinfo["sites"].items() if "Stdout" in v),
                                   stderr_sites=sorted(k for k, v in outinfo["sites"].items() if "Stderr" in v),
                                   main_thread_stderr_while_workers_run=outinfo["main_stderr"]))
    chk.note(queue_model=dict(put=info["put"], get=info["get"], slots=info["slots"][0], unused0=info["unused0"][0],
                              finish_releases=info["fin_n"][0], max_threads=info["max_threads"][0]) if info else gq)
    names = dict(info or DEFAULT_NAMES)
    names["outmutex"] = outinfo["outmutex"] if outinfo else "output_mutex"
    slots = names["slots"][0]

    yara = build.harness("h_c18_yara", link_cli=["yara", "args", "common", "threading"])
    yarac = build.harness("h_c18_yarac", link_cli=["yarac", "args", "common"])
    try:
        shim = shim_binary(names)
    except build.BuildError as e:
        shim = None
        chk.violation("shim-build", "the scheduler shim no longer links against cli/yara.c (shared objects renamed and not "
                      "followed by the translator?): " + str(e)[-600:], {"error": str(e)[-3000:]}, found_input=False)
    model = None
    if not gq.startswith("error"):
        try:
            model = qmodel()
        except vlib.CoqError as e:
            chk.violation("model-build", "the queue model cannot be extracted: " + str(e)[-600:], {"error": str(e)[-3000:]},
                          found_input=False)

    if broken:
        diff = ""
        try:
            a = open(os.path.join(gen.REF_DIR, "GenQueue.v")).read().split("\n")
            b = open(os.path.join(gen.GEN_DIR, "GenQueue.v")).read().split("\n")
            diff = "\n".join(difflib.unified_diff(a, b, "Gen.ref/GenQueue.v", "gen/GenQueue.v", lineterm=""))
            a = open(os.path.join(gen.REF_DIR, "GenOutput.v")).read().split("\n")
            b = open(os.path.join(gen.GEN_DIR, "GenOutput.v")).read().split("\n")
            diff += "\n" + "\n".join(difflib.unified_diff(a, b, "Gen.ref/GenOutput.v", "gen/GenOutput.v", lineterm="", n=1))
        except OSError:
            pass
        # what does the model of the changed code do?  random walks looking for a deadlock or a lost/duplicated file
        cex = []
        if model and info:
            for n in (1, 2, 3, info["max_threads"][0]):
                lines, _ = vlib.run_lines(model, ["qexplore %d %d %d %d" % (slots + 5, n, chk.rng.below(1 << 30), 30)], timeout=120)
                if lines and lines[0].startswith("found"):
                    cex.append("%d files, %d threads: %s" % (slots + 5, n, lines[0][:4000]))
        chk.violation("proof", "C18 " + " ; ".join(broken)[:1200] + ("\nmodel diff:\n" + diff[:1500] if diff else "")
                      + ("\nthe model of the changed code has a bad run: " + cex[0][:300] if cex else ""),
                      {"theorems": PROPS, "log": log[-4000:], "generated": st, "model_diff": diff[:6000],
                       "model_counterexamples": cex}, found_input=False)
    tmp = tempfile.mkdtemp(prefix="verif-c18.", dir=build.scratch_root())
    try:
        # private copies: the build cache is pruned by concurrent checks of other trees
        def private(b, name):
            if b is None:
                return None
            shutil.copy2(b, os.path.join(tmp, name))
            return os.path.join(tmp, name)
        yara, yarac, shim, model = private(yara, "yara"), private(yarac, "yarac"), private(shim, "yara_shim"), private(model, "qmodel")
        _run_all(chk, quick, tmp, yara, yarac, shim, model, slots, info, replay_spec, outinfo)
    finally:
        shutil.rmtree(tmp, ignore_errors=True)
    chk.note(check_wall_s=round(time.time() - t_start, 1))
    chk.assumptions += [
        "deadlines (--timeout) are not reached: cli_semaphore_wait is modelled as a plain wait",
        "one step of the model = one C statement of file_queue_put/get/finish; justified by theorem accesses_under_mutex "
        "(all accesses to queue_head/queue_tail/file_queue[] happen under queue_mutex) plus pthread mutex semantics",
        "the structure 'main: init; create `threads` scanning threads; put per file; finish; join' and 'scanning_thread: get-loop "
        "until NULL' is pattern-checked by lib/genqueue.py, not translated",
        "proved: queue protocol for all schedules; explored only: directory walking, scanning, printing under output_mutex, "
        "yarac/-C equivalence, exit status, OS scheduling",
    ]


def write_rules(tmp):
    ra, rb = os.path.join(tmp, "rules_a.yar"), os.path.join(tmp, "rules_b.yar")
    open(ra, "w").write(RULES_A)
    open(rb, "w").write(RULES_B)
    return ra, rb


def _run_all(chk, quick, tmp, yara, yarac, shim, model, slots, info, replay_spec, outinfo):
    rng = chk.rng
    ra, rb = write_rules(tmp)
    rules_src = EXT_GOOD + ["nsa:" + ra, "nsb:" + rb]
    tree_seed = rng.next()
    nfiles = slots + 5 + vlib.Rng(tree_seed).below(60)
    root = os.path.join(tmp, "tree")
    files, kinds = make_tree(vlib.Rng(tree_seed), root, nfiles)
    paths = [os.path.join(root, f) for f in files]
    base = Baseline(yara, root, files, rules_src)
    evals = 0
    distinct = set()
    validated = 0

    def tree_replay(extra):
        d = {"tree_seed": tree_seed, "nfiles": nfiles, "rules": "RULES_A as nsa, RULES_B as nsb (checks/c18.py)",
             "externals": EXT_GOOD}
        d.update(extra)
        return d

    # sanity of the baseline itself: the single-file runs must be clean
    b0, errs0 = base.get(["-w"])
    if errs0:
        chk.violation("baseline", "single-file runs of yara report errors on generated files: %r" % errs0[:3],
                      tree_replay({"errors": errs0[:5]}), found_input=False)

    # ---------------------------------------------------------------- tie A: scheduler shim + model replay
    if shim:
        nruns = 28 if quick else 220
        tcs = [1, 2, 3, 4, 8, 32, 2, 5, 16, 31, 3, 32]
        optsets = [["-w"], ["-w", "-s"], ["-w", "-c"], ["-w", "-e", "-g", "-m"]]
        shim_steps = 0
        nfa = genoutput.NFA(outinfo["ast"]) if outinfo else None
        octr = {"runs": 0, "events": 0, "stdout_locked": 0, "stderr_locked": 0, "stderr_unlocked_warnings": 0}
        for k in range(nruns):
            n = tcs[k % len(tcs)] if k < 2 * len(tcs) else rng.range(1, 32)
            mode = k % 7
            opts = optsets[(k // 7) % len(optsets)]
            seed = rng.next() % (1 << 62)
            args = ["-p", str(n), "-r"] + opts + rules_src + [root]
            rc, out, err, text = run_shim(shim, args, seed, mode, tmp)
            evals += 1
            od = {}
            order, evs, fin, sched, seminit = parse_trace(text, od)
            out_discipline(chk, od, nfa, "-p %d %s" % (n, " ".join(opts)), n, seed, mode, tree_replay, args, sched, octr)
            pends = [e.split(",")[3] for e in evs]
            if any(p[0] == "v" for p in pends):
                chk.add("shim_runs_with_producer_blocked_on_full_queue")
            if any("w" in p[1:] for p in pends):
                chk.add("shim_runs_with_consumer_blocked_on_empty_queue")
            if any("l" in p for p in pends):
                chk.add("shim_runs_with_thread_blocked_on_queue_mutex")
            rep = tree_replay({"kind": "shim", "args": args[:-1] + ["<tree>"], "threads": n, "seed": seed, "mode": mode,
                               "end": fin, "schedule": " ".join(sched) if len(sched) < 60000 else "(too long; rerun with seed/mode)"})
            distinct.add(("shim", n, mode, tuple(opts)))
            if rc == "timeout" or not fin.startswith("END"):
                what = "hangs" if rc == "timeout" else ("crashes (exit status %r, stderr %r)" % (rc, err[-160:]) if not fin.startswith("DEADLOCK")
                                                        else "DEADLOCK, no thread can take a step")
                chk.violation("shim-deadlock" if fin.startswith("DEADLOCK") else "shim-abnormal",
                              "real cli/yara.c under the scheduler shim, %d threads, %d files, schedule seed %d mode %d: %s "
                              "(last trace line: %s)" % (n, nfiles, seed, mode, what, fin[:120]), rep)
            else:
                # the run itself: each file handed over exactly once, output = per-file runs
                put, got = taken_items(evs)
                if model and (sorted(got, key=str) != sorted(put, key=str) or len(put) != nfiles or "?" in got):
                    # the items are inferred from where queue_head/queue_tail change inside the critical section; the
                    # property itself is judged on the output below
                    lost = [x for x in put if x not in got]
                    dup = sorted(set(x for x in got if got.count(x) > 1))
                    chk.violation("shim-items", "real cli/yara.c under the scheduler shim (%d threads, seed %d mode %d): "
                                  "%d files stored in the ring, %d taken out of it inside critical sections; not taken %s, taken twice %s"
                                  % (n, seed, mode, len(put), len(got), [order[int(i)] for i in lost[:3]],
                                     [order[int(i)] for i in dup[:3] if i != "?"]), rep, found_input=False)
                cm = "-c" in opts
                want, _ = base.get(opts, cm)
                probs = compare_dir_run(out, want, root, files, cm)
                if probs:
                    chk.violation("shim-output:" + probs[0][0], "real cli/yara.c under the scheduler shim (%d threads, seed %d "
                                  "mode %d, options %s): %s" % (n, seed, mode, " ".join(opts), probs[0][1][:400]),
                                  dict(rep, problems=probs[:5]))
                if rc != 0:
                    chk.violation("shim-exit", "directory scan without errors exits with status %r" % rc, rep)
            # the trace against the model
            if model and evs:
                endtok = "END" if fin.startswith("END") else ("DEADLOCK" if fin.startswith("DEADLOCK") else "")
                lines, merr = vlib.run_lines(model, ["qreplay %d %d %s %s" % (max(nfiles, len(order)), n, " ".join(evs), endtok)], timeout=300)
                res = lines[0] if lines else "no answer " + merr[:200]
                shim_steps += len(evs)
                if res.startswith("ok "):
                    validated += 1
                else:
                    chk.violation("correspondence", "op trace of the real cli/yara.c (%d threads, %d files, seed %d mode %d) "
                                  "diverges from the model regenerated from it: %s" % (n, nfiles, seed, mode, res[:300]),
                                  dict(rep, model_answer=res[:600]), found_input=False)
                if k == 0:
                    chk.sample({"shim_run": {"threads": n, "mode": mode, "events": len(evs), "first_events": evs[8:14],
                                             "model": res[:160]}})
            if seminit and info and (seminit.get("used") != info["used0"][0] or seminit.get("unused") != info["unused0"][0]):
                chk.violation("correspondence-init", "semaphores initialised to %r, model says used=%d unused=%d"
                              % (seminit, info["used0"][0], info["unused0"][0]), rep, found_input=False)
        # the other branches of the callback: console.log, module data (-D), too-many-matches warnings, scan errors
        extra_runs(chk, shim, tmp, root, paths, rules_src, nfa, tree_replay, octr, quick)
        chk.note(shim_runs=nruns, shim_steps_replayed=shim_steps, output_discipline=octr)

    # ---------------------------------------------------------------- tie B: black box, thread counts and options
    optsets = [([], "plain"), (["-s"], "-s"), (["-L"], "-L"), (["-X"], "-X"), (["-m"], "-m"), (["-g"], "-g"), (["-e"], "-e"),
               (["-c"], "-c"), (["-n"], "-n"), (["-t", "tagA"], "-t"), (["-i", "has_hello"], "-i"),
               (["-s", "-L", "-X", "-m", "-g", "-e"], "all-print"), (["-e", "-n", "-t", "tagB"], "mix"),
               (["-f"], "-f")]
    tcounts = list(range(1, 33))
    if quick:
        plan = []
        for i, (o, name) in enumerate(optsets):
            ns = [1, 32] + [tcounts[(3 * i + j * 7) % 32] for j in range(3)]
            plan += [(n, o, name) for n in sorted(set(ns))]
        covered = set(n for n, _, _ in plan)
        plan += [(n, [], "plain") for n in tcounts if n not in covered]
        reps = 1
    else:
        plan = [(n, o, name) for (o, name) in optsets for n in tcounts]
        reps = 3
    bb = 0
    hung = set()
    HANG_S = 25 if quick else 120
    for n, o, name in plan:
        cm = "-c" in o
        want, errs = base.get(["-w"] + o, cm)
        for r in range(reps):
            if n in hung or len(hung) >= 3:
                continue
            args = ["-p", str(n), "-r", "-w"] + o + rules_src + [root]
            rc, out, err = sh([yara] + args, timeout=HANG_S)
            evals += 1
            bb += 1
            distinct.add(("bb", n, name))
            rep = tree_replay({"kind": "blackbox", "args": args[:-1] + ["<tree>"], "threads": n, "repeat": 5})
            if rc == "timeout":
                hung.add(n)
                chk.violation("hang", "yara -p %d %s over a tree of %d files does not terminate (%d s; a clean run takes < 1 s)"
                              % (n, " ".join(o), nfiles, HANG_S), rep)
                continue
            probs = compare_dir_run(out, want, root, files, cm)
            if probs:
                chk.violation("output:" + probs[0][0], "yara -p %d %s over %d files differs from the union of single-file runs: %s"
                              % (n, " ".join(o), nfiles, probs[0][1][:400]), dict(rep, problems=probs[:5]))
            if rc != 0 or err.strip():
                chk.violation("exit-clean", "yara -p %d %s: exit status %r, stderr %r on a run without errors" % (n, " ".join(o), rc, err[:200]), rep)
    chk.note(blackbox_dir_runs=bb, baseline_single_file_runs=base.runs)
    chk.sample({"tree": {"files": nfiles, "kinds": kinds, "queue_slots": slots}, "options": [n for _, n in optsets]})

    # console.log lines are printed outside output_mutex: criterion = multiset of lines
    rc_path = os.path.join(tmp, "rules_c.yar")
    open(rc_path, "w").write('import "console"\nrule logs { strings: $a = "hello" condition: console.log("n=", #a) and $a }\n')
    wantl = []
    for p in paths:
        rc, out, err = sh([yara, "-s", rc_path, p], timeout=60)
        wantl += out.split("\n")[:-1]
    for n in (4, 32):
        if n in hung:
            continue
        rc, out, err = sh([yara, "-p", str(n), "-r", "-s", rc_path, root], timeout=HANG_S)
        evals += 1
        gotl = out.split("\n")[:-1]
        if sorted(gotl) != sorted(wantl):
            ws = set(wantl)
            torn = [l for l in gotl if l not in ws][:4]
            chk.violation("output:console", "yara -p %d -s with a rule calling console.log: lines are torn, e.g. %r (never printed by the "
                          "single-file runs).  CALLBACK_MSG_CONSOLE_LOG prints without taking output_mutex, so the log line lands "
                          "inside a match line that another thread is printing piecewise" % (n, torn),
                          tree_replay({"kind": "blackbox", "args": ["-p", str(n), "-r", "-s", "<console rules>", "<tree>"],
                                       "rules": 'import "console" rule logs { strings: $a = "hello" condition: console.log("n=", #a) and $a }',
                                       "torn_lines": torn}))

    # ---------------------------------------------------------------- -l: limit and the unsynchronised counter
    for lim in (1, 3):
        want, _ = base.get(["-w", "-l", str(lim)])
        nwant = sum(len(v) for v in want.values())
        counts, first = [], None
        for n in (1, 4, 32):
            for r in range(2 if quick else 6):
                if n in hung:
                    continue
                rc, out, err = sh([yara, "-p", str(n), "-r", "-w", "-l", str(lim)] + rules_src + [root], timeout=HANG_S)
                evals += 1
                counts.append((n, len(out.split("\n")) - 1))
                probs = compare_dir_run(out, want, root, files, False)
                if probs and first is None:
                    first = (n, probs)
        distinct.add(("limit", lim))
        if first:
            chk.violation("limit-global", "yara -l %d over a directory of %d files: the per-file runs print %d line(s) in total, the "
                          "directory runs print (threads, lines): %s.  total_count (cli/yara.c) counts matches of ALL files and is "
                          "incremented by every scanning thread without synchronisation, so after the first %d matching rule(s) "
                          "every other file is aborted at its first rule, and the number of lines depends on the schedule"
                          % (lim, nfiles, nwant, sorted(set(counts)), lim),
                          tree_replay({"kind": "blackbox", "args": ["-p", str(first[0]), "-r", "-w", "-l", str(lim), "<rules>", "<tree>"],
                                       "expected_lines": nwant, "observed": sorted(set(counts)), "problems": first[1][:3]}))

    # ---------------------------------------------------------------- data races (thorough tier: ThreadSanitizer build of the CLI)
    if not quick:
        try:
            ytsan = build.harness("h_c18_yara", "tsan", link_cli=["yara", "args", "common", "threading"])
            yt = os.path.join(tmp, "yara_tsan")
            shutil.copy2(ytsan, yt)
            races = {}
            for n, o in ((8, []), (32, ["-s"]), (4, ["-l", "1000"]), (16, ["-c"])):
                rc, out, err = sh([yt, "-p", str(n), "-r", "-w"] + o + rules_src + [root], timeout=600,
                                  env=dict(os.environ, TSAN_OPTIONS="halt_on_error=0 report_signal_unsafe=0 exitcode=0"))
                evals += 1
                for rep_txt in err.split("WARNING: ThreadSanitizer: ")[1:]:
                    g = re.search(r"Location is global '([^']+)'", rep_txt)
                    sm = re.search(r"SUMMARY: ThreadSanitizer: data race (\S+?):(\d+) in (\S+)", rep_txt)
                    where = g.group(1) if g else (os.path.basename(sm.group(1)) + ":" + sm.group(3) if sm else "unknown")
                    races.setdefault(where, (n, o, rep_txt[:1500]))
            chk.note(tsan_runs=4, tsan_races=sorted(races))
            for where, (n, o, txt) in races.items():
                chk.violation("race:" + where, "ThreadSanitizer: data race on %s in yara -p %d %s (scanning threads of the CLI): %s"
                              % (where, n, " ".join(o), " ".join(txt.split())[:500]),
                              tree_replay({"kind": "tsan", "args": ["-p", str(n), "-r", "-w"] + o + ["<rules>", "<tree>"], "report": txt}))
        except build.BuildError as e:
            chk.note(tsan="not built: " + str(e)[-300:])

    # ---------------------------------------------------------------- source vs compiled rules, externals at either stage
    yc1, yc2 = os.path.join(tmp, "r1.yarc"), os.path.join(tmp, "r2.yarc")
    rcs = []
    rcs.append(sh([yarac] + EXT_GOOD + ["nsa:" + ra, "nsb:" + rb, yc1], timeout=60))
    rcs.append(sh([yarac] + EXT_OTHER + ["nsa:" + ra, "nsb:" + rb, yc2], timeout=60))
    if any(r[0] != 0 for r in rcs):
        chk.violation("yarac", "yarac fails on the generated rules: %r" % [(r[0], r[2][:200]) for r in rcs], tree_replay({}), found_input=False)
    else:
        forms = [("source", rules_src), ("compiled, externals at compile time", ["-C", yc1]),
                 ("compiled with other values, externals redefined at scan time", ["-C"] + EXT_GOOD + [yc2])]
        for o, name in ([([], "plain"), (["-s", "-e", "-m", "-g"], "print"), (["-c"], "-c"), (["-n", "-e"], "-n")]
                        if quick else [(o, n) for o, n in optsets]):
            cm = "-c" in o
            want, _ = base.get(["-w"] + o, cm)
            for n in ((1, 7) if quick else (1, 4, 32)):
                for fname, fargs in forms[1:]:
                    if n in hung or len(hung) >= 3:
                        continue
                    rc, out, err = sh([yara, "-p", str(n), "-r", "-w"] + o + fargs + [root], timeout=HANG_S)
                    evals += 1
                    distinct.add(("form", fname, name, n))
                    if rc == "timeout":
                        hung.add(n)
                    probs = compare_dir_run(out, want, root, files, cm) if rc != "timeout" else [("hang", "does not terminate")]
                    if probs or rc != 0:
                        chk.violation("compiled:" + (probs[0][0] if probs else "exit"), "scanning with rules pre-compiled by yarac (%s) "
                                      "-p %d %s differs from scanning with the source rules: %s" % (fname, n, " ".join(o),
                                                                                                   probs[0][1][:400] if probs else "exit status %r" % rc),
                                      tree_replay({"kind": "compiled", "form": fname, "args": ["-p", str(n), "-r", "-w"] + o, "problems": probs[:3]}))
        # single files as well
        for p in paths[:12]:
            a = sh([yara, "-w", "-s", "-e"] + rules_src + [p], timeout=60)
            b = sh([yara, "-w", "-s", "-e", "-C", yc1, p], timeout=60)
            c = sh([yara, "-w", "-s", "-e", "-C"] + EXT_GOOD + [yc2, p], timeout=60)
            evals += 3
            if not (a[:2] == b[:2] == c[:2]):
                chk.violation("compiled:single", "single file %s: source rules vs yarac output differ" % os.path.relpath(p, root),
                              tree_replay({"kind": "compiled-single", "file": os.path.relpath(p, root), "outs": [a[1][:300], b[1][:300], c[1][:300]]}))

    # ---------------------------------------------------------------- externals: values at the conversion boundaries, three forms
    evals += external_value_runs(chk, yara, yarac, tmp, HANG_S)
    distinct.update(("external-value", k, v) for k, vs in EXT_VALUES.items() for v in vs)

    # ---------------------------------------------------------------- a limit hit in one file must not change later files
    # In directory / scan-list mode every thread keeps ONE scanner for all the files it dequeues.  A string that hits
    # YR_MAX_STRING_MATCHES in one file is disabled for the rest of THAT scan only; if any of it survives in the scanner,
    # which later files lose matches depends on which thread scanned what, i.e. on the thread count and the schedule.
    # Rule set with many more strings than rules (the per-string and per-rule scanner state differ in size), the capped
    # string beyond index 64; reference = one yara process per file.
    lim_dir = os.path.join(tmp, "limtree")
    os.makedirs(os.path.join(lim_dir, "sub"), exist_ok=True)
    nmark = 70
    lim_rules = os.path.join(tmp, "lim.yar")
    open(lim_rules, "w").write("rule known_markers { strings: %s condition: any of them }\n"
                               "rule nop_sled { strings: $nop = { 90 90 90 90 90 90 90 90 } condition: $nop }\n"
                               % " ".join('$m%d = "mark%03d_"' % (i, i) for i in range(nmark)))
    lim_files = []
    for i in range(2):
        q = os.path.join(lim_dir, "a_big%d.bin" % i)
        open(q, "wb").write(b"\x90" * (1200000 + i))
        lim_files.append(q)
    for i in range(14 if quick else 80):
        q = os.path.join(lim_dir, "sub" if i % 2 else "", "small_%02d.bin" % i)
        open(q, "wb").write(b"hdr " + b"\x90" * 24 + (" mark%03d_ " % rng.below(nmark)).encode() + b"tail")
        lim_files.append(q)
    q = os.path.join(lim_dir, "text.txt")
    open(q, "wb").write(b"no sled here, mark005_ only\n")
    lim_files.append(q)
    lim_yc = os.path.join(tmp, "lim.yarc")
    sh([yarac, lim_rules, lim_yc], timeout=HANG_S)
    ref = []
    for q in lim_files:
        rc, out, err = sh([yara, "-w", lim_rules, q], timeout=HANG_S)
        ref += [l for l in out.split("\n") if l]
        evals += 1
    ref.sort()
    lim_list = os.path.join(tmp, "lim_list.txt")
    open(lim_list, "w").write("\n".join(lim_files) + "\n")        # the big files first
    lim_runs = [("scan list, %d thread(s), %s rules" % (n, form), [yara, "-w", "-p", str(n)] + rargs + ["--scan-list", lim_list])
                for n in ([1, 2, 4] if quick else [1, 2, 3, 4, 8]) for form, rargs in (("source", [lim_rules]), ("compiled", ["-C", lim_yc]))]
    lim_runs += [("directory -r, %d thread(s)" % n, [yara, "-w", "-p", str(n), "-r", lim_rules, lim_dir]) for n in ([1, 2, 8] if quick else [1, 2, 3, 4, 8, 32])]
    for name, cmd in lim_runs:
        rc, out, err = sh(cmd, timeout=HANG_S)
        evals += 1
        distinct.add(("limit-history", name))
        got = sorted(l for l in out.split("\n") if l)
        if rc == "timeout":
            chk.violation("hang", "limit scenario, %s: does not terminate" % name, {"kind": "limit-history", "cmd": cmd[1:]})
        elif got != ref:
            missing_l = [l for l in ref if l not in got]
            extra_l = [l for l in got if l not in ref]
            chk.violation("limit-history", "%s: a string that hit the matches-per-string limit in one file changes the results of files scanned later by "
                          "the same thread: %d expected line(s) missing, %d unexpected (first: %s); reference = one yara process per file"
                          % (name, len(missing_l), len(extra_l), [x.replace(tmp, "<tmp>") for x in (missing_l + extra_l)[:3]]),
                          {"kind": "limit-history", "rules": open(lim_rules).read()[:3000], "cmd": [os.path.basename(cmd[0])] + [c.replace(tmp, "<tmp>") for c in cmd[1:]],
                           "files": "2 files of 1.2 MB 0x90 (more than YR_MAX_STRING_MATCHES matches of $nop), then small files with a 24-byte sled "
                                    "and one marker each, listed/named after the big ones",
                           "missing": [x.replace(tmp, "<tmp>") for x in missing_l[:10]], "unexpected": [x.replace(tmp, "<tmp>") for x in extra_l[:10]]})
        else:
            chk.add("limit_history_runs_equal_to_per_file_reference")

    # ---------------------------------------------------------------- module state must not outlive the scan of its file
    evals += module_state_runs(chk, yara, yarac, tmp, quick, HANG_S)
    distinct.update(("module-state", v[0], n) for v in MOD_VARIANTS for n in (1, 2, 4, 8, 32))

    # ---------------------------------------------------------------- exit status <-> errors reported
    missing = os.path.join(tmp, "does_not_exist")
    badrule = os.path.join(tmp, "bad.yar")
    open(badrule, "w").write("rule broken { condition: undefined_identifier }\n")
    lst = os.path.join(tmp, "list.txt")
    open(lst, "w").write("\n".join(paths[:5] + [missing] + paths[5:8]) + "\n")
    lst_ok = os.path.join(tmp, "list_ok.txt")
    open(lst_ok, "w").write("\n".join(paths[:8]) + "\n")
    cases = [
        ("single file, no error", [yara, "-w"] + rules_src + [paths[0]], False),
        ("directory, no error", [yara, "-w", "-r"] + rules_src + [root], False),
        ("scan list, no error", [yara, "-w", "--scan-list"] + rules_src + [lst_ok], False),
        ("missing target", [yara, "-w"] + rules_src + [missing], True),
        ("missing rules file", [yara, "-w", missing, paths[0]], True),
        ("rules with a compile error", [yara, "-w", badrule, paths[0]], True),
        ("undefined external", [yara, "-w", rb, paths[0]], True),
        ("too many threads", [yara, "-w", "-p", "33"] + rules_src + [root], True),
        ("compiled rules given as source", [yara, "-w", yc1, paths[0]], True),
        ("source rules given as compiled", [yara, "-w", "-C", ra, paths[0]], True),
        ("yarac, compile error", [yarac, badrule, os.path.join(tmp, "o.yarc")], True),
        ("yarac, fine", [yarac] + EXT_GOOD + [rb, os.path.join(tmp, "o2.yarc")], False),
        ("scan list naming a missing file", [yara, "-w", "--scan-list"] + rules_src + [lst], True),
        ("scan list naming a missing file, 1 thread", [yara, "-w", "-p", "1", "--scan-list"] + rules_src + [lst], True),
    ]
    for name, cmd, want_err in cases:
        rc, out, err = sh(cmd, timeout=HANG_S)
        evals += 1
        distinct.add(("exit", name))
        reported = bool(re.search(r"error|maximum number of threads|wrong number|could not|invalid", err))
        rep = {"kind": "exit", "case": name, "cmd": [os.path.basename(cmd[0])] + [c.replace(tmp, "<tmp>") for c in cmd[1:]],
               "rc": rc, "stderr": err[:300], "tree_seed": tree_seed, "nfiles": nfiles}
        if reported != want_err:
            chk.violation("exit-expect:" + name, "%s: expected %s, stderr is %r" % (name, "an error message" if want_err else "no error", err[:200]), rep, found_input=False)
        if rc == "timeout":
            chk.violation("hang", "%s: does not terminate" % name, rep)
        elif (rc != 0) != reported:
            key = "exit-status-queue-error" if "scan list naming" in name else "exit-status:" + name
            chk.violation(key, "%s: exit status %d although %s (stderr: %r). In directory / scan-list mode errors of the scanning "
                          "threads ('error scanning <file>: ...') never reach main()'s result"
                          % (name, rc, "an error was reported" if reported else "no error was reported", err[:160]), rep)

    chk.note(evaluations=evals, distinct_nontrivial=len(distinct), traces_validated_against_impl=validated,
             rule="distinct = (shim: thread count, schedule policy, option set) + (black box: thread count, option set) + "
                  "(rule form, option set, thread count) + exit-status cases + -l limits; every tree has more files than "
                  "queue slots (%d) and mixes text/ELF/PE/empty/xor/hex/large files in nested directories; a shim trace counts "
                  "as validated when every scheduling decision agreed with the model (head, tail, next op and enabledness "
                  "of every thread, item handed over) and the model ended in a terminal state" % slots)


def replay(chk, path):
    """bin/check C18 --replay file: regenerate the tree from its seed and rerun the recorded command (shim runs with the
    recorded schedule)."""
    spec = json.load(open(path))
    r = spec.get("replay", {})
    info = None
    try:
        info = genqueue.parse()
    except gen.GenError:
        pass
    names = info or DEFAULT_NAMES
    tmp = tempfile.mkdtemp(prefix="verif-c18r.", dir=build.scratch_root())
    try:
        yara = build.harness("h_c18_yara", link_cli=["yara", "args", "common", "threading"])
        ra, rb = write_rules(tmp)
        rules_src = EXT_GOOD + ["nsa:" + ra, "nsb:" + rb]
        root = os.path.join(tmp, "tree")
        if "tree_seed" not in r:
            print("replay file has no concrete input (kind=%s): %s" % (r.get("kind"), spec.get("what", "")[:300]))
            return 1
        files, _ = make_tree(vlib.Rng(r["tree_seed"]), root, r["nfiles"])
        base = Baseline(yara, root, files, rules_src)
        kind = r.get("kind")
        if kind == "exit":
            print("exit-status case: rerun by hand: %s" % " ".join(r["cmd"]))
            return 1
        args = [a for a in r.get("args", []) if a not in ("<tree>", "<rules>")]
        args = [a.replace("nsa:", "nsa:").replace("nsb:", "nsb:") for a in args]
        # rule files were written to another scratch dir when the replay was recorded
        args = [("nsa:" + ra) if a.startswith("nsa:") else ("nsb:" + rb) if a.startswith("nsb:") else a for a in args]
        if not any(a.startswith("nsa:") for a in args):
            args += ([] if "-d" in args else EXT_GOOD) + ["nsa:" + ra, "nsb:" + rb]
        opts = [a for a in args if a in ("-s", "-L", "-X", "-m", "-g", "-e", "-c", "-n", "-f")]
        for i, a in enumerate(args):
            if a in ("-t", "-i", "-l"):
                opts += [a, args[i + 1]]
        cm = "-c" in opts
        want, _ = base.get(["-w"] + opts, cm)
        bad = 0
        if kind == "shim":
            shim = shim_binary(names)
            sched = r.get("schedule", "").split()
            rc, out, err, text = run_shim(shim, args + [root], r["seed"], r["mode"], tmp,
                                          replay=sched if sched and not sched[0].startswith("(") else None)
            order, evs, fin, _, _ = parse_trace(text)
            put, got = taken_items(evs)
            probs = compare_dir_run(out, want, root, files, cm) if fin.startswith("END") else [("end", fin)]
            print("shim replay: end=%s put=%d got=%d problems=%r" % (fin[:60], len(put), len(got), probs[:2]))
            bad = 1 if probs or sorted(put) != sorted(got) else 0
        else:
            for i in range(int(r.get("repeat", 5))):
                rc, out, err = sh([yara] + args + [root], timeout=120)
                probs = compare_dir_run(out, want, root, files, cm) if rc != "timeout" else [("hang", "timeout")]
                print("run %d: rc=%r problems=%r" % (i, rc, probs[:2]))
                bad |= 1 if probs else 0
        print("REPRODUCED" if bad else "not reproduced")
        return 1 if bad else 0
    finally:
        shutil.rmtree(tmp, ignore_errors=True)
