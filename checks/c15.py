"""C15: exceeding engine limits yields the documented error, not a crash or hang.

Proof side: Props/Properties_C15.v over gen/GenLimits.v (lib/genlimits.py: operator/operand of every limit test,
cut out of the source on every run) and gen/GenConsts.v.  Correspondence side: harness/h_limits.c at L-1, L, L+1,
10L for every limit, all settings of the configurable limits, A (limit hit) + B (unrelated), library still usable
after each hit, timeouts under a wall-clock bound derived from the proved spacing of the clock reads.
"""
import os, re, shutil, threading, time
import vlib, build
import genlimits  # noqa  (registers the GenLimits.v generator; lib/vlib.py does not import it)
from vlib import hx

PROPS = "Props/Properties_C15.v"
SMOKE_OK = "smoke create=0 errors=0 getrules=0 scan=0 match=1"
U32 = 2 ** 32


def R(s):
    return hx(s.encode() if isinstance(s, str) else s)


def private_model():
    """The model runner is a shared artefact that other checks rebuild; take a private copy under the coq lock.
    If a work-in-progress part of another property breaks the full build: the stable parts plus this one, then this one alone."""
    dst = os.path.join(build.scratch_root(), "verif-model-c15-%d" % os.getpid())
    last = "?"
    for attempt in range(3):
        only = None if attempt == 0 else (set(vlib._stable() or ()) if attempt == 1 else set()) | {"30_limits"}
        lock = vlib.coq_lock()
        try:
            out = vlib._build_model_once(only)
            shutil.copy2(out, dst)
        except (vlib.CoqError, OSError) as e:
            last = str(e)[-1500:]
            continue
        finally:
            lock.close()
        lines, _ = vlib.run_lines(dst, ["lim consts"])
        last = lines[0] if lines else "?"
        if last.startswith("vm_check_cycles="):
            return dst
    raise vlib.CoqError("model runner with the C15 commands cannot be built: " + last)


def parse_scan(line):
    """'scan M:a[$a=cnt/first/last/sum/sorted/dmin/dmax|] ... fibers=N | scan rc=0 ms=5 many=1:$a, slow=0:-'"""
    d = {"rules": {}, "raw": line[:300]}
    head, _, tail = line.rpartition(" | ")
    for m in re.finditer(r" ([MN]):(\w+)\[([^\]]*)\]", head):
        strs = {}
        for part in m.group(3).split("|"):
            if "=" in part:
                k, v = part.split("=")
                f = v.split("/")
                strs[k] = {"cnt": int(f[0]), "first": int(f[1]), "last": int(f[2]), "sum": f[3], "sorted": int(f[4]),
                           "dmin": int(f[5]), "dmax": int(f[6])}
        d["rules"][m.group(2)] = (m.group(1), strs)
    m = re.search(r"fibers=(\d+)", head)
    if m:
        d["fibers"] = int(m.group(1))
    m = re.search(r"rc=(-?\d+) ms=(\d+) many=(\d+):(\S+) slow=(\d+):(\S+)", tail)
    if m:
        d.update(rc=int(m.group(1)), ms=int(m.group(2)), many=int(m.group(3)), many_ids=m.group(4), slow=int(m.group(5)),
                 slow_ids=m.group(6))
    return d


def scans(lines):
    return [parse_scan(l) for l in lines if l.startswith("scan ")]


def crashed(lines):
    c = [l for l in lines if l.startswith("crash")]
    return c[0] if c else None


def compile_result(lines):
    """(errors, last_error, [messages])"""
    add = [l for l in lines if l.startswith("add errors=")]
    msgs = [bytes.fromhex(l.split("msg=")[1]).decode("latin-1") if not l.endswith("msg=-") else ""
            for l in lines if l.startswith("cb level=e")]
    codes = [int(re.search(r"code=(\d+)", l).group(1)) for l in lines if l.startswith("cb level=e")]
    if not add:
        return None, None, msgs, codes
    m = re.match(r"add errors=(\d+) last_error=(\d+)", add[-1])
    return int(m.group(1)), int(m.group(2)), msgs, codes


class Runner:
    """collects cases with their expectation callback, runs them in one harness process"""

    def __init__(self, h, alarm=60):
        self.h = h
        self.cases = []
        self.post = {}
        self.alarm = alarm
        self.out = {}

    def add(self, cid, cmds, post):
        self.cases.append((cid, cmds))
        self.post[cid] = (cmds, post)

    def run(self):
        if self.cases:
            self.out, self.err = vlib.run_cases(self.h, self.cases, timeout=3000, args=[str(self.alarm)])


def run(chk):
    tier = chk.tier
    quick = tier == "quick"
    ok, log, st = vlib.proof_obligations(chk, PROPS)
    gl = st.get("GenLimits.v", "missing")
    if gl.startswith("error"):
        chk.violation("translator", "the limit tests of the source can no longer be cut out: " + gl,
                      {"generated": st, "how": "lib/genlimits.py over VERIF_REPO"}, found_input=False)
        # the failing-input search still runs, over the last good generated model (Gen.ref): a concrete input found below
        # is what gets reported, with this message attached
        lock = vlib.coq_lock()
        try:
            shutil.copy2(os.path.join(vlib.COQ, "Gen.ref", "GenLimits.v"), os.path.join(vlib.COQ, "gen", "GenLimits.v"))
        finally:
            lock.close()
    elif not ok:
        diff = ""
        try:
            import difflib
            a = open(os.path.join(vlib.COQ, "Gen.ref", "GenLimits.v")).read().split("\n")
            b = open(os.path.join(vlib.COQ, "gen", "GenLimits.v")).read().split("\n")
            diff = "\n".join(l for l in difflib.unified_diff(a, b, "Gen.ref/GenLimits.v", "gen/GenLimits.v", lineterm="", n=0))[:1500]
            a = open(os.path.join(vlib.COQ, "Gen.ref", "GenConsts.v")).read().split("\n")
            b = open(os.path.join(vlib.COQ, "gen", "GenConsts.v")).read().split("\n")
            diff += "\n".join(l for l in difflib.unified_diff(a, b, "Gen.ref/GenConsts.v", "gen/GenConsts.v", lineterm="", n=0))[:800]
        except Exception:
            pass
        errs = re.findall(r'File "\./([^"]+)", line (\d+)[^\n]*\n(?:[^\n]*\n){0,3}', log)
        chk.violation("proof", "C15 obligations over the regenerated limit model no longer check (%s). Source as the model sees it now vs reference: %s"
                      % (", ".join("%s:%s" % e for e in errs[:3]) or log[-300:], diff or "(no difference in generated files)"),
                      {"theorems": PROPS, "log": log[-4000:], "generated": st, "gen_diff": diff}, found_input=False)
    K = vlib.consts()
    # private copies: the build cache is pruned by concurrent checks of other trees, the model runner is rebuilt by others
    hsrc = build.harness("h_limits")
    h = os.path.join(build.scratch_root(), "verif-hlimits-c15-%d" % os.getpid())
    for attempt in range(3):
        try:
            shutil.copy2(hsrc, h)
            break
        except FileNotFoundError:
            hsrc = build.harness("h_limits")
    chk.cov.setdefault("phase_s", {})["proofs"] = round(time.time() - chk.t0, 1)
    try:
        tmm = time.time()
        model = private_model()
        _t(chk, "model_build", tmm)
    except vlib.CoqError as e:
        chk.violation("model", "model runner cannot be built: " + str(e)[-800:], {"error": str(e)[-3000:]}, found_input=False)
        try:
            os.remove(h)
        except OSError:
            pass
        return
    try:
        hasan = None
        try:
            hasan = os.path.join(build.scratch_root(), "verif-hlimits-asan-c15-%d" % os.getpid())
            shutil.copy2(build.harness("h_limits", "asan"), hasan)
        except FileNotFoundError:
            shutil.copy2(build.harness("h_limits", "asan"), hasan)
        _run(chk, K, h, model, quick, hasan)
    finally:
        for f in (model, h, os.path.join(build.scratch_root(), "verif-hlimits-asan-c15-%d" % os.getpid())):
            try:
                os.remove(f)
            except OSError:
                pass


def _t(chk, what, t0):
    chk.cov.setdefault("phase_s", {})[what] = round(time.time() - t0, 1)


def _run(chk, K, h, model, quick, hasan=None):
    rng = chk.rng
    L = K["YR_MAX_STRING_MATCHES"]
    SLOW = K["YR_SLOW_STRING_MATCHES"]
    mq = []          # model queries, answered in one batch: (key, "lim ...")
    checks = []      # deferred comparisons needing model answers: fn(model_answers)
    stats = {"cases": 0, "agree": 0, "kinds": {}}
    nontriv = set()
    delays = {}

    def ask(q):
        mq.append(q)
        return len(mq) - 1

    def viol(key, what, cid, cmds, lines, found=True, **extra):
        full = sum(len(c) for c in cmds) < 300000
        rep = {"case": cid, "commands": cmds if full else [c if len(c) < 400 else c[:200] + "...(%d chars)" % len(c) for c in cmds],
               "replayable": full,
               "output": [l[:400] for l in lines][:12],
               "how": "printf 'case x\\n<commands>\\nendcase\\n' | h_limits 60   (harness/h_limits.c; bin/check C15)"}
        rep.update(extra)
        chk.violation(key, what, rep, found_input=found)

    def usable(cid, cmds, lines, kind):
        """library still usable after the limit was hit: the smoke compile+scan at the end of the case"""
        c = crashed(lines)
        if c:
            viol("crash:" + kind, "%s: process dies (%s) -- limit not reported as an error" % (cid, c), cid, cmds, lines)
            return False
        sm = [l for l in lines if l.startswith("smoke")]
        if not sm or sm[-1] != SMOKE_OK:
            viol("usable:" + kind, "%s: after the limit was hit a normal compile+scan in the same process fails: %s" % (cid, sm[-1:] or "no smoke output"),
                 cid, cmds, lines)
            return False
        return True

    def count(kind, nt):
        stats["cases"] += 1
        stats["kinds"][kind] = stats["kinds"].get(kind, 0) + 1
        nontriv.add((kind,) + tuple(nt))

    main = Runner(h)
    D = gen_defaults()
    RESET = ["cfg stack %d" % D["cfg_default_stack_size"], "cfg strings %d" % D["cfg_default_max_strings_per_rule"],
             "cfg matchdata %d" % D["cfg_default_max_match_data"]]

    # ================================================================ compile-time limits (documented compile error)
    def compile_case(kind, cid, src, files, documented_accept, mquery, err_code, err_sub, pre=(), extra_scan=None, nt=()):
        cmds = list(pre) + ["newcompiler"] + ["file %s %s" % (n, R(b)) for n, b in files] + ["add " + R(src), "getrules"]
        if extra_scan:
            cmds += extra_scan
        cmds += ["destroy"] + RESET + ["smoke"]
        qi = ask(mquery)

        def post(lines, ans):
            count(kind, nt + (documented_accept,))
            if not usable(cid, cmds, lines, kind):
                return
            errors, last, msgs, codes = compile_result(lines)
            accepted = errors == 0
            m_acc = ans[qi].startswith("accept")
            okdoc = accepted == documented_accept
            if not accepted and okdoc:
                if not any(err_sub in m for m in msgs) or (err_code is not None and err_code not in codes):
                    viol("undocumented:" + kind, "%s: rejected, but not with the documented error (%s, code %s): codes %s messages %s"
                         % (cid, err_sub, err_code, codes, msgs[:2]), cid, cmds, lines)
                    return
            if accepted and okdoc and extra_scan:
                sc = scans(lines)
                if not sc or sc[0].get("rc") != 0 or sc[0]["rules"].get("a", ("",))[0] != "M":
                    viol("corr:" + kind, "%s: accepted, but the rule does not evaluate as documented: %s" % (cid, sc[0]["raw"][:120] if sc else None), cid, cmds, lines)
                    return
            if not okdoc:
                viol("corr:" + kind, "%s: implementation %s, documented limit says %s (model: %s)"
                     % (cid, "accepts" if accepted else "rejects with %s" % msgs[:1], "accept" if documented_accept else "reject", ans[qi]),
                     cid, cmds, lines)
            elif m_acc != accepted:
                viol("model:" + kind, "%s: implementation and documented limit agree (%s) but the regenerated model says %s"
                     % (cid, "accept" if accepted else "reject", ans[qi]), cid, cmds, lines, found=False)
            else:
                stats["agree"] += 1
                return True
        main.add(cid, cmds, post)

    def around(Lim, far=10):
        return [Lim - 1, Lim, Lim + 1, Lim * far]

    # loop nesting
    LN = K["YR_MAX_LOOP_NESTING"]
    for d in around(LN):
        src = "true"
        for i in range(d):
            src = "for any v%d in (0..1): (%s)" % (i, src)
        compile_case("loops", "loops%d" % d, "rule a { condition: %s }" % src, [], d <= LN, "lim loops %d" % d,
                     K["ERROR_LOOP_NESTING_LIMIT_EXCEEDED"], "loop nesting limit exceeded", nt=(d,))
    # include depth
    ID = K["YR_MAX_INCLUDE_DEPTH"]
    for d in around(ID):
        files = [("f%d" % i, ('include "f%d"\n' % (i + 1)) if i + 1 < d else "rule leaf { condition: true }\n") for i in range(min(d, 250))]
        compile_case("includes", "includes%d" % d, 'include "f0"\nrule top { condition: true }', files, d <= ID, "lim includes %d" % d,
                     None, "includes depth exceeded", nt=(d,))
    # strings per rule, all settings
    settings = [0, 1, 2, rng.range(3, 60), 10000, U32 - 1] + ([] if quick else [rng.range(61, 3000), 65536])
    for M in settings:
        ns = sorted(set(n for n in (around(M) if M < 100000 else [2, 3]) if 0 <= n <= (12000 if quick else 110000)))
        for n in ns:
            strs = " ".join('$s%d = "s%07dq"' % (i, i) for i in range(n))
            src = "rule a { %s condition: %s }" % (("strings: " + strs) if n else "", "any of them" if n else "true")
            compile_case("strings", "strings%d_%d" % (M, n), src, [], n <= M, "lim strings %d %d" % (M, n),
                         K["ERROR_TOO_MANY_STRINGS"], "too many strings in rule", pre=["cfg strings %d" % M], nt=(M, n))
    # lexer buffer: one chunk, and chunk + escape + chunk (current_size > 0)
    LB = K["YR_LEX_BUF_SIZE"]
    for n in [LB - 3, LB - 2, LB - 1, LB, 10 * LB]:
        compile_case("lexbuf", "lextext%d" % n, 'rule a { strings: $a = "%s" condition: $a }' % ("x" * n), [], n <= LB - 2,
                     "lim lexbuf %d 0" % n, None, "out of space in lex_buf", nt=("text", n))
        compile_case("lexbuf", "lexre%d" % n, "rule a { strings: $a = /%s/ condition: $a }" % ("x" * n), [], n <= LB - 2,
                     "lim lexbuf %d 0" % n, None, "out of space in lex_buf", nt=("re", n))
    for tot in [LB - 2, LB - 1]:
        a = rng.range(10, LB - 100)
        b = tot - a - 1
        # the second chunk is tested against current_size = a + 1
        compile_case("lexbuf", "lexsplit%d" % tot, 'rule a { strings: $a = "%s\\t%s" condition: $a }' % ("x" * a, "y" * b), [], tot <= LB - 2,
                     "lim lexbuf %d %d" % (b, a + 1), None, "out of space in lex_buf", nt=("split", tot))
    for n in around(128):
        compile_case("ident", "ident%d" % n, "rule %s { condition: true }" % ("r" * n), [], n <= 128, "lim ident %d" % n,
                     None, "identifier too long", nt=(n,))
    # integer literals (value checked too)
    I64 = 2 ** 63 - 1
    lits = [(I64 - 1, ""), (I64, ""), (I64 + 1, ""), (10 * I64, ""), (2 ** 53 - 1, "KB"), (2 ** 53, "KB"), (2 ** 43 - 1, "MB"), (2 ** 43, "MB"),
            (rng.range(0, 2 ** 53 - 1), "KB"), (rng.range(2 ** 53, 2 ** 60), "KB"), (rng.range(0, 2 ** 43 - 1), "MB"), (rng.range(0, I64), ""),
            (rng.range(I64 + 1, 2 ** 70), "")]
    for v, suf in lits:
        mul = {"": 1, "KB": 1024, "MB": 1048576}[suf]
        acc = v * mul <= I64
        val = v * mul
        cond = "%d%s == %s" % (v, suf, ("%d" % val) if val <= I64 and not suf else "%d * %d" % (v, mul)) if acc else "%d%s > 0" % (v, suf)
        cid = "int%d%s" % (v, suf)
        scan = ["buf 61", "scan 0 0 0"]
        compile_case("intlit", cid, "rule a { condition: %s }" % cond, [], acc, "lim int %d %s" % (v, suf or "none"),
                     K["ERROR_INTEGER_OVERFLOW"], "integer overflow", extra_scan=scan, nt=(suf, acc, v in (I64, I64 + 1, 2 ** 53, 2 ** 43)))
    for txt, v in [("0x7FFFFFFFFFFFFFFF", I64), ("0x8000000000000000", I64 + 1), ("0o777777777777777777777", I64), ("0o1000000000000000000000", I64 + 1),
                   ("0x" + "F" * 18, 16 ** 18 - 1)]:
        compile_case("intlit", "int" + txt, "rule a { condition: %s > 0 }" % txt, [], v <= I64, "lim int %d none" % v,
                     K["ERROR_INTEGER_OVERFLOW"], "integer overflow", nt=(txt[:2], v <= I64))
    # regexp: split ids, repeat bound
    SP = K["RE_MAX_SPLIT_ID"]
    for n in around(SP):
        compile_case("splits", "splits%d" % n, "rule a { strings: $a = /abcd%s/ condition: $a }" % ("e?" * n), [], n <= SP, "lim splits %d" % n,
                     K["ERROR_REGULAR_EXPRESSION_TOO_COMPLEX"], "too complex", extra_scan=["buf " + R("abcd"), "scan 0 0 0"], nt=(n,))
    RR = K["RE_MAX_RANGE"]
    for n in around(RR):
        compile_case("rerange", "rerange%d" % n, "rule a { strings: $a = /abcd.{0,%d}e/ condition: $a }" % n, [], n <= RR, "lim rerange %d" % n,
                     None, "repeat interval too large", nt=(n,))

    # nested counted repeats: RE_MAX_STACK has no test of its own (explored): compile or documented error, scan never crashes
    maxdepth = {"ok": 0}
    for d in range(1, 13):
        pat = "ab"
        for _ in range(d):
            pat = "(%s){3,5}" % pat
        cid = "renest%d" % d
        cmds = ["newcompiler", "add " + R("rule a { strings: $a = /xyzw%s/ condition: $a }" % pat), "getrules",
                "buf " + R("xyzw" + "ab" * 600), "scan 0 0 0", "destroy", "smoke"]

        def post(lines, ans, cid=cid, cmds=cmds, d=d):
            count("renest", (d,))
            if not usable(cid, cmds, lines, "renest"):
                return
            errors, last, msgs, codes = compile_result(lines)
            if errors == 0:
                maxdepth["ok"] = max(maxdepth["ok"], d)
                sc = scans(lines)
                if not sc or sc[0].get("rc") not in (0, K["ERROR_TOO_MANY_RE_FIBERS"]):
                    viol("corr:renest", "%s: scan with %d nested counted repeats returns %s" % (cid, d, sc[0].get("rc") if sc else None), cid, cmds, lines)
                    return
            elif not set(codes) & {K["ERROR_REGULAR_EXPRESSION_TOO_LARGE"], K["ERROR_REGULAR_EXPRESSION_TOO_COMPLEX"], K["ERROR_INVALID_REGULAR_EXPRESSION"]}:
                viol("undocumented:renest", "%s: nest refused with undocumented error %s %s" % (cid, codes, msgs[:1]), cid, cmds, lines)
                return
            stats["agree"] += 1
        main.add(cid, cmds, post)

    # ================================================================ scan-time limits
    # ---- matches per string, slow-scanning window, negotiation
    ns = [SLOW - 1, SLOW, SLOW + 1, SLOW + 2, L - 1, L, L + 1, 10 * L, rng.range(1, SLOW), rng.range(SLOW, L), rng.range(L + 2, 3 * L)]
    for n in ns:
        for ans_many in ([0] if n <= L else [0, 1, 2]):
            cid = "matches%d_%d" % (n, ans_many)
            cmds = ["newcompiler", "add " + R('rule a { strings: $a = "a" condition: $a }'), "getrules", "fill 97 %d" % n,
                    "scan 0 %d 0" % ans_many, "buf " + R("aaa"), "scan 0 0 0", "destroy", "smoke"]
            qi = ask("lim scan %d %d" % (1 if ans_many == 0 else 0, n))

            def post(lines, ans, cid=cid, cmds=cmds, n=n, ans_many=ans_many, qi=qi):
                count("matches", (n <= L, ans_many, SLOW + 2 <= n < L))
                if not usable(cid, cmds, lines, "matches"):
                    return
                sc = scans(lines)
                if len(sc) != 2:
                    viol("corr:matches", "%s: scans did not run" % cid, cid, cmds, lines, found=False)
                    return
                s0 = sc[0]
                m = dict(x.split("=") for x in ans[qi].split())
                got_cnt = s0["rules"].get("a", ("", {}))[1].get("$a", {}).get("cnt") if s0["rc"] == 0 else None
                # documented: at most L matches kept; more than L found -> CALLBACK_MSG_TOO_MANY_MATCHES once; refusal -> ERROR_TOO_MANY_MATCHES
                doc_rc = 0 if (n <= L or ans_many == 0) else K["ERROR_TOO_MANY_MATCHES"]
                doc = {"rc": doc_rc, "many": 1 if n > L else 0, "cnt": min(n, L) if doc_rc == 0 else None}
                got = {"rc": s0["rc"], "many": s0["many"], "cnt": got_cnt}
                mod = {"rc": int(m["rc"]), "many": int(m["many"]), "cnt": int(m["count"]) if int(m["rc"]) == 0 else None}
                if got != doc:
                    viol("corr:matches", "%s: %d matching positions, callback answer %d: implementation %s, documented %s" % (cid, n, ans_many, got, doc),
                         cid, cmds, lines, model=ans[qi])
                elif mod != got or int(m["slow"]) != s0["slow"]:
                    viol("model:matches", "%s: implementation %s slow=%d, regenerated model %s" % (cid, got, s0["slow"], ans[qi]), cid, cmds, lines, found=False)
                elif got_cnt is not None and (s0["rules"]["a"][1]["$a"]["sorted"] != 1 or s0["rules"]["a"][1]["$a"]["last"] != min(n, L) - 1):
                    viol("corr:matches", "%s: the kept matches are not the first %d in order: %s" % (cid, min(n, L), s0["rules"]["a"][1]["$a"]), cid, cmds, lines)
                elif sc[1]["rc"] != 0 or sc[1]["rules"].get("a", ("", {}))[1].get("$a", {}).get("cnt") != 3 or sc[1]["many"] != 0:
                    viol("usable:matches", "%s: the scan after the limit hit does not start afresh: %s" % (cid, sc[1]["raw"]), cid, cmds, lines)
                else:
                    stats["agree"] += 1
            main.add(cid, cmds, post)

    # ---- A (limit hit) + B (unrelated) in one scan; B alone on the same buffer
    nAB = 4 if quick else 16
    for t in range(nAB):
        r = rng.fork()
        n = L + r.range(10, 2000) + (0 if t % 2 else r.range(0, L))
        k = r.range(1, 6)
        pos = sorted(set([r.range(0, L - 10) for _ in range(k)] + [r.range(L + 5 * k + 10, n - 4)] + ([n - 3] if t % 3 == 0 else [])))
        pos = [p for i, p in enumerate(pos) if i == 0 or p - pos[i - 1] > 3]
        bdecl = ['$b = "bcd"', "$b = /b[c]d/", '$b = "BCD" nocase'][t % 3]
        plant = ["plant %d %s" % (p, R("bcd")) for p in pos]
        form = t % 4
        if form == 0:
            both = 'rule A { strings: $a = "a" condition: $a } rule B { strings: %s condition: #b == %d }' % (bdecl, len(pos))
        elif form == 1:
            both = 'rule B { strings: %s condition: #b == %d } rule A { strings: $a = "a" condition: $a }' % (bdecl, len(pos))
        elif form == 2:
            both = 'rule B { strings: $a = "a" %s condition: #b == %d and #a > 0 }' % (bdecl, len(pos))
        else:
            both = 'rule B { strings: %s $a = "a" condition: #b == %d and #a > 0 }' % (bdecl, len(pos))
        alone = "rule B { strings: %s condition: #b == %d }" % (bdecl, len(pos))
        cid = "ab%d" % t
        cmds = ["newcompiler", "add " + R(both), "getrules", "fill 97 %d" % n] + plant + ["scan 0 0 0", "destroy",
                "newcompiler", "add " + R(alone), "getrules", "scan 0 0 0", "destroy", "smoke"]

        def post(lines, ans, cid=cid, cmds=cmds, pos=pos, form=form, n=n):
            count("isolated", (form, len(pos), pos[-1] == n - 3))
            if not usable(cid, cmds, lines, "isolated"):
                return
            sc = scans(lines)
            if len(sc) != 2 or sc[0].get("rc") != 0 or sc[1].get("rc") != 0:
                viol("isolated", "%s: scans did not succeed: %s" % (cid, [s.get("rc") for s in sc]), cid, cmds, lines)
                return
            b_with = sc[0]["rules"].get("B", (None, {}))
            b_alone = sc[1]["rules"].get("B", (None, {}))
            if sc[0]["many"] < 1:
                viol("isolated", "%s: the limit on $a was not hit (scenario error)" % cid, cid, cmds, lines, found=False)
            elif b_with[0] != b_alone[0] or b_with[1].get("$b") != b_alone[1].get("$b") or b_alone[0] != "M" or b_alone[1]["$b"]["cnt"] != len(pos):
                viol("isolated", "%s: the match cap hit on $a changes the result of the unrelated $b: with A %s %s, without A %s %s (planted at %s)"
                     % (cid, b_with[0], b_with[1].get("$b"), b_alone[0], b_alone[1].get("$b"), pos), cid, cmds, lines)
            else:
                stats["agree"] += 1
        main.add(cid, cmds, post)

    # ---- a limit hit in one scan must not change a LATER scan on the same scanner.  The per-string state of the cap
    #      (strings_temp_disabled, one bit per string, scanner.c:_yr_scanner_clean_matches) is sized by the number of
    #      strings, the neighbouring bitmaps by the number of rules: rule sets with many more strings than rules
    #      (>= 70 strings in < 64 rules), the capped string at a global index beyond / below 64 (bitmap word boundary).
    later = [("one70_last", [70], 69), ("seven10_last", [10] * 7, 69), ("one70_mid", [70], rng.range(8, 63))]
    if not quick:
        later += [("one70_63", [70], 63), ("one70_64", [70], 64), ("one70_65", [70], 65), ("two_65_5_first", [65, 5], 0),
                  ("one135_last", [135], 134), ("three_130", [3, 64, 63], 129), ("mix_%d" % 0, [1, 33, 36], rng.range(64, 69)),
                  ("rnd", [rng.range(1, 30) for _ in range(5)] + [70], rng.range(64, 75))]
    for t, (name, layout, capidx) in enumerate(later):
        r = rng.fork()
        capstr = ["a", "aa"][t % 2]
        total = sum(layout)
        capidx = min(capidx, total - 1)
        rules_src, idents, g = [], [], 0          # idents[global index] = (rule name, identifier, text)
        for ri, ns in enumerate(layout):
            decls = []
            for k in range(ns):
                if g == capidx:
                    ident, text = "$c", capstr
                else:
                    ident, text = "$s%d" % k, "m%03dx" % g
                decls.append('%s = "%s"' % (ident, text))
                idents.append(("r%d" % ri, ident, text))
                g += 1
            rules_src.append("rule r%d { strings: %s condition: any of them }" % (ri, " ".join(decls)))
        others = [i for i in range(total) if i != capidx]
        # scan 1: > L occurrences of the capped string, a few markers planted (also markers beyond index 64)
        n1 = L + 100000 + r.range(0, 5000)
        mark1 = sorted(set([r.choice(others) for _ in range(3)] + [others[-1], others[0]]))
        plant1, want1, pos = [], {}, 1000
        for i in mark1:
            for _ in range(r.range(1, 3)):
                plant1.append("plant %d %s" % (pos, R(idents[i][2])))
                want1[i] = want1.get(i, 0) + 1
                pos += r.range(7, 200000)
        # scan 2: a small buffer: 3 occurrences of the capped string, some markers
        mark2 = sorted(set([r.choice(others) for _ in range(4)] + [others[-1]]))
        small = b"--"
        want2 = {capidx: 3}
        for j in range(3):
            small += capstr.encode() + b"-" + (idents[mark2[j % len(mark2)]][2].encode() if j < 2 else b"") + b"--"
        for j in range(2):
            i = mark2[j % len(mark2)]
            want2[i] = want2.get(i, 0) + 1
        for i in mark2[2:]:
            small += idents[i][2].encode() + b".."
            want2[i] = want2.get(i, 0) + 1
        cid = "later_" + name
        cmds = ["newcompiler", "add " + R("\n".join(rules_src)), "getrules", "scanner", "fill 97 %d" % n1] + plant1 + \
               ["sscan 0 0", "buf " + hx(small), "sscan 0 0", "scanner", "sscan 0 0", "destroy", "smoke"]

        def post(lines, ans, cid=cid, cmds=cmds, idents=idents, capidx=capidx, want1=want1, want2=want2, layout=layout, total=total):
            count("later", (len(layout), capidx // 64, capidx % 64 in (0, 63), total // 64))
            if not usable(cid, cmds, lines, "later"):
                return
            sc = scans(lines)
            where = "string index %d of %d strings in %d rule(s)" % (capidx, total, len(layout))
            if len(sc) != 3 or any(x.get("rc") != 0 for x in sc):
                viol("later-scan", "%s: scans did not succeed: %s" % (cid, [x.get("rc") for x in sc]), cid, cmds, lines)
                return

            def counts(x):
                return {i: x["rules"].get(rn, ("", {}))[1].get(ident, {}).get("cnt") for i, (rn, ident, _) in enumerate(idents)}
            c1, c2, c3 = counts(sc[0]), counts(sc[1]), counts(sc[2])
            exp1 = {i: want1.get(i, 0) for i in range(total)}
            exp1[capidx] = L
            exp2 = {i: want2.get(i, 0) for i in range(total)}
            if sc[0]["many"] != 1 or "$c" not in sc[0]["many_ids"]:
                viol("later-scan", "%s: the cap on $c (%s) was not reported exactly once in the scan that hits it: many=%s:%s"
                     % (cid, where, sc[0]["many"], sc[0]["many_ids"]), cid, cmds, lines)
            elif c1 != exp1:
                bad = {idents[i][1] + "@" + idents[i][0]: (c1[i], exp1[i]) for i in range(total) if c1[i] != exp1[i]}
                viol("isolated", "%s: in the scan that hits the cap on $c (%s) other results are not exact (got, expected): %s" % (cid, where, bad),
                     cid, cmds, lines)
            elif c3 != exp2 or sc[2]["many"] != 0:
                bad = {idents[i][1] + "@" + idents[i][0]: (c3[i], exp2[i]) for i in range(total) if c3[i] != exp2[i]}
                viol("later-scan", "%s: scenario/model error: a fresh scanner does not give the expected counts: %s" % (cid, bad), cid, cmds, lines, found=False)
            elif c2 != c3 or sc[1]["many"] != 0 or sc[1]["rules"] != sc[2]["rules"]:
                bad = {idents[i][1] + "@" + idents[i][0]: (c2[i], c3[i]) for i in range(total) if c2[i] != c3[i]}
                viol("later-scan", "%s: the match cap hit on $c (%s) in one scan silently changes the NEXT scan of the same scanner: "
                     "(same scanner, fresh scanner) = %s" % (cid, where, bad), cid, cmds, lines,
                     rules="\n".join(r[:200] for r in cmds[1:2]), capped_string_index=capidx)
            else:
                stats["agree"] += 1
        main.add(cid, cmds, post)

    # ---- slow-scanning warning looks at the string with index 0 only (replay of slow_warning_per_string_refuted)
    obs = {}
    for order in ("ba", "ab"):
        decl = '$b = "zq" $a = "a"' if order == "ba" else '$a = "a" $b = "zq"'
        cid = "slow_" + order
        cmds = ["newcompiler", "add " + R("rule r { strings: %s condition: any of them }" % decl), "getrules", "fill 97 %d" % (SLOW + 100000),
                "scan 0 0 0", "destroy", "smoke"]

        def post(lines, ans, cid=cid, cmds=cmds, order=order):
            count("slow", (order,))
            if not usable(cid, cmds, lines, "slow"):
                return
            sc = scans(lines)
            obs[order] = sc[0].get("slow") if sc else None
            if sc and sc[0].get("rc") == 0:
                stats["agree"] += 1
        main.add(cid, cmds, post)

    # ---- VM stack, all settings
    def nest(d):
        return "filesize" + "".join(" + (filesize" for _ in range(d - 1)) + ")" * (d - 1)
    settings = [2, 3, 4, rng.range(5, 40), rng.range(41, 300), 1000] + ([] if quick else [rng.range(301, 2500), 2999])
    for S in settings:
        for d in sorted(set(x for x in around(S) if 2 <= x <= 3000)):
            cid = "vmstack%d_%d" % (S, d)
            cmds = ["cfg stack %d" % S, "newcompiler", "add " + R("rule a { condition: %s > 0 } rule b { condition: true }" % nest(d)), "getrules",
                    "buf " + R("ab"), "scan 0 0 0", "destroy"] + RESET + ["smoke"]
            qi = ask("lim vmstack %d %d" % (S, d))

            def post(lines, ans, cid=cid, cmds=cmds, S=S, d=d, qi=qi):
                count("vmstack", (d <= S, d - S if abs(d - S) <= 1 else "far"))
                if not usable(cid, cmds, lines, "vmstack"):
                    return
                sc = scans(lines)
                rc = sc[0].get("rc") if sc else None
                doc = 0 if d <= S else K["ERROR_EXEC_STACK_OVERFLOW"]
                if rc != doc or (rc == 0 and (sc[0]["rules"].get("a", ("",))[0] != "M" or sc[0]["rules"].get("b", ("",))[0] != "M")):
                    viol("corr:vmstack", "%s: stack size %d, expression depth %d: implementation rc=%s %s, documented rc=%d" % (cid, S, d, rc, sc[0]["raw"][:80] if sc else "", doc),
                         cid, cmds, lines, model=ans[qi])
                elif ans[qi].startswith("accept") != (rc == 0):
                    viol("model:vmstack", "%s: implementation rc=%s, regenerated model %s" % (cid, rc, ans[qi]), cid, cmds, lines, found=False)
                else:
                    stats["agree"] += 1
            main.add(cid, cmds, post)
    # tiny and huge settings; loops (iterators test for two free slots) under small stacks: error or right verdict, monotone
    for S, src, want in [(0, "rule b { condition: true }", K["ERROR_EXEC_STACK_OVERFLOW"]), (1, "rule b { condition: true }", 0),
                         (1, "rule b { condition: filesize > 0 }", K["ERROR_EXEC_STACK_OVERFLOW"]), (16384, "rule b { condition: %s > 0 }" % nest(2000), 0),
                         (2 ** 28, "rule b { condition: %s > 0 }" % nest(50), 0), (U32 - 1, "rule b { condition: true }", None)]:
        cid = "vmcfg%d_%d" % (S, len(src))
        cmds = ["cfg stack %d" % S, "getcfg", "newcompiler", "add " + R(src), "getrules", "buf " + R("ab"), "scan 0 0 0", "destroy"] + RESET + ["smoke"]

        def post(lines, ans, cid=cid, cmds=cmds, S=S, want=want):
            count("vmcfg", (S, want))
            if not usable(cid, cmds, lines, "vmcfg"):
                return
            sc = scans(lines)
            rc = sc[0].get("rc") if sc else None
            back = [l for l in lines if l.startswith("cfg rc=0 get=0 value=%d" % S)]
            if not back:
                viol("config", "%s: yr_set_configuration/yr_get_configuration do not round-trip %d" % (cid, S), cid, cmds, lines)
            elif (want is not None and rc != want) or (want is None and rc not in (0, K["ERROR_INSUFFICIENT_MEMORY"])):
                viol("corr:vmcfg", "%s: stack size %d: rc=%s, expected %s" % (cid, S, rc, want if want is not None else "0 or ERROR_INSUFFICIENT_MEMORY"), cid, cmds, lines)
            else:
                stats["agree"] += 1
        main.add(cid, cmds, post)
    loop_rc = {}
    for S in range(1, 13):
        cid = "vmloop%d" % S
        cmds = ["cfg stack %d" % S, "newcompiler", "add " + R("rule a { condition: for any i in (0..2): (i == 1) } rule b { strings: $x = \"ab\" condition: for all of them: (# > 0) }"),
                "getrules", "buf " + R("ab"), "scan 0 0 0", "destroy"] + RESET + ["smoke"]

        def post(lines, ans, cid=cid, cmds=cmds, S=S):
            count("vmloop", (S,))
            if not usable(cid, cmds, lines, "vmloop"):
                return
            sc = scans(lines)
            rc = sc[0].get("rc") if sc else None
            loop_rc[S] = rc
            if rc not in (0, K["ERROR_EXEC_STACK_OVERFLOW"]) or (rc == 0 and (sc[0]["rules"].get("a", ("",))[0] != "M" or sc[0]["rules"].get("b", ("",))[0] != "M")):
                viol("corr:vmloop", "%s: loops under stack size %d: %s" % (cid, S, sc[0]["raw"][:120] if sc else None), cid, cmds, lines)
            else:
                stats["agree"] += 1
        main.add(cid, cmds, post)

    # ---- match data, all settings
    settings = [0, 1, 2, 7, 8, 9, 511, 512, 513, 4096, rng.range(10, 500), rng.range(600, 100000)]
    for M in settings:
        cid = "matchdata%d" % M
        cmds = ["cfg matchdata %d" % M, "newcompiler", "add " + R('rule a { strings: $s = "abcdefghijklmnopqrst" $r = /Z[a-y]{599}/ condition: all of them }'), "getrules",
                "fill 98 5000", "plant 100 " + R("abcdefghijklmnopqrst"), "plant 2000 " + R("Z"), "scan 0 0 0", "destroy"] + RESET + ["smoke"]
        q1 = ask("lim matchdata %d 20" % M)
        q2 = ask("lim matchdata %d 600" % M)

        def post(lines, ans, cid=cid, cmds=cmds, M=M, q1=q1, q2=q2):
            count("matchdata", (M < 20, M < 600))
            if not usable(cid, cmds, lines, "matchdata"):
                return
            sc = scans(lines)
            st = sc[0]["rules"].get("a", ("", {}))[1] if sc and sc[0].get("rc") == 0 else {}
            got = (st.get("$s", {}).get("dmin"), st.get("$s", {}).get("dmax"), st.get("$r", {}).get("dmin"), st.get("$r", {}).get("dmax"))
            doc = (min(20, M), min(20, M), min(600, M), min(600, M))
            mod = (int(ans[q1]), int(ans[q1]), int(ans[q2]), int(ans[q2]))
            if got != doc:
                viol("corr:matchdata", "%s: YR_CONFIG_MAX_MATCH_DATA=%d: data_length of a 20 and a 600 byte match: %s, documented %s" % (cid, M, got, doc), cid, cmds, lines)
            elif mod != got:
                viol("model:matchdata", "%s: implementation %s, regenerated model %s" % (cid, got, mod), cid, cmds, lines, found=False)
            else:
                stats["agree"] += 1
        main.add(cid, cmds, post)
    for M in [2 ** 31 - 1, 2 ** 31, U32 - 1]:
        cid = "matchdata%d" % M
        cmds = ["cfg matchdata %d" % M, "getcfg", "newcompiler", "add " + R('rule a { strings: $s = "abcdefghijklmnopqrst" condition: $s }'), "getrules",
                "fill 98 5000", "plant 100 " + R("abcdefghijklmnopqrst"), "scan 0 0 0", "destroy"] + RESET + ["smoke"]
        q1 = ask("lim matchdata %d 20" % M)

        def post(lines, ans, cid=cid, cmds=cmds, M=M, q1=q1):
            count("matchdata", ("huge", M >= 2 ** 31))
            if not usable(cid, cmds, lines, "matchdata"):
                return
            sc = scans(lines)
            rc = sc[0].get("rc") if sc else None
            if rc == K["ERROR_INSUFFICIENT_MEMORY"]:
                stats["agree"] += 1      # the notebook page of 1024*(sizeof(YR_MATCH)+M) bytes is refused: documented error
                chk.add("matchdata_huge_refused_by_malloc")
            elif rc == 0:
                dl = sc[0]["rules"].get("a", ("", {}))[1].get("$s", {}).get("dmin")
                if dl is None or dl < 0 or dl != min(20, M):
                    viol("corr:matchdata", "%s: YR_CONFIG_MAX_MATCH_DATA=%d gives data_length %s (model: %s)" % (cid, M, dl, ans[q1]), cid, cmds, lines)
                else:
                    stats["agree"] += 1
            else:
                viol("corr:matchdata", "%s: YR_CONFIG_MAX_MATCH_DATA=%d: scan rc=%s" % (cid, M, rc), cid, cmds, lines)
        main.add(cid, cmds, post)

    # ---- fibers: the demand of /abcd<pre>(e{1,N}){1,2}f/ on a run of e's is linear in N; calibrated on small N on every run
    FL = K["RE_MAX_FIBERS"]
    fam = {"A": "abcd(e{1,%d}){1,2}f", "B": "abcde?(e{1,%d}){1,2}f", "G": "abcde?e?(e{1,%d}){1,2}f"}
    fib = Runner(h)
    fmeas = {}
    for f, pat in fam.items():
        for N in (9, 10, 14):
            cid = "fibcal%s%d" % (f, N)
            cmds = ["newcompiler", "add " + R("rule a { strings: $a = /%s/ condition: $a }" % (pat % N)), "getrules", "fill 101 3000", "plant 100 " + R("abcd"),
                    "scanner", "sscan 0 0"]

            def post(lines, ans, f=f, N=N):
                sc = scans(lines)
                fmeas[(f, N)] = sc[0].get("fibers") if sc and sc[0].get("rc") == 0 else None
            fib.add(cid, cmds, post)
    tf = time.time()
    fib.run()
    _t(chk, "fiber_calibration", tf)
    for cid, (cmds, post) in fib.post.items():
        post(fib.out.get(cid, []), None)
    for f, pat in fam.items():
        a, b, c = fmeas.get((f, 9)), fmeas.get((f, 10)), fmeas.get((f, 14))
        if None in (a, b, c) or (c - a) != 5 * (b - a) or b - a <= 0:
            chk.note(**{"fiber_family_%s_not_linear" % f: [a, b, c]})
            continue
        slope, icpt = b - a, a - 9 * (b - a)
        for target in [FL - 1, FL, FL + 1, FL + 2, 10 * FL]:
            if (target - icpt) % slope:
                continue
            N = (target - icpt) // slope
            cid = "fibers%s_%d" % (f, target)
            cmds = ["newcompiler", "add " + R("rule a { strings: $a = /%s/ condition: $a } rule b { strings: $z = \"zz\" condition: $z }" % (pat % N)), "getrules",
                    "fill 101 %d" % (3 * N + 3000), "plant 100 " + R("abcd"), "plant %d %s" % (3 * N + 2000, R("zz")), "scanner", "sscan 0 0",
                    "buf " + R("abcdef zz"), "sscan 0 0", "destroy", "smoke"]
            qi = ask("lim fibers %d" % target)

            def post(lines, ans, cid=cid, cmds=cmds, target=target, qi=qi, N=N):
                count("fibers", (target - FL if abs(target - FL) <= 2 else "far",))
                if not usable(cid, cmds, lines, "fibers"):
                    return
                sc = scans(lines)
                if len(sc) != 2:
                    viol("corr:fibers", "%s: scans did not run" % cid, cid, cmds, lines, found=False)
                    return
                doc_rc = 0 if target <= FL else K["ERROR_TOO_MANY_RE_FIBERS"]
                got = (sc[0].get("rc"), sc[0].get("fibers"))
                if got != (doc_rc, min(target, FL)):
                    viol("corr:fibers", "%s: regexp needing %d live fibers (N=%d): implementation rc/fibers %s, documented (%d, %d)" % (cid, target, N, got, doc_rc, min(target, FL)),
                         cid, cmds, lines, model=ans[qi])
                elif ans[qi].startswith("accept") != (got[0] == 0):
                    viol("model:fibers", "%s: implementation rc=%s, regenerated model %s" % (cid, got[0], ans[qi]), cid, cmds, lines, found=False)
                elif got[0] == 0 and sc[0]["rules"].get("b", ("",))[0] != "M":
                    viol("isolated", "%s: unrelated rule b lost its match" % cid, cid, cmds, lines)
                elif sc[1].get("rc") != 0 or sc[1]["rules"].get("a", ("",))[0] != "M" or sc[1]["rules"].get("b", ("",))[0] != "M":
                    viol("usable:fibers", "%s: the same scanner does not work after ERROR_TOO_MANY_RE_FIBERS: %s" % (cid, sc[1]["raw"]), cid, cmds, lines)
                else:
                    stats["agree"] += 1
            main.add(cid, cmds, post)

    # ================================================================ timeouts (own harness processes, in parallel with the rest)
    TO = K["ERROR_SCAN_TIMEOUT"]
    deep = "a + b + c + d >= 0"
    for i, v in enumerate("dcba"[:K["YR_MAX_LOOP_NESTING"]]):
        deep = "for all %s in (0..1000000000): (%s)" % (v, deep)
    big = 8000000 if quick else 64000000
    tcases = []   # (cid, rule, fill, calibration commands or None, per-unit bound factor, use scanner api)
    tcases.append(("t_loops", "rule a { condition: %s }" % deep, 1000, None, 0, False))
    tcases.append(("t_loops_scanner", "rule a { condition: %s }" % deep, 1000, None, 0, True))
    tcases.append(("t_hash", 'import "hash" rule a { condition: for all i in (0..1000000000): (hash.md5(i, filesize - i) != "x") }', big,
                   'import "hash" rule a { condition: for all i in (0..19): (hash.md5(i, filesize - i) != "x") }', 20, False))
    tcases.append(("t_regex", "rule a { strings: $a = /aaaa[a-c]{1,900}d/ condition: $a }", 4 * big, "block", 2, False))
    if not quick:
        tcases.append(("t_sha", 'import "hash" rule a { condition: for all i in (0..1000000000): (for all j in (0..1000000000): (hash.sha256(i, filesize - i - j) != "x")) }', big,
                       'import "hash" rule a { condition: for all i in (0..19): (hash.sha256(i, filesize - i) != "x") }', 20, False))
        tcases.append(("t_entropy", 'import "math" rule a { condition: for all i in (0..1000000000): (math.entropy(i, filesize - i) >= 0.0) }', big,
                       'import "math" rule a { condition: for all i in (0..19): (math.entropy(i, filesize - i) >= 0.0) }', 20, False))
        tcases.append(("t_regex_heavy", "rule a { strings: $a = /a.{0,1000}b/ $b = /(a|aa|aaa){5,30}x/ condition: any of them }", big, "block", 2, False))
        tcases.append(("t_many_strings", "rule a { strings: %s condition: any of them }" % " ".join("$s%d = /aa[a-b]{%d,700}c/" % (i, i + 1) for i in range(20)), big, "block", 2, False))
    secs = 1
    truns = []
    for cid, rule, fill, cal, units, use_scanner in tcases:
        cmds = []
        if cal == "block":
            cmds += ["newcompiler", "add " + R(rule), "getrules", "fill 97 %d" % (2 * K_block(model)), "scan 0 0 0", "destroy"]
        elif cal:
            cmds += ["newcompiler", "add " + R(cal), "getrules", "fill 97 %d" % fill, "scan 0 0 0", "destroy"]
        cmds += ["newcompiler", "add " + R(rule), "getrules", "fill 97 %d" % fill]
        # the scanner is used again after the timeout: the deadline must be counted from the start of the second scan
        cmds += (["scanner", "stimeout %d" % secs, "sscan 0 0", "sscan 0 0"] if use_scanner else ["scan %d 0 0" % secs])
        cmds += ["destroy", "smoke"]
        r = Runner(h, alarm=45 if quick else 240)

        def post(lines, ans, cid=cid, cmds=cmds, cal=cal, units=units, use_scanner=use_scanner):
            count("timeout", (cid,))
            c = crashed(lines)
            sc = scans(lines)
            if c and "sig=14" in c:
                viol("timeout:" + cid, "%s: a scan with a %d s timeout is still running after the harness bound (%s): no ERROR_SCAN_TIMEOUT" % (cid, secs, c), cid, cmds, lines,
                     timed=[s.get("ms") for s in sc])
                return
            if not usable(cid, cmds, lines, "timeout"):
                return
            want = (2 if cal else 1) + (1 if use_scanner else 0)
            if len(sc) != want:
                viol("timeout:" + cid, "%s: scans did not run" % cid, cid, cmds, lines, found=False)
                return
            unit_ms = (sc[0]["ms"] / float(units)) if cal else 0.0
            timed = sc[1] if cal else sc[0]
            # proved: at most 4096 bytes / 100 instructions between two clock reads.  measured: cost of one unit of work
            # (block calibration: 2 * 4096 bytes -> units = 2 ; VM: 20 module calls, at most one per instruction -> 100 units)
            factor = 1.0 if cal == "block" else 100.0
            bound = secs * 1000 + 500 + 1.5 * factor * unit_ms
            delays[cid] = {"timeout_ms": secs * 1000, "elapsed_ms": timed["ms"], "delay_ms": timed["ms"] - secs * 1000, "bound_ms": round(bound),
                           "unit_ms": round(unit_ms, 2), "rc": timed["rc"]}
            if timed["rc"] != TO:
                viol("timeout:" + cid, "%s: scan with timeout %d s returns %d after %d ms, not ERROR_SCAN_TIMEOUT" % (cid, secs, timed["rc"], timed["ms"]), cid, cmds, lines)
            elif timed["ms"] > bound or timed["ms"] < secs * 1000 - 20:
                viol("timeout:" + cid, "%s: ERROR_SCAN_TIMEOUT after %d ms for a %d s timeout; bound from the proved clock-read spacing and the measured unit cost (%.1f ms): %d ms"
                     % (cid, timed["ms"], secs, unit_ms, bound), cid, cmds, lines, measured=delays[cid])
            elif use_scanner and (sc[-1]["rc"] != TO or not (secs * 1000 - 20 <= sc[-1]["ms"] <= bound)):
                viol("usable:timeout", "%s: second scan on the scanner that timed out: rc=%s after %s ms (expected a fresh deadline)" % (cid, sc[-1]["rc"], sc[-1]["ms"]), cid, cmds, lines)
            else:
                stats["agree"] += 1
        r.add(cid, cmds, post)
        truns.append(r)

    # ================================================================ the deadline itself: seconds -> nanoseconds (yr_scanner_set_timeout, used by
    # every entry point).  Model: timeout_ns regenerated from scanner.c with the C integer types explicit (timeout_ns_exact);
    # failing-input search: evaluate it over candidate timeouts, replay the deviating ones on the implementation.
    # Implementation: a looping rule with timeouts of several seconds through the rules-level and the scanner-level API must
    # return ERROR_SCAN_TIMEOUT no earlier than t and no later than t + the bound; the scanner is usable afterwards.
    cand = [1, 2, 3, 4, 5, 7, 8, 9, 10, 60, 1000, 1000000, 2 ** 31 - 1]
    tns, _ = vlib.run_lines(model, ["lim timeoutns %d" % t_ for t_ in cand], timeout=120)
    deviating = []
    for t_, a_ in zip(cand, tns):
        if not re.fullmatch(r"-?\d+", a_ or ""):
            chk.violation("model", "model runner does not answer `lim timeoutns`: %r" % (a_ or "")[:80], {}, found_input=False)
            break
        if int(a_) != t_ * 10 ** 9:
            deviating.append((t_, int(a_)))
    if deviating:
        chk.violation("model:timeout_ns", "yr_scanner_set_timeout as the source has it now does not turn seconds into nanoseconds: (timeout s, nanoseconds stored) %s "
                      "(timeout_ns_exact)" % deviating[:8], {"deviating": deviating}, found_input=False)
    tset = [3, 5] if quick else [2, 3, 4, 5, 7, 9, 10]
    for t_, v_ in deviating:
        if t_ <= 10 and t_ not in tset and len(tset) < (4 if quick else 12):
            tset.append(t_)
    long_only_lower = [] if quick else [60]
    for t_ in tset + long_only_lower:
        for api in ("rules", "scanner"):
            cid = "t_deadline_%s_%d" % (api, t_)
            cmds = ["newcompiler", "add " + R("rule a { condition: %s }" % deep), "getrules", "fill 97 1000"]
            cmds += (["scanner", "stimeout %d" % t_, "sscan 0 0", "stimeout 1", "sscan 0 0"] if api == "scanner" else ["scan %d 0 0" % t_, "scan 1 0 0"])
            cmds += ["destroy", "smoke"]
            lower_only = t_ in long_only_lower
            r_ = Runner(h, alarm=12 if lower_only else t_ + 1 + 4)

            def post(lines, ans, cid=cid, cmds=cmds, t_=t_, api=api, lower_only=lower_only):
                count("deadline", (api, t_))
                c = crashed(lines)
                sc = scans(lines)
                replay_ = ["newcompiler", cmds[1], "getrules", "fill 97 1000"] + (["scanner", "stimeout %d" % t_, "sscan 0 0"] if api == "scanner" else ["scan %d 0 0" % t_])
                if lower_only:
                    if sc and sc[0].get("rc") == TO and sc[0]["ms"] < 10000:
                        viol("deadline", "%s: a scan with a %d s timeout returns ERROR_SCAN_TIMEOUT after %d ms" % (cid, t_, sc[0]["ms"]), cid, replay_, lines)
                    else:
                        stats["agree"] += 1
                    return
                if c and "sig=14" in c and not sc:
                    viol("deadline", "%s: a scan of a looping rule with a %d s timeout (%s API) is still running %d s later: the deadline is never reached"
                         % (cid, t_, api, t_ + 5), cid, replay_, lines, timeout_s=t_)
                    return
                if not usable(cid, cmds, lines, "deadline"):
                    return
                bound = t_ * 1000 + 500
                if len(sc) != 2 or sc[0].get("rc") != TO or not (t_ * 1000 - 20 <= sc[0]["ms"] <= bound):
                    viol("deadline", "%s: a scan of a looping rule with a %d s timeout (%s API) returns rc=%s after %s ms; expected ERROR_SCAN_TIMEOUT between %d and %d ms"
                         % (cid, t_, api, sc[0].get("rc") if sc else None, sc[0].get("ms") if sc else None, t_ * 1000 - 20, bound), cid, replay_, lines, timeout_s=t_)
                elif sc[1].get("rc") != TO or not (980 <= sc[1]["ms"] <= 1500):
                    viol("usable:deadline", "%s: after the timeout the next scan with a 1 s timeout returns rc=%s after %s ms" % (cid, sc[1].get("rc"), sc[1].get("ms")), cid, cmds, lines)
                else:
                    delays[cid] = {"timeout_ms": t_ * 1000, "elapsed_ms": sc[0]["ms"], "delay_ms": sc[0]["ms"] - t_ * 1000, "bound_ms": bound, "rc": sc[0]["rc"]}
                    stats["agree"] += 1
            r_.add(cid, cmds, post)
            truns.append(r_)

    # ================================================================ regular-expression SIZE: every site of _yr_re_emit that narrows a code
    # distance to 16 bits, at the largest accepted and the smallest rejected size of the sub-expression (byte-exact: classes are
    # 34 bytes of code, literals 2, `.` 1).  The expected verdict is the MODEL's (Model/ReEmit.emit_fits: every stored offset fits
    # its field), found by evaluating the model over a window of sizes; accepted expressions must also match what they should.
    TL = K["ERROR_REGULAR_EXPRESSION_TOO_LARGE"]
    RMAX = K["RE_MAX_RANGE"]

    def E_of(T):
        """sub-expression with exactly T bytes of code: (regex text, a member, model s-expression)"""
        n = T // 34
        r_ = T - 34 * n
        if r_ < 2:
            n, r_ = n - 1, r_ + 34
        j, dots = r_ // 2, r_ % 2
        return ("[ab]" * n + "c" * j + "." * dots, "a" * n + "c" * j + "x" * dots,
                "( cat ( rep %d cls ) %s )" % (n, "( cat ( rep %d lit ) any )" % j if dots else "( rep %d lit )" % j))

    FAMS = [  # name, regex with %s, model AST with %s, members of the language to plant (M = a member of E), a non-member
        ("alt_first", "k(%s|xyz)q", "( cat lit ( cat ( alt %s ( rep 3 lit ) ) lit ) )", ["kMq", "kxyzq"], "kxq"),
        ("alt_second", "k(xyz|%s)q", "( cat lit ( cat ( alt ( rep 3 lit ) %s ) lit ) )", ["kxyzq", "kMq"], "kxq"),
        ("star", "k(%s)*q", "( cat lit ( cat ( star %s ) lit ) )", ["kq", "kMq"], "kxq"),
        ("plus", "k(%s)+q", "( cat lit ( cat ( plus %s ) lit ) )", ["kMq"], "kq"),
        ("opt", "k(%s)?q", "( cat lit ( cat ( range 0 1 %s ) lit ) )", ["kq", "kMq"], "kxq"),
        ("range_1_2", "k(%s){1,2}q", "( cat lit ( cat ( range 1 2 %s ) lit ) )", ["kMq"], "kq"),
        ("range_1_unbounded", "k(%s){1,}q", "( cat lit ( cat ( range 1 " + str(RMAX) + " %s ) lit ) )", ["kMq"], "kq"),
    ]
    if not quick:
        FAMS += [("star_ungreedy", "k(%s)*?q", "( cat lit ( cat ( star %s ) lit ) )", ["kq", "kMq"], "kxq"),
                 ("plus_ungreedy", "k(%s)+?q", "( cat lit ( cat ( plus %s ) lit ) )", ["kMq"], "kq"),
                 ("range_0_3", "k(%s){0,3}q", "( cat lit ( cat ( range 0 3 %s ) lit ) )", ["kq", "kMq"], "kxq"),
                 ("alt_in_alt", "k((%s|xyz)|w)q", "( cat lit ( cat ( alt ( alt %s ( rep 3 lit ) ) lit ) lit ) )", ["kMq", "kxyzq", "kwq"], "kxq")]
    WIN = list(range(32700, 32800))
    mqs = ["reemit " + ast % E_of(T)[2] for _, _, ast, _, _ in FAMS for T in WIN]
    mout, _ = vlib.run_lines(model, mqs, timeout=600)
    resize_bound = {}

    def expect_hash(matches):
        sm = 0
        for off, ln in matches:
            sm = (sm * 1000003 + off * 31 + ln) & ((1 << 64) - 1)
        return "%x" % sm

    def resize_case(kind, cid, rule_src, buf, want_accept, want_matches, mline, nt):
        cmds = ["newcompiler", "add " + R(rule_src), "getrules", "buf " + hx(buf), "scan 0 0 0", "destroy", "smoke"]

        def post(lines, ans):
            count("resize", nt + (want_accept,))
            if not usable(cid, cmds, lines, "resize"):
                return
            errors, last, msgs, codes = compile_result(lines)
            accepted = errors == 0
            if accepted != want_accept:
                viol("corr:resize", "%s: implementation %s, the model (every split/jump offset must fit 16 bits) says %s [%s]"
                     % (cid, "accepts" if accepted else "rejects with %s" % msgs[:1], "accept" if want_accept else "reject", mline), cid, cmds, lines, kind=kind)
            elif not accepted and (TL not in codes or not any("too large" in m_ for m_ in msgs)):
                viol("undocumented:resize", "%s: rejected, but not with ERROR_REGULAR_EXPRESSION_TOO_LARGE: codes %s %s" % (cid, codes, msgs[:1]), cid, cmds, lines)
            elif accepted:
                sc = scans(lines)
                st_ = sc[0]["rules"].get("a", ("", {}))[1].get("$a") if sc and sc[0].get("rc") == 0 else None
                exp = {"cnt": len(want_matches), "first": want_matches[0][0], "last": want_matches[-1][0], "sum": expect_hash(want_matches)} if want_matches else {}
                if st_ is None or any(st_[k_] != v_ for k_, v_ in exp.items()):
                    viol("corr:resize-scan", "%s: the largest accepted expression compiles but does not match what it must: got %s, expected matches (offset, length) %s"
                         % (cid, {k_: st_[k_] for k_ in exp} if st_ else (sc[0]["raw"][:80] if sc else None), want_matches), cid, cmds, lines, kind=kind)
                else:
                    stats["agree"] += 1
            else:
                stats["agree"] += 1
        main.add(cid, cmds, post)

    for fi, (name, rx_, ast, plants, nonmember) in enumerate(FAMS):
        verdict = {}
        for ti, T in enumerate(WIN):
            ml = mout[fi * len(WIN) + ti] if fi * len(WIN) + ti < len(mout) else ""
            mm_ = re.match(r"size=(\d+) fits=(\w+) ok=(\w+) wf=(\w+)", ml)
            if not mm_ or mm_.group(4) != "true":
                chk.violation("model", "model runner does not answer reemit: %r" % ml[:100], {}, found_input=False)
                break
            verdict[T] = (mm_.group(2) == "true", ml)
            if mm_.group(2) != mm_.group(3):
                chk.violation("model:resize", "%s, size(e) = %d: the distance tests regenerated from re.c decide %s, the 16-bit fields need %s (limit_exact_re_size)"
                              % (name, T, mm_.group(3), mm_.group(2)), {"model": ml, "family": name}, found_input=False)
                break
        acc = [T for T in WIN if verdict.get(T, (False,))[0]]
        if not verdict or not acc or len(acc) == len(WIN) or acc != list(range(WIN[0], acc[-1] + 1)):
            chk.violation("model:resize", "%s: no single boundary inside the window of sizes %d..%d" % (name, WIN[0], WIN[-1]), {"family": name}, found_input=False)
            continue
        Tb = acc[-1]
        resize_bound[name] = Tb
        for T in [Tb - 1, Tb, Tb + 1, Tb + 300] + ([2 * Tb] if quick and fi % 3 == 0 or not quick else []):
            text, member, east = E_of(T)
            buf, want = b"##", []
            for pl in plants:
                w_ = pl.replace("M", member).encode()
                want.append((len(buf), len(w_)))
                buf += w_ + b"##"
            buf += nonmember.encode() + b"##"
            wa = verdict[T][0] if T in verdict else False
            resize_case(name, "resize_%s_%d" % (name, T), "rule a { strings: $a = /%s/ condition: $a }" % (rx_ % text), buf, wa, want,
                        verdict[T][1] if T in verdict else "beyond the window: reject", (name, T - Tb if abs(T - Tb) <= 1 else "far"))
    # hex strings with alternatives: the same ALT emit site through the hex parser (a byte is 2 bytes of code).  A hex string this
    # long never matches its long branch (matching is bounded); the short second branch is reached through the split offset under test
    hq = {}
    for n in range(16370, 16390):
        hq[n] = "reemit ( cat lit ( cat ( alt ( rep %d lit ) ( rep 2 lit ) ) lit ) )" % n
    hout, _ = vlib.run_lines(model, [hq[n] for n in sorted(hq)], timeout=300)
    hver = {n: l.startswith("size=") and " fits=true" in l for n, l in zip(sorted(hq), hout)}
    hacc = [n for n in sorted(hver) if hver[n]]
    if hacc and len(hacc) < len(hver):
        nb = hacc[-1]
        resize_bound["hex_alt_first"] = 2 * nb
        for n in (nb - 1, nb, nb + 1, nb + 200):
            buf = b"##K" + b"A" * n + b"Q##KXYQ##KXQ"
            resize_case("hex_alt_first", "resize_hex_%d" % n, "rule a { strings: $a = { 4B ( %s| 58 59 ) 51 } condition: $a }" % ("41 " * n), buf,
                        hver.get(n, False), [(n + 6, 4)], hout[sorted(hq).index(n)] if n in hq else "beyond the window", ("hex", n - nb if abs(n - nb) <= 1 else "far"))
    else:
        chk.violation("model:resize", "hex alternative: no boundary in 16370..16389", {}, found_input=False)
    # base64: the three encodings become ((A|B)|C); the outer first branch holds two of them
    import base64 as _b64

    def b64_alts(sb):
        """lengths and leading trims of the three alternatives yara searches for (plaintext preceded by 0, 1, 2 unknown bytes)"""
        out_ = []
        for i_ in range(3):
            enc = _b64.b64encode(b"\0" * i_ + sb)
            lead = [0, 2, 3][i_]
            trail = [0, 3, 2][(len(sb) + i_) % 3]
            out_.append((len(enc) - lead - trail, lead))
        return out_

    def b64_plain(n):
        return ("Qz7" * (n // 3 + 1))[:n]
    bwin = list(range(6100, 6180))
    bqs = []
    for n in bwin:
        (la, _), (lb, _), (lc, _) = b64_alts(b64_plain(n).encode())
        bqs.append("reemit ( alt ( alt ( rep %d lit ) ( rep %d lit ) ) ( rep %d lit ) )" % (la, lb, lc))
    bout, _ = vlib.run_lines(model, bqs, timeout=300)
    bver = {n: " fits=true" in l for n, l in zip(bwin, bout)}
    bacc = [n for n in bwin if bver[n]]
    brej = [n for n in bwin if not bver[n]]
    if bacc and brej:
        resize_bound["base64_outer_alt"] = bacc[-1]
        pick = sorted(set([bacc[-1] - 1, bacc[-1], brej[0], brej[0] + 1, brej[-1]] + [n for n in bwin if min(brej) - 3 <= n <= max(bacc) + 3][:8]))
        for n in pick:
            if n not in bver:
                continue
            sb = b64_plain(n).encode()
            buf, want = b"##", []
            for i_ in range(3):
                enc = _b64.b64encode(bytes([33 + i_]) * i_ + sb + b"!!!")       # followed by other bytes: only the trimmed part is fixed
                ln, lead = b64_alts(sb)[i_]
                want.append((len(buf) + lead, ln))
                buf += enc + b"##"
            # matches are bounded by YR_RE_SCAN_LIMIT bytes: alternatives of 8 KB can never match, so only the verdict and a clean scan are checked
            resize_case("base64", "resize_b64_%d" % n, 'rule a { strings: $a = "%s" base64 condition: $a }' % sb.decode(), buf, bver[n], None,
                        bout[bwin.index(n)], ("b64", n % 3, bver[n]))
    else:
        chk.violation("model:resize", "base64: no boundary in the window", {}, found_input=False)
    chk.note(re_size_boundaries_bytes_of_code=resize_bound)

    # ================================================================ evaluation stack: every setting around the exact need of a rule,
    # the deepest point reached inside each kind of iterator, in the ASan build (a store one slot past the stack buffer is a
    # heap-buffer-overflow report).  Per (rule, stack size): the scan succeeds with the verdicts of the default stack size, or
    # returns ERROR_EXEC_STACK_OVERFLOW; never a sanitizer report / crash; overflow is monotone in the size (exact threshold).
    SO = K["ERROR_EXEC_STACK_OVERFLOW"]
    many = " ".join('$m%d = "zz%03d"' % (i, i) for i in range(70))
    KINDS = [  # (name, imports/strings prefix, loop header with %s = body, innermost body)
        ("dict_struct", "", "for any k, v in tests.struct_dict : ( %s )", 'v.i == 1 and k == "foo"'),
        ("dict_string", "", "for any k, v in tests.string_dict : ( %s )", 'v == "foo"'),
        ("dict_int", "", "for all k, v in tests.integer_dict : ( %s )", "v >= 0"),
        ("dict_empty", "", "for any k, v in tests.empty_struct_dict : ( %s )", "v.unused == 1"),
        ("array_int", "", "for any x in tests.integer_array : ( %s )", "x == 2"),
        ("array_struct", "", "for any x in tests.struct_array : ( %s )", "x.i == 1"),
        ("range", "", "for any i in (0..3) : ( %s )", "i == 2"),
        ("int_list", "", "for any i in (1, 2, 3) : ( %s )", "i == 2"),
        ("str_list", "", 'for any s in ("a", "b") : ( %s )', 's == "b"'),
        ("str_set", 'strings: $a = "ab" $b = "cd" ', "for any of them : ( %s )", "# > 0"),
        ("str_set2", 'strings: $a = "ab" $b = "cd" ', "for all of ($a, $b) : ( %s )", "$ at 0 or @ > 0"),
    ]
    PLAIN = [
        ("call2", "", "tests.isum(1, 2) == 3"), ("call3", "", "tests.isum(1, 2, 3) == 6"), ("call1", "", 'tests.length("abc") == 3'),
        ("of_many", "strings: %s " % many, "1 of them"), ("of_many_n", "strings: %s " % many, "69 of ($m*)"),
    ]
    OUTER = ["for any o1 in (0..1) : ( %s )", "for any o2, w2 in tests.struct_dict : ( %s )", "for any o3 in tests.integer_array : ( %s )"]

    def under(n, e):
        return "(filesize >= 0 and " * n + e + ")" * n

    iter_rules = []    # (id, source, N)
    kinds_q = KINDS if not quick else KINDS
    for name, pre, head, body in kinds_q:
        for N in ([0, 1, 5, 200] if name in ("dict_struct", "array_int", "range", "str_set") or not quick else [0, 5]):
            iter_rules.append(("%s_d1_n%d" % (name, N), 'import "tests" rule a { %scondition: %s }' % (pre, under(N, head % body)), N))
        for depth in ([2, 3, 4] if name in ("dict_struct", "dict_string", "array_int", "str_set") or not quick else [2]):
            e = head % body
            for o in range(depth - 1):
                e = OUTER[(o + len(name)) % 3] % e
            if "strings:" in pre and depth == 4:
                continue       # four loops + string identifiers: keep within YR_MAX_LOOP_NESTING with plain outer loops only
            iter_rules.append(("%s_d%d_n0" % (name, depth), 'import "tests" rule a { %scondition: %s }' % (pre, e), 0))
            if name.startswith("dict") and depth in (2, 4):
                iter_rules.append(("%s_d%d_n5" % (name, depth), 'import "tests" rule a { %scondition: %s }' % (pre, under(5, e)), 5))
    for name, pre, cond in PLAIN:
        for N in ([0, 5] if quick else [0, 1, 5, 200]):
            iter_rules.append(("%s_n%d" % (name, N), 'import "tests" rule a { %scondition: %s }' % (pre, under(N, cond)), N))
        arith = "1 + (" * 5 + "tests.isum(1, 2)" + ")" * 5 + " == 8"
    iter_rules.append(("call_arith5", 'import "tests" rule a { condition: %s }' % arith, 5))
    if not quick:
        pe = os.path.join(build.REPO, "tests", "data", "tiny")
        if os.path.exists(pe):
            iter_rules.append(("pe_version_info", 'import "pe" rule a { condition: for any k, v in pe.version_info : ( k == "x" ) or filesize > 0 }', 0))
    vm_thresholds = {}
    asan_run = Runner(hasan or h, alarm=300)
    for rid, src, N in iter_rules:
        sizes = sorted(set(list(range(1, 41)) + list(range(max(1, N - 2), N + 46)) + ([70 + i for i in range(0, 12)] if "of_many" in rid else [])
                           + ([N + 70 + i for i in range(0, 8)] if "of_many" in rid else [])))
        cid = "vmiter_" + rid
        data = "buf " + R("ab cd zz001 zz069")
        if rid == "pe_version_info":
            data = "buf " + hx(open(os.path.join(build.REPO, "tests", "data", "tiny"), "rb").read())
        cmds = ["newcompiler", "add " + R(src), "getrules", data, "scan 0 0 0"]
        for S in sizes:
            cmds += ["cfg stack %d" % S, "scan 0 0 0"]
        cmds += ["destroy"] + RESET + ["smoke"]

        def post(lines, ans, cid=cid, cmds=cmds, sizes=sizes, src=src, N=N, rid=rid):
            count("vmiter", (rid.split("_d")[0].split("_n")[0], N, rid))
            sc = scans(lines)
            comp = compile_result(lines)
            if comp[0]:
                viol("vmiter", "%s: scenario error, the rule does not compile: %s" % (cid, comp[2][:1]), cid, cmds, lines, found=False)
                return
            c = crashed(lines)
            done = len(sc) - 1          # scans completed after the reference scan
            if c or len(sc) != len(sizes) + 1:
                S = sizes[done] if 0 <= done < len(sizes) else None
                rep_ = [l for l in (asan_run.err or "").split("\n") if "AddressSanitizer" in l or "WRITE of size" in l or "READ of size" in l
                        or re.match(r"\s+#[0-3] ", l)][:8]
                short = ["cfg stack %d" % S if S else "", "newcompiler", "add " + R(src), "getrules", cmds[3], "scan 0 0 0"]
                viol("vmiter:memory", "%s: with YR_CONFIG_STACK_SIZE = %s the scan of `%s` does not return an error but dies (%s)%s: the evaluation-stack limit is "
                     "not reported as ERROR_EXEC_STACK_OVERFLOW" % (cid, S, src[:160], c or "no output", "; sanitizer: " + " | ".join(x.strip() for x in rep_[:3]) if rep_ else ""),
                     cid, short, lines[-6:], stack_size=S, sanitizer_report=rep_, rule=src)
                return
            ref = sc[0]
            if ref.get("rc") != 0:
                viol("vmiter", "%s: scenario error, the scan with the default stack size fails: %s" % (cid, ref["raw"][:100]), cid, cmds, lines, found=False)
                return
            rcs = [x.get("rc") for x in sc[1:]]
            bad = [(S, x.get("rc"), x["raw"][:60]) for S, x in zip(sizes, sc[1:])
                   if x.get("rc") not in (0, SO) or (x.get("rc") == 0 and x["rules"] != ref["rules"])]
            okS = [S for S, r_ in zip(sizes, rcs) if r_ == 0]
            thr = min(okS) if okS else None
            nonmono = [S for S, r_ in zip(sizes, rcs) if r_ == SO and thr is not None and S > thr]
            vm_thresholds[rid] = thr
            short = lambda S: ["cfg stack %d" % S] + cmds[:5]
            if bad:
                viol("vmiter", "%s: stack size %d: rc=%s %s -- neither the verdict of the default stack size (%s) nor ERROR_EXEC_STACK_OVERFLOW"
                     % (cid, bad[0][0], bad[0][1], bad[0][2], {k: v[0] for k, v in ref["rules"].items()}), cid, short(bad[0][0]), lines[:3], rule=src)
            elif nonmono or thr is None:
                viol("vmiter", "%s: the stack limit is not monotone: size %s succeeds but %s overflow(s); rc by size %s"
                     % (cid, thr, nonmono[:5], list(zip(sizes, rcs))[:60]), cid, short(nonmono[0] if nonmono else sizes[-1]), lines[:3], rule=src)
            else:
                stats["agree"] += 1
        asan_run.add(cid, cmds, post)
    truns.append(asan_run)

    # ---- block phase: data delivered in blocks through the mem_blocks entry points.  The clock-read guard is a function of the
    # offset inside the CURRENT block, so every block size must still reach the deadline test (every_block_reads_clock).
    # Model side: the extracted guard evaluated at the offsets that decide it; implementation: an iterator whose `next` sleeps
    # 1 ms per block (5000 blocks: the block phase alone takes 5 s), timeout 1 s, block sizes around the 4096 spacing.
    offs = [0, 1, 4095, 4096, 4097, 8191, 8192]
    cl, _ = vlib.run_lines(model, ["lim clock %d" % i_ for i_ in offs], timeout=120)
    reads = {i_: (a_ == "read") for i_, a_ in zip(offs, cl)}
    bsizes = [64, 1024, 4095, 4096, 4097, 8192, 65536, 1048576]
    blind = [sz for sz in bsizes if not any(reads.get(i_) for i_ in offs if i_ < sz)]
    if blind:
        chk.violation("model:block_clock", "the guard of the block loop's clock read as the source has it now never holds inside a block of %s bytes "
                      "(every_block_reads_clock); offsets that read the clock: %s" % (blind, [i_ for i_ in offs if reads.get(i_)]), {"blind_block_sizes": blind},
                      found_input=False)
    bruns = []
    for sz in bsizes:
        for api in ("rules", "scanner"):
            cid = "t_blocks_%s_%d" % (api, sz)
            cmds = ["newcompiler", "add " + R('rule a { strings: $a = "zzzq" condition: $a or filesize >= 0 }'), "getrules", "blocks %d 5000 1000" % sz]
            cmds += (["scanner", "stimeout 1", "bscan"] if api == "scanner" else ["rbscan 1"]) + ["destroy", "smoke"]
            r_ = Runner(h, alarm=12)

            def post(lines, ans, cid=cid, cmds=cmds, sz=sz, api=api):
                count("blocks", (api, sz))
                c = crashed(lines)
                sc = scans(lines)
                if c and not sc:
                    viol("deadline:blocks", "%s: 5000 blocks of %d bytes, 1 ms apart, timeout 1 s (%s API): %s" % (cid, sz, api, c), cid, cmds[:-2], lines, block_size=sz)
                    return
                if not usable(cid, cmds, lines, "blocks"):
                    return
                rc, ms = (sc[0].get("rc"), sc[0].get("ms")) if sc else (None, None)
                if rc != TO or not (980 <= ms <= 1600):
                    viol("deadline:blocks", "%s: data delivered in 5000 blocks of %d bytes, 1 ms apart (block phase 5 s), timeout 1 s (%s API): rc=%s after %s ms; "
                         "expected ERROR_SCAN_TIMEOUT between 980 and 1600 ms -- the clock is not looked at while blocks of this size are scanned"
                         % (cid, sz, api, rc, ms), cid, cmds[:-2], lines, block_size=sz)
                else:
                    delays[cid] = {"timeout_ms": 1000, "elapsed_ms": ms, "delay_ms": ms - 1000, "bound_ms": 1600, "rc": rc}
                    stats["agree"] += 1
            r_.add(cid, cmds, post)
            bruns.append(r_)

    # ---- the VM's deadline test and the instruction that follows it: the test fires on the 100th, 200th, ... instruction, so which
    # instruction comes next depends on the length of the loop in VM instructions and on how many instructions the preceding
    # rules contribute.  P padding rules (3 or 4 instructions each) in front of one endless loop rule of several shapes (plain:
    # 10 instructions per iteration; `matches` in the body; a module call in the body; nested) and a last rule `always`:
    # every variant must return ERROR_SCAN_TIMEOUT within the bound -- never run on, never return ERROR_SUCCESS.
    NBIG = 1 << 40
    SHAPES = [
        ("plain", "", "for all i in (0..%d) : ( true )" % NBIG),
        ("matches", "", 'for all i in (0..%d) : ( "abcabc" matches /abc/ and i >= 0 )' % NBIG),
        ("matches2", "", 'for all i in (0..%d) : ( "abcabc" matches /a.c/ and i >= 0 and i + 1 > 0 and "xyz" matches /y/ )' % NBIG),
        ("call", 'import "math" ', "for all i in (0..%d) : ( math.abs(i) >= 0 )" % NBIG),
    ]
    if not quick:
        SHAPES += [("nested", "", "for all i in (0..%d) : ( for all j in (0..%d) : ( i + j >= 0 ) )" % (NBIG, NBIG)),
                   ("call2", 'import "math" ', "for all i in (0..%d) : ( math.max(i, 3) >= 0 and math.to_number(true) == 1 )" % NBIG),
                   ("strset", "", "for all i in (0..%d) : ( for any s in (\"a\", \"b\") : ( s == \"b\" ) )" % NBIG)]
    pruns = []
    for sname, imp, loop in SHAPES:
        for P in range(25 if quick else 50):
            pads = "".join("rule p%d { condition: %s } " % (k_, "true" if (k_ % 4) else "not true") for k_ in range(P))
            src = imp + pads + "rule L { condition: %s } rule always { condition: true }" % loop
            api = "scanner" if P % 2 else "rules"
            cid = "t_phase_%s_p%d" % (sname, P)
            cmds = ["newcompiler", "add " + R(src), "getrules", "buf " + R("0123456789")]
            cmds += (["scanner", "stimeout 1", "sscan 0 0"] if api == "scanner" else ["scan 1 0 0"]) + ["destroy", "smoke"]
            r_ = Runner(h, alarm=6)

            def post(lines, ans, cid=cid, cmds=cmds, sname=sname, P=P, api=api):
                count("phase", (sname, P))
                c = crashed(lines)
                sc = scans(lines)
                if c and "sig=14" in c and not sc:
                    viol("deadline:phase", "%s: an endless `%s` loop after %d padding rules, timeout 1 s (%s API): still running 6 s later -- the scan never times out"
                         % (cid, sname, P, api), cid, cmds[:-2], lines, padding_rules=P, shape=sname)
                    return
                if not usable(cid, cmds, lines, "phase"):
                    return
                rc = sc[0].get("rc") if sc else None
                if rc == 0:
                    viol("deadline:phase", "%s: an endless `%s` loop after %d padding rules, timeout 1 s (%s API): the scan returns ERROR_SUCCESS after %s ms "
                         "(%d rules reported; the last rule `always` %s)" % (cid, sname, P, api, sc[0].get("ms"), len(sc[0]["rules"]),
                                                                              "matches" if sc[0]["rules"].get("always", ("",))[0] == "M" else "is not reported as matching"),
                         cid, cmds[:-2], lines, padding_rules=P, shape=sname)
                elif rc != TO or not (980 <= sc[0]["ms"] <= 1600):
                    viol("deadline:phase", "%s: an endless `%s` loop after %d padding rules, timeout 1 s (%s API): rc=%s after %s ms, expected ERROR_SCAN_TIMEOUT "
                         "between 980 and 1600 ms" % (cid, sname, P, api, rc, sc[0].get("ms") if sc else None), cid, cmds[:-2], lines, padding_rules=P, shape=sname)
                else:
                    stats["agree"] += 1
            r_.add(cid, cmds, post)
            pruns.append(r_)

    threads = [threading.Thread(target=r.run) for r in truns]
    par = 8
    t0 = time.time()
    for i in range(0, len(threads), par):
        for t in threads[i:i + par]:
            t.start()
        if i == 0:
            main.run()
            _t(chk, "main_harness", t0)
        for t in threads[i:i + par]:
            t.join()
    chk.note(harness_wall_s=round(time.time() - t0, 1))
    tp0 = time.time()
    pth = [threading.Thread(target=r.run) for r in bruns + pruns]
    for i in range(0, len(pth), 16):
        for t in pth[i:i + 16]:
            t.start()
        for t in pth[i:i + 16]:
            t.join()
    _t(chk, "phase_timeouts", tp0)
    tm = time.time()

    # ================================================================ model answers, then all comparisons
    # spacing facts, checked on the extracted functions as well (the theorem is about these)
    kq = ask("lim consts")
    KB, VC = K_block(model), K_block(model, "vm_check_cycles")
    cq = [ask("lim clock %d" % i) for i in (0, 1, KB - 1, KB, 2 * KB, 3 * KB - 1)]
    vq = [ask("lim vmreads %d 0" % VC), ask("lim vmreads %d 0" % (VC - 1))]
    ans, merr = vlib.run_lines(model, [q for q in mq], timeout=1200)
    _t(chk, "model_queries", tm)
    if len(ans) < len(mq) or any(a.startswith(("unknown", "exception", "usage")) for a in ans[:len(mq)]):
        bad = [(q, a) for q, a in zip(mq, ans) if a.startswith(("unknown", "exception", "usage"))][:3]
        chk.violation("model", "model runner does not answer: %s" % bad, {"stderr": merr[-500:]}, found_input=False)
        return
    for r in [main] + truns + bruns + pruns:
        for cid, (cmds, post) in r.post.items():
            lines = r.out.get(cid)
            if lines is None:
                chk.violation("harness", "case %s produced no output" % cid, {"case": cid}, found_input=False)
                continue
            post(lines, ans)
    if [ans[i] for i in cq] != ["read", "skip", "skip", "read", "read", "skip"] or [ans[i] for i in vq] != ["read", "none"]:
        chk.violation("model:spacing", "extracted spacing functions: clock %s vm %s" % ([ans[i] for i in cq], [ans[i] for i in vq]), {}, found_input=False)
    # loops under small stacks: once the stack is large enough it stays large enough
    seq = [loop_rc.get(S) for S in range(1, 13)]
    if any(seq[i] == 0 and seq[i + 1] not in (0, None) for i in range(len(seq) - 1)) or seq[-1] != 0:
        chk.violation("corr:vmloop", "loops under stack sizes 1..12 give rc %s: not monotone" % seq, {"rc_by_stack_size": seq}, found_input=True)
    # thresholds: N enclosing operands cost the same number of slots whatever the construct below them is
    deltas = {}
    for rid, thr in vm_thresholds.items():
        m_ = re.match(r"(.*)_n(\d+)$", rid)
        base = vm_thresholds.get(m_.group(1) + "_n0") if m_ else None
        if m_ and thr is not None and base is not None and int(m_.group(2)) > 0:
            deltas.setdefault(int(m_.group(2)), {})[m_.group(1)] = thr - base
    for N_, d_ in deltas.items():
        if len(set(d_.values())) > 1:
            chk.violation("vmiter:threshold", "the smallest sufficient stack size under %d enclosing operands grows by different amounts for different constructs: %s" % (N_, d_),
                          {"thresholds": vm_thresholds}, found_input=False)
    chk.note(vm_stack_thresholds=vm_thresholds, vm_stack_threshold_growth_per_enclosing_operands={str(k): sorted(set(v.values())) for k, v in deltas.items()},
             vm_iter_variant="asan" if hasan else "plain")
    chk.note(evaluations=stats["cases"], distinct_nontrivial=len(nontriv), traces_validated_against_impl=stats["agree"], case_kinds=stats["kinds"],
             timeout_delays=delays, model_constants=ans[kq], max_nested_counted_repeats_compiled=maxdepth["ok"],
             slow_warning_only_for_string_index_0={"a_at_index_1_warned": obs.get("ba"), "a_at_index_0_warned": obs.get("ab"),
                                                   "note": "replay of slow_warning_per_string_refuted: 700000 matches of $a are reported as slow only when $a is the first string of the rule set"},
             fiber_calibration={"%s%d" % k: v for k, v in fmeas.items()},
             rule="per limit L (value from gen/GenConsts.v): L-1, L, L+1, 10L; configurable limits: tiny, default, huge and PRNG settings with the same four points; "
                  "match cap with the three callback answers; A+B scenarios with B's matches planted before and after the point where A is disabled; "
                  "timeouts with a bound computed from the measured unit cost; every case ends with a normal compile+scan in the same process. "
                  "distinct = (limit, side of the limit / distance to it, setting class, callback answer)")
    for cid in ("matches%d_0" % (L + 1), "vmstack4_5", "fibersB_%d" % FL, "t_hash"):
        if cid in main.out:
            chk.sample({"case": cid, "output": [l[:200] for l in main.out[cid]][:6]})
    for r in truns[:2]:
        for cid in r.out:
            chk.sample({"case": cid, "output": [l[:200] for l in r.out[cid]][:8]})
    chk.assumptions += [
        "uint32 wrap-around of stack.sp / strings_in_rule is not modelled (sp <= capacity < 2^32 by the proved invariant)",
        "malloc is an oracle: huge settings of the configurable limits are expected to give ERROR_INSUFFICIENT_MEMORY or to work",
        "timeouts: the model bounds the work between two clock reads (4096 bytes / 100 instructions); the wall-clock bound uses a unit cost measured in the same run (partial)",
        "RE_MAX_STACK has no test in the code; nests of counted repeats are explored (depth 1..12), only the arithmetic core is proved",
        "fiber demand of the regexp family is calibrated on three small instances per run and extrapolated linearly",
    ]


def gen_defaults():
    txt = open(os.path.join(vlib.COQ, "gen", "GenLimits.v")).read()
    return {m.group(1): int(m.group(2)) for m in re.finditer(r"^Definition (cfg_default_\w+) : Z := \((\d+)\)%Z", txt, re.M)}


def replay(chk, path):
    """bin/check C15 --replay <file>: run the recorded case again and print what the implementation does now"""
    import json
    rep = json.load(open(path))["replay"]
    if not rep.get("replayable") or "commands" not in rep:
        print("replay file has no complete command list (proof/translator violation or very large case): " + str(rep.get("case")))
        return 1
    h = build.harness("h_limits")
    out, err = vlib.run_cases(h, [(rep["case"], rep["commands"])], args=["120"])
    for l in out.get(rep["case"], []):
        print(l[:500])
    print("recorded:")
    for l in rep.get("output", []):
        print("  " + l[:500])
    return 0


_KB = {}


def K_block(model, name="block_check_modulus"):
    if not _KB:
        lines, _ = vlib.run_lines(model, ["lim consts"])
        _KB.update({k: int(v) for k, v in (x.split("=") for x in lines[0].split())})
    return _KB[name]
