"""C06: structure-aware mutation of .NET metadata (the #~ tables and the #Blob heap) and of the other recursive / linked
structures the module parsers walk.  The mutants create CYCLES and DEEP CHAINS: TypeSpec signatures that name TypeSpecs
(self, 2-cycle, chain through every row), signatures nested past MAX_TYPE_DEPTH (SZARRAY / PTR / BYREF / ARRAY / GENERICINST),
huge generic-argument and parameter counts, NestedClass cycles, TypeDef.Extends / InterfaceImpl pointing at the cyclic
TypeSpecs so that they are resolved, stream headers pointing into each other."""
import struct

# ECMA-335 II.22: columns of the metadata tables.  2/4: fixed width; S G B: heap index; ("t", n): index of table n;
# ("c", name): coded index
CODED = {
    "TypeDefOrRef": (2, [0x02, 0x01, 0x1B]), "HasConstant": (2, [0x04, 0x08, 0x17]),
    "HasCustomAttribute": (5, [0x06, 0x04, 0x01, 0x02, 0x08, 0x09, 0x0A, 0x00, 0x0E, 0x17, 0x14, 0x11, 0x1A, 0x1B, 0x20, 0x23, 0x26, 0x27, 0x28,
                               0x2A, 0x2C, 0x2B]),
    "HasFieldMarshal": (1, [0x04, 0x08]), "HasDeclSecurity": (2, [0x02, 0x06, 0x20]), "MemberRefParent": (3, [0x02, 0x01, 0x1A, 0x06, 0x1B]),
    "HasSemantics": (1, [0x14, 0x17]), "MethodDefOrRef": (1, [0x06, 0x0A]), "MemberForwarded": (1, [0x04, 0x06]),
    "Implementation": (2, [0x26, 0x23, 0x27]), "CustomAttributeType": (3, [0x06, 0x0A]), "ResolutionScope": (2, [0x00, 0x1A, 0x23, 0x01]),
    "TypeOrMethodDef": (1, [0x02, 0x06]),
}
C = lambda n: ("c", n)
T = lambda n: ("t", n)
TABLES = {
    0x00: [2, "S", "G", "G", "G"], 0x01: [C("ResolutionScope"), "S", "S"], 0x02: [4, "S", "S", C("TypeDefOrRef"), T(0x04), T(0x06)],
    0x03: [T(0x04)], 0x04: [2, "S", "B"], 0x05: [T(0x06)], 0x06: [4, 2, 2, "S", "B", T(0x08)], 0x07: [T(0x08)], 0x08: [2, 2, "S"],
    0x09: [T(0x02), C("TypeDefOrRef")], 0x0A: [C("MemberRefParent"), "S", "B"], 0x0B: [2, C("HasConstant"), "B"],
    0x0C: [C("HasCustomAttribute"), C("CustomAttributeType"), "B"], 0x0D: [C("HasFieldMarshal"), "B"], 0x0E: [2, C("HasDeclSecurity"), "B"],
    0x0F: [2, 4, T(0x02)], 0x10: [4, T(0x04)], 0x11: ["B"], 0x12: [T(0x02), T(0x14)], 0x13: [T(0x14)], 0x14: [2, "S", C("TypeDefOrRef")],
    0x15: [T(0x02), T(0x17)], 0x16: [T(0x17)], 0x17: [2, "S", "B"], 0x18: [2, T(0x06), C("HasSemantics")],
    0x19: [T(0x02), C("MethodDefOrRef"), C("MethodDefOrRef")], 0x1A: ["S"], 0x1B: ["B"], 0x1C: [2, C("MemberForwarded"), "S", T(0x1A)],
    0x1D: [4, T(0x04)], 0x1E: [4, 4], 0x1F: [4], 0x20: [4, 2, 2, 2, 2, 4, "B", "S", "S"], 0x21: [4], 0x22: [4, 4, 4],
    0x23: [2, 2, 2, 2, 4, "B", "S", "S", "B"], 0x24: [4, T(0x23)], 0x25: [4, 4, 4, T(0x23)], 0x26: [4, "S", "B"],
    0x27: [4, 4, "S", "S", C("Implementation")], 0x28: [4, 4, "S", C("Implementation")], 0x29: [T(0x02), T(0x02)],
    0x2A: [2, 2, C("TypeOrMethodDef"), "S"], 0x2B: [C("MethodDefOrRef"), "B"], 0x2C: [T(0x2A), C("TypeDefOrRef")],
}
TYPEDEF, INTERFACEIMPL, METHODDEF, FIELD, MEMBERREF, TYPESPEC, NESTEDCLASS, GENERICPARAM, STANDALONESIG, PROPERTY, MRES = \
    0x02, 0x09, 0x06, 0x04, 0x0A, 0x1B, 0x29, 0x2A, 0x11, 0x17, 0x28


def u16(b, o):
    return struct.unpack_from("<H", b, o)[0]


def u32(b, o):
    return struct.unpack_from("<I", b, o)[0]


class Meta:
    """offsets of the CLR metadata of a PE file (None when it is not a .NET file this parser understands)"""

    def __init__(self, b, r2o, cli_rva):
        """r2o: rva -> file offset or None; cli_rva: VirtualAddress of data directory 14"""
        self.ok = False
        self.b = b
        try:
            self._parse(b, r2o, cli_rva)
        except (struct.error, IndexError, KeyError, TypeError):
            self.ok = False

    def _parse(self, b, r2o, cli_rva):
        cli = r2o(cli_rva) if cli_rva else None
        if cli is None:
            return
        self.cli = cli
        md = r2o(u32(b, cli + 8))
        if md is None or b[md:md + 4] != b"BSJB":
            return
        self.md = md
        vl = u32(b, md + 12)
        so = md + 16 + vl + 4
        n = u16(b, so - 2)
        self.streams = {}
        self.stream_hdrs = []
        for _ in range(min(n, 16)):
            off, sz = u32(b, so), u32(b, so + 4)
            e = b.index(b"\0", so + 8)
            name = b[so + 8:e].decode("latin-1")
            self.streams[name] = (md + off, sz)
            self.stream_hdrs.append((name, so))
            so = (e + 1 + 3) & ~3
        t = self.streams.get("#~") or self.streams.get("#-")
        if not t or "#Blob" not in self.streams:
            return
        to = t[0]
        heaps = b[to + 6]
        valid = struct.unpack_from("<Q", b, to + 8)[0]
        self.rows = {}
        p = to + 24
        for i in range(64):
            if valid >> i & 1:
                self.rows[i] = u32(b, p)
                p += 4
        if any(i not in TABLES for i in self.rows):
            return
        hs = {"S": 4 if heaps & 1 else 2, "G": 4 if heaps & 2 else 2, "B": 4 if heaps & 4 else 2}

        def width(col):
            if isinstance(col, int):
                return col
            if col in hs:
                return hs[col]
            if col[0] == "t":
                return 4 if self.rows.get(col[1], 0) >= 1 << 16 else 2
            bits, tabs = CODED[col[1]]
            mx = max(self.rows.get(t_, 0) for t_ in tabs)
            return 4 if mx >= 1 << (16 - bits) else 2
        self.cols = {}
        self.rowsize = {}
        self.tstart = {}
        for i in sorted(self.rows):
            ws = [width(c) for c in TABLES[i]]
            offs = [sum(ws[:k]) for k in range(len(ws))]
            self.cols[i] = list(zip(offs, ws))
            self.rowsize[i] = sum(ws)
            self.tstart[i] = p
            p += self.rowsize[i] * self.rows[i]
        if p > len(b):
            return
        self.blob = self.streams["#Blob"]
        self.ok = True

    def cell(self, table, row, col):
        """(file offset, width) of a column of a 1-based row"""
        o, w = self.cols[table][col]
        return self.tstart[table] + self.rowsize[table] * (row - 1) + o, w

    def get(self, table, row, col):
        o, w = self.cell(table, row, col)
        return u16(self.b, o) if w == 2 else u32(self.b, o)

    def set(self, table, row, col, v):
        o, w = self.cell(table, row, col)
        return "patch %d %s" % (o, struct.pack("<H" if w == 2 else "<I", v & ((1 << 8 * w) - 1)).hex())

    def coded(self, name, table, row):
        bits, tabs = CODED[name]
        return (row << bits) | tabs.index(table)


def compressed(n):
    if n < 0x80:
        return bytes([n])
    if n < 0x4000:
        return struct.pack(">H", 0x8000 | n)
    return struct.pack(">I", 0xC0000000 | (n & 0x1FFFFFFF))


def blob(content):
    return compressed(len(content)) + content


def dotnet_cases(name, b, r2o, cli_rva, rng, quick):
    """[(description, [harness commands])] for one .NET sample"""
    m = Meta(b, r2o, cli_rva)
    if not m.ok:
        return []
    out = []
    bo, bsz = m.blob
    nspec = m.rows.get(TYPESPEC, 0)
    ntd = m.rows.get(TYPEDEF, 0)
    CLASS, VALUETYPE, SZARRAY, PTR, BYREF, ARRAY, GENERICINST, I4, VAR, MVAR, FNPTR, CMOD_REQD, PINNED = \
        0x12, 0x11, 0x1D, 0x0F, 0x10, 0x14, 0x15, 0x08, 0x13, 0x1E, 0x1B, 0x1F, 0x45
    # room for crafted blobs: the tail of the #Blob heap (what lived there becomes garbage: that is part of the mutation)
    area = min(bsz // 2, 0x3000)
    area_off = bsz - area
    if area < 64:
        return []

    class Heap:
        def __init__(self):
            self.pos = area_off
            self.cmds = []

        def put(self, content):
            bl = blob(content)
            if self.pos + len(bl) > bsz:
                return None
            idx = self.pos
            self.cmds.append("patch %d %s" % (bo + idx, bl.hex()))
            self.pos += len(bl)
            return idx

    def spec_ref(r):
        return compressed(m.coded("TypeDefOrRef", TYPESPEC, r))

    def resolvers(h, spec_row, sig_idx=None):
        """make the metadata USE TypeSpec spec_row: as base type and interface of the first classes, in a method and a field signature"""
        cmds = []
        ref = m.coded("TypeDefOrRef", TYPESPEC, spec_row)
        for td in range(2, min(ntd, 5) + 1):
            cmds.append(m.set(TYPEDEF, td, 3, ref))
        for r in range(1, min(m.rows.get(INTERFACEIMPL, 0), 3) + 1):
            cmds.append(m.set(INTERFACEIMPL, r, 1, ref))
        msig = h.put(bytes([0x00, 0x02, CLASS]) + spec_ref(spec_row) + bytes([CLASS]) + spec_ref(spec_row) + bytes([SZARRAY, CLASS]) + spec_ref(spec_row))
        if msig is not None:
            for r in range(1, min(m.rows.get(METHODDEF, 0), 4) + 1):
                cmds.append(m.set(METHODDEF, r, 4, msig))
        fsig = h.put(bytes([0x06, CLASS]) + spec_ref(spec_row))
        if fsig is not None:
            for r in range(1, min(m.rows.get(FIELD, 0), 3) + 1):
                cmds.append(m.set(FIELD, r, 2, fsig))
        return cmds

    # ---- TypeSpec cycles and chains (need TypeSpec rows)
    if nspec >= 1:
        shapes = [("CLASS", lambda ref: bytes([CLASS]) + ref), ("VALUETYPE", lambda ref: bytes([VALUETYPE]) + ref),
                  ("SZARRAY CLASS", lambda ref: bytes([SZARRAY, CLASS]) + ref), ("PTR CLASS", lambda ref: bytes([PTR, CLASS]) + ref),
                  ("GENERICINST CLASS <self>", lambda ref: bytes([GENERICINST, CLASS]) + ref + bytes([1, CLASS]) + ref),
                  ("GENERICINST arg", lambda ref: bytes([GENERICINST, CLASS]) + compressed(m.coded("TypeDefOrRef", TYPEDEF, 2)) + bytes([2, I4, CLASS]) + ref),
                  ("ARRAY CLASS", lambda ref: bytes([ARRAY, CLASS]) + ref + bytes([1, 0, 0])), ("CMOD_REQD", lambda ref: bytes([CMOD_REQD]) + ref + bytes([CLASS]) + ref),
                  ("BYREF CLASS", lambda ref: bytes([BYREF, CLASS]) + ref), ("FNPTR", lambda ref: bytes([FNPTR, 0x00, 0x01, CLASS]) + ref + bytes([CLASS]) + ref)]
        for sname, mk in shapes:
            for cyc in sorted({1, 2, 3, nspec} & set(range(1, nspec + 1))):
                h = Heap()
                cmds = []
                okk = True
                for i in range(1, cyc + 1):
                    nxt = i % cyc + 1
                    idx = h.put(mk(spec_ref(nxt)))
                    if idx is None:
                        okk = False
                        break
                    cmds.append(m.set(TYPESPEC, i, 0, idx))
                if not okk:
                    continue
                cmds = h.cmds + cmds + resolvers(h, 1)
                out.append(("dotnet TypeSpec cycle of length %d: every signature is `%s TypeSpec#next`, rows 1..%d; TypeDef.Extends, "
                            "InterfaceImpl, method and field signatures refer to TypeSpec#1" % (cyc, sname, cyc), h.cmds + [c for c in cmds if c not in h.cmds]))
        # chain through all rows (no cycle): depth = number of rows
        h = Heap()
        cmds = []
        for i in range(1, nspec + 1):
            content = bytes([CLASS]) + spec_ref(i + 1) if i < nspec else bytes([I4])
            idx = h.put(content)
            if idx is None:
                break
            cmds.append(m.set(TYPESPEC, i, 0, idx))
        out.append(("dotnet TypeSpec chain through all %d rows (no cycle)" % nspec, h.cmds + cmds + resolvers(h, 1)))
        # one blob shared by every row: all TypeSpecs name TypeSpec#1
        h = Heap()
        idx = h.put(bytes([CLASS]) + spec_ref(1))
        if idx is not None:
            out.append(("dotnet: every TypeSpec row shares the signature `CLASS TypeSpec#1`",
                        h.cmds + [m.set(TYPESPEC, i, 0, idx) for i in range(1, min(nspec, 50) + 1)] + resolvers(h, 1)))
        # out-of-range rows in the coded index
        for target in (0, nspec + 1, 0x3fff, 0xffffff):
            h = Heap()
            idx = h.put(bytes([CLASS]) + compressed(m.coded("TypeDefOrRef", TYPESPEC, target)))
            if idx is not None:
                out.append(("dotnet TypeSpec#1 := `CLASS TypeSpec#%d` (row out of range)" % target, h.cmds + [m.set(TYPESPEC, 1, 0, idx)] + resolvers(h, 1)))
    # ---- signatures nested past MAX_TYPE_DEPTH inside one blob (no TypeSpec needed: method / field signatures)
    for depth in (5, 20, 100, 1000, 10000):
        for pname, prefix in (("SZARRAY", bytes([SZARRAY])), ("PTR", bytes([PTR])), ("BYREF", bytes([BYREF])), ("PINNED SZARRAY", bytes([PINNED, SZARRAY])),
                              ("ARRAY", None), ("GENERICINST", None), ("FNPTR", None)):
            if prefix is not None:
                body = prefix * depth + bytes([I4])
            elif pname == "ARRAY":
                body = bytes([ARRAY]) * depth + bytes([I4]) + bytes([1, 0, 0]) * depth
            elif pname == "GENERICINST":
                td = compressed(m.coded("TypeDefOrRef", TYPEDEF, min(2, max(ntd, 1))))
                body = (bytes([GENERICINST, CLASS]) + td + bytes([1])) * depth + bytes([I4])
            else:
                body = bytes([FNPTR, 0x00, 0x00]) * depth + bytes([I4])
            if len(body) + 8 > area:
                continue
            h = Heap()
            cmds = []
            msig = h.put(bytes([0x00, 0x01]) + body + body[:min(len(body), 600)])
            fsig = h.put(bytes([0x06]) + body)
            tsig = h.put(body)
            if msig is None:
                continue
            for r in range(1, min(m.rows.get(METHODDEF, 0), 4) + 1):
                cmds.append(m.set(METHODDEF, r, 4, msig))
            if fsig is not None:
                for r in range(1, min(m.rows.get(FIELD, 0), 3) + 1):
                    cmds.append(m.set(FIELD, r, 2, fsig))
            if tsig is not None and nspec:
                cmds.append(m.set(TYPESPEC, 1, 0, tsig))
                cmds += resolvers(h, 1)
            out.append(("dotnet signature nested %d deep with %s (method, field%s signatures)" % (depth, pname, ", TypeSpec#1" if nspec else ""),
                        h.cmds + [c for c in cmds if c not in h.cmds]))
    # ---- huge counts
    for what, body in (("GENERICINST with 0x1fffffff arguments", bytes([GENERICINST, CLASS]) + compressed(m.coded("TypeDefOrRef", TYPEDEF, 1)) + compressed(0x1fffffff) + bytes([I4]) * 40),
                       ("GENERICINST with 1000 arguments", bytes([GENERICINST, CLASS]) + compressed(m.coded("TypeDefOrRef", TYPEDEF, 1)) + compressed(1000) + bytes([I4]) * 1000),
                       ("ARRAY with rank 0x1fffffff", bytes([ARRAY, I4]) + compressed(0x1fffffff) + compressed(0x1fffffff) + bytes(40)),
                       ("ARRAY with 50 sizes and 0x3fff lower bounds", bytes([ARRAY, I4, 50, 50]) + bytes([1]) * 50 + compressed(0x3fff) + bytes(60))):
        for pc in (1, 0x7f, 0x3fff, 0x1fffffff):
            h = Heap()
            if len(body) + 16 > area:
                continue
            msig = h.put(bytes([0x10]) + compressed(pc) + compressed(pc) + body + body[:200])       # generic method: gen param count, param count
            if msig is None:
                continue
            cmds = [m.set(METHODDEF, r, 4, msig) for r in range(1, min(m.rows.get(METHODDEF, 0), 4) + 1)]
            out.append(("dotnet method signature: generic, %#x generic parameters and %#x parameters, return type %s" % (pc, pc, what), h.cmds + cmds))
    # ---- NestedClass cycles
    nn = m.rows.get(NESTEDCLASS, 0)
    if ntd >= 3:
        for desc, pairs in (("self-nested", [(2, 2)]), ("2-cycle", [(2, 3), (3, 2)]), ("3-cycle", [(2, 3), (3, 4), (4, 2)]),
                            ("chain of every class", [(i, i + 1) for i in range(2, min(ntd, nn + 1))]),
                            ("enclosing class out of range", [(2, ntd + 5)]), ("enclosing class 0", [(2, 0)])):
            if len(pairs) > nn or not pairs or any(max(p) > 0xffff for p in pairs):
                continue
            cmds = []
            for r, (a, e) in enumerate(pairs, 1):
                cmds += [m.set(NESTEDCLASS, r, 0, a), m.set(NESTEDCLASS, r, 1, e)]
            # the classes must be flagged nested for the module to look their enclosing class up: visibility NestedPublic
            for td in {a for a, _ in pairs if a <= ntd}:
                cmds.append(m.set(TYPEDEF, td, 0, (m.get(TYPEDEF, td, 0) & ~7) | 2))
            out.append(("dotnet NestedClass table: %s (%d rows rewritten)" % (desc, len(pairs)), cmds))
    # ---- streams pointing into each other / at the metadata root / past the end
    for sname, so in m.stream_hdrs:
        for what, off, sz in (("at the metadata root", 0, m.streams[sname][1]), ("at its own header", so - m.md, 0x100), ("over the #~ stream", (m.streams.get("#~") or m.streams.get("#-"))[0] - m.md, 0x10000),
                              ("at the last byte of the file", len(b) - 1 - m.md, 0x1000), ("size 0xffffffff", m.streams[sname][0] - m.md, 0xffffffff)):
            out.append(("dotnet stream %s re-pointed %s" % (sname, what), ["patch %d %s" % (so, struct.pack("<II", off & 0xffffffff, sz).hex())]))
    if quick and len(out) > 140:
        # every cycle shape once, the rest sampled
        keep = [c for c in out if "cycle" in c[0] or "NestedClass" in c[0]]
        rest = [c for c in out if c not in keep]
        rng.shuffle(rest)
        out = keep[:90] + rest[:max(0, 140 - min(len(keep), 90))]
    return out
