"""C19: compiled rules do not depend on how internal storage grew.

1. proof obligations of Props/Properties_C19.v (growth_invisible & co. over Model/ArenaMem.v);
2. tie of the model to libyara/arena.c: random operation sequences are executed by the real yr_arena_*
   functions (harness/h_unit.c) and by the extracted model, the model's realloc oracle being the
   addresses the real realloc returned: raw memory (absolute pointers included), number of reallocs and
   saved bytes must be identical; sequences that break the discipline (pointer one past the end, pointer
   taken before the write) are included and the model must predict what the real arena does with them;
3. the compiler as a client of the arena (outside the model, explored): generated rule sets compiled at
   initial capacities 1, 2, 3, 7, 64, 4096, 1 MiB (+ random ones) must give byte-identical images, dumps
   and scan traces, also in the ASan+UBSan build where every realloc moves the block and a raw pointer
   kept across an allocation is a heap-use-after-free.
"""
import os, re, shutil, fcntl
import vlib, build, rulegen
from vlib import hx, unhx

PROPS = "Props/Properties_C19.v"
CAPS = [1, 2, 3, 7, 64, 4096, 1048576]
PART = "20_arenamem"


# ------------------------------------------------------------------ model runner (private copy)
def get_model():
    """the shared runner may have been built without this property's part (work in progress of other
    properties falls back to ocaml/stable.txt) or be broken by another part: make sure the command is
    there, keep a private copy"""
    dst = os.path.join(build.scratch_root(), "verif-c19-runner.%d" % os.getpid())

    def probe():
        out, _ = vlib.run_lines(dst, ["arenamem 1 1 - -"])
        return bool(out) and out[0].startswith("ok ")

    def locked_build(parts):
        lock = vlib.coq_lock()
        try:
            shutil.copy2(vlib._build_model_once(parts), dst)
        finally:
            fcntl.flock(lock, fcntl.LOCK_UN)
            lock.close()

    last = None
    st = getattr(vlib, "_stable", lambda: None)() or set()
    for attempt in (None, set(st) | {PART}, {"00_arena", PART}):
        try:
            if attempt is None:
                shutil.copy2(vlib.build_model(), dst)
            else:
                locked_build(attempt)
            if probe():
                return dst
        except vlib.CoqError as e:
            last = e
    raise vlib.CoqError("cannot build a model runner with the arenamem command: " + str(last)[-800:])


# ------------------------------------------------------------------ op sequences
def overlaps(slots, b, off, n):
    return any(sb == b and so < off + n and off < so + 8 for sb, so in slots)


def gen_ops(rng, nb, n, bad=None):
    """a disciplined sequence over nb buffers; bad in (None, 'past_end', 'same_buffer') appends the
    corresponding violation followed by growth of the target buffer; bad == 'mixed' makes zeroed
    allocations in buffers that also receive plain writes (arena.c does not zero those reliably)"""
    lens = [0] * nb
    mode = [rng.choice("zw") for _ in range(nb)]    # like the compiler: a buffer is a table of structs or a byte pool
    slots = []
    ops = []

    def target(exclude=None, allow_null=True):
        c = [b for b in range(nb) if lens[b] > 0 and b != exclude]
        if not c or (allow_null and rng.chance(1, 6)):
            return "N"
        tb = rng.choice(c)
        return "%d:%d" % (tb, rng.choice([0, lens[tb] - 1, rng.below(lens[tb])]))

    def free_region(b, k):
        if lens[b] < k:
            return None
        for _ in range(8):
            off = rng.below(lens[b] - k + 1)
            if not overlaps(slots, b, off, k):
                return off
        return None

    def one():
        b = rng.below(nb)
        k = rng.below(20)
        if bad != "mixed":
            if mode[b] == "z" and (k < 5 or k == 7 or k >= 18):
                k = rng.choice([5, 6, 8, 9, 10])
            elif mode[b] == "w" and 5 <= k < 11 and k != 7:
                k = rng.choice([0, 1, 7, 18])
        if k < 5:
            x = rng.bytes(rng.choice([1, 1, 2, 3, 8, 9, rng.range(1, 40)]))
            ops.append("W:%d:%s" % (b, x.hex()))
            lens[b] += len(x)
        elif k < 7:
            n_ = rng.range(0, 30)
            ops.append("A:%d:%d" % (b, n_))
            lens[b] += n_
        elif k < 8:
            x = rng.bytes(rng.range(1, 12))
            ops.append("R:%d:%s" % (b, x.hex()))
            lens[b] += len(x)
        elif k < 11:
            n_ = rng.choice([8, 16, 24, 40, rng.range(8, 56)])
            offs = []
            for _ in range(rng.range(0, 3)):
                o = rng.below(n_ - 7)
                if all(o + 8 <= p or p + 8 <= o for p in offs):
                    offs.append(o)
            ops.append("S:%d:%d:%s" % (b, n_, ",".join(map(str, offs)) or "-"))
            slots.extend((b, lens[b] + o) for o in offs)
            lens[b] += n_
        elif k < 15 and slots:
            sb, so = rng.choice(slots)
            ops.append("P:%d:%d:%s" % (sb, so, target()))
        elif k < 16:
            off = free_region(b, 8)
            if off is not None:
                ops.append("L:%d:%d:%s" % (b, off, target()))
                slots.append((b, off))
        elif k < 18:
            kk = rng.range(1, 6)
            off = free_region(b, kk)
            if off is not None:
                ops.append("B:%d:%d:%s" % (b, off, rng.bytes(kk).hex()))
        else:
            ops.append("E:%d:%d:%s" % (b, rng.below(256), target(exclude=b)))
            slots.append((b, lens[b] + 1))
            lens[b] += 9

    for _ in range(n):
        one()
    if bad == "past_end":
        tb = rng.below(nb)
        if lens[tb] == 0:
            ops.append("W:%d:%s" % (tb, rng.bytes(8).hex()))
            lens[tb] += 8
        sb = (tb + 1) % nb
        ops.append("S:%d:8:0" % sb if mode[sb] == "z" else "W:%d:%s;L:%d:%d:N" % (sb, "00" * 8, sb, lens[sb]))
        slots.append((sb, lens[sb]))
        ops.append("P:%d:%d:%d:%d" % (sb, lens[sb], tb, lens[tb]))
        lens[sb] += 8
        for _ in range(rng.range(1, 4)):
            x = rng.bytes(rng.range(1, 64))
            ops.append("W:%d:%s" % (tb, x.hex()))
            lens[tb] += len(x)
    elif bad == "same_buffer":
        b = rng.below(nb)
        if lens[b] == 0:
            ops.append("W:%d:%s" % (b, rng.bytes(8).hex()))
            lens[b] += 8
        ops.append("E:%d:7:%d:%d" % (b, b, rng.below(lens[b])))
        for _ in range(rng.range(0, 2)):
            ops.append("W:%d:%s" % (b, rng.bytes(rng.range(1, 64)).hex()))
    return ";".join(ops) or "-"


def parse_unit(lines):
    """h_unit output -> list of dicts, one per command"""
    res, cur = [], None
    for l in lines:
        if l == "case":
            cur = {"r": []}
        elif l == "end":
            res.append(cur)
            cur = None
        elif cur is not None:
            if l.startswith("r "):
                cur["r"].append(l[2:])
            elif l.startswith("mem="):
                for t in l.split():
                    k, v = t.split("=", 1)
                    cur[k] = v
            elif l.startswith("save rc="):
                cur["save_rc"] = int(l.split()[1][3:])
                cur["image"] = l.split("image=")[1]
            elif l.startswith("mem2="):
                cur["mem2"] = l[5:]
            elif l.startswith("crash"):
                cur["crash"] = l
            elif l.startswith("oprc"):
                cur["oprc"] = l
    return res


def kv(line):
    d = {"status": " ".join(line.split()[:2]) if not line.startswith("ok") else "ok"}
    for t in line.split():
        if "=" in t:
            k, v = t.split("=", 1)
            d[k] = v
    return d


def unit_correspondence(chk, model, variant, nseq):
    h = build.harness("h_unit", variant)
    rng = chk.rng.fork()
    jobs = []   # (ops, nb, cap, kind)
    for i in range(nseq):
        nb = rng.range(1, 4)
        kind = None if i % 5 else rng.choice(["past_end", "same_buffer", "mixed"])
        ops = gen_ops(rng, nb, rng.range(3, 60), kind)
        caps = [1, 1048576] + [rng.choice(CAPS + [5, 9, 24, 100, 333])]
        for c in caps:
            jobs.append((ops, nb, c, kind))
    lines, err = vlib.run_lines(h, ["arena %d %d %s" % (nb, c, ops) for ops, nb, c, kind in jobs], timeout=900)
    impl = parse_unit(lines)
    if len(impl) != len(jobs):
        chk.violation("unit-harness", "h_unit produced %d results for %d commands (%s)" % (len(impl), len(jobs), variant),
                      {"stderr": err[-2000:]}, found_input=False)
        return 0, 0
    mlines, _ = vlib.run_lines(model, ["arenamem %d %d %s %s" % (nb, c, ",".join(im["r"]) or "-", ops)
                                        for (ops, nb, c, kind), im in zip(jobs, impl)], timeout=900)
    # informational: is the growth policy still arena.c's doubling?  (the theorems hold for any policy)
    plines, _ = vlib.run_lines(model, ["arenamem %d %d %s %s" % (nb, c, ",".join(a.split("/")[0] for a in im["r"]) or "-", ops)
                                        for (ops, nb, c, kind), im in zip(jobs, impl)], timeout=900)
    chk.note(**{"growth_policy_is_doubling_%s" % variant: all(kv(a).get("mem") == kv(b).get("mem") and kv(a)["status"] == kv(b)["status"]
                                                                for a, b in zip(plines, mlines))})
    agree = 0
    moved = 0
    images = {}
    dirty = {}
    allimg = {}
    for (ops, nb, c, kind), im in zip(jobs, impl):
        allimg.setdefault(ops, {})[c] = im.get("image")
    nontriv = set()
    for (ops, nb, c, kind), im, ml in zip(jobs, impl, mlines):
        mo = kv(ml)
        rep = {"variant": variant, "nb": nb, "capacity": c, "ops": ops, "kind": kind or "disciplined", "impl": im, "model": ml[:3000],
               "how": "echo 'arena %d %d <ops>' | h_unit ; echo 'arenamem %d %d <r lines joined by ,> <ops>' | model_runner" % (nb, c, nb, c)}
        if mo.get("pinned") == "dirty_zero":
            # a ZERO_MEMORY allocation served from spare capacity left by a growth for a plain write: the pinned arena.c
            # returned whatever malloc left there (fixed since); a reappearance shows as a memory/image difference below
            chk.add("zeroed_allocations_from_unzeroed_spare_capacity")
            dirty.setdefault(ops, []).append((c, nb))
        if mo["status"] != "ok":
            chk.violation("unit-corr", "model does not run a sequence the real arena runs (%s): %s" % (variant, ml[:200]), rep, found_input=False)
            continue
        bad = []
        if mo.get("mem") != im.get("mem"):
            bad.append("memory image (absolute pointers included)")
        if int(mo.get("calls", -1)) != len(im["r"]):
            bad.append("number of reallocs %s vs %d" % (mo.get("calls"), len(im["r"])))
        if mo.get("bases") != im.get("bases"):
            bad.append("base addresses")
        if mo.get("found") == "true":
            if "crash" in im or im.get("save_rc") != 0:
                bad.append("model: save succeeds; implementation: %s" % (im.get("crash") or im.get("save_rc")))
            elif im.get("image") != mo.get("save"):
                bad.append("saved bytes")
            elif im.get("mem2") != im.get("mem"):
                bad.append("memory not restored after saving")
        else:
            # the model says assert(found) fires in yr_arena_save_stream
            if "crash" not in im:
                bad.append("model: a relocatable pointer points outside the arena (assert); implementation saved rc=%s" % im.get("save_rc"))
        if kind is None:
            if mo.get("disc") != "ok":
                bad.append("generator/discipline mismatch: " + str(mo.get("disc")))
            elif mo.get("aabs") != mo.get("abs") or mo.get("arelocs") != mo.get("relocs"):
                bad.append("abs differs from the address-free run (contradicts abs_address_free)")
            images.setdefault(ops, set()).add(im.get("image"))
        if bad and mo.get("pinned") == "dirty_zero" and bad[0].startswith("memory image"):
            chk.violation("arena-zeroed-allocation-not-zeroed",
                          "yr_arena_allocate_zeroed_memory/yr_arena_allocate_struct returned non-zero memory (spare capacity left by a growth "
                          "for yr_arena_write_data is not zeroed; the model of the current arena.c says zeros, the pinned model says indeterminate) "
                          "(%s, capacity %d)" % (variant, c), rep, found_input=True)
        elif bad:
            chk.violation("unit-corr", "real arena and model differ (%s, capacity %d, %s): %s" % (variant, c, kind or "disciplined", "; ".join(bad)),
                          rep, found_input=True)
        else:
            agree += 1
        if len(set(a.split("/")[0] for a in im["r"])) > 1:
            moved += 1
        nontriv.add((kind, mo.get("found"), min(len(im["r"]), 6), len(set(a.split("/")[0] for a in im["r"])) > len(set((im.get("bases") or "").split(","))), mo.get("disc")))
    for ops, s in images.items():
        if len(s) > 1:
            chk.violation("unit-capacity", "real arena: same disciplined operations, different capacities, different saved bytes (%s)" % variant,
                          {"ops": ops, "images": sorted(x or "" for x in s)}, found_input=True)
    chk.add("unit_sequences_with_relocation", moved)
    chk.note(**{"unit_distinct_%s" % variant: len(nontriv)})
    return agree, len(jobs)


# ------------------------------------------------------------------ compiler sweep
SEEDS = [
    # pointers of every section: strings with chains, regexps, rule/ns/meta/tag tables, externals, loops, modules
    ('import "math"\nimport "pe"\nglobal rule g0 : tg { meta: a = "b" n = 3 t = true strings: $a = "alpha" wide ascii nocase $b = { 41 [2-300] 42 ?? 43 [0-4] 44 } '
     '$c = /ab(c|d)+e{2,5}[x-z]*f/ $d = "xorme" xor(1-40) $e = "b64" base64 base64wide condition: any of them or math.entropy(0, filesize) > 9 }\n'
     'private rule p1 { strings: $s1 = "hello" fullword $s2 = /h.{1,40}o/s condition: for any of ($s*) : ( # > 0 and @ < 100 ) }\n'
     'rule r2 : a b c { strings: $x = "zz" condition: g0 and p1 or for all i in (0..3) : ( for any j in (1..2) : ( uint8(i + j) >= 0 ) ) or $x at pe.entry_point or ex_s contains "q" or ex_i == 3 }\n'),
    ('rule many { strings: ' + " ".join('$s%d = "str%04d%s"' % (i, i, "x" * (i % 17)) for i in range(120)) + ' condition: 3 of them }\n'
     + "".join('rule t%d { strings: $a = "k%d" $b = /re%d[0-9]{1,%d}/ condition: $a and #b > %d and many }\n' % (i, i, i, 1 + i % 7, i % 3) for i in range(40))),
]


def compile_cases(chk, n):
    cases = []
    for i, src in enumerate(SEEDS):
        cases.append(("seed%d" % i, ["newcompiler", "defs ex_s %s" % b"squid".hex(), "defi ex_i 3", "add " + src.encode().hex()], src))
    for i in range(n):
        r = chk.rng.fork()
        cmds, d = rulegen.rand_ruleset(r, nrules=r.choice([1, 2, 3, 5, 9, 17, 33]))
        cases.append(("gen%d" % i, cmds, "\n".join(s for _, s in d["sources"])))
    return cases


def scan_buffers(rng):
    bufs = [b"", b"alpha a\0l\0p\0h\0a\0 hello world zz str0003xxx k1 re1123 abce" + b"e" * 4 + b"f A" + b"q" * 40 + b"B.C"]
    for _ in range(2):
        bufs.append(rulegen.rand_text(rng, 10, 200) + rng.bytes(rng.below(60)))
    return bufs


ASAN_RE = re.compile(r"(ERROR: AddressSanitizer[^\n]*|SUMMARY: AddressSanitizer[^\n]*|runtime error: [^\n]*)")


def compiler_sweep(chk, variant, ncases, extra_caps):
    h = build.harness("h_scan", variant)
    rng = chk.rng.fork()
    cases = compile_cases(chk, ncases)
    bufs = scan_buffers(rng)
    tail = ["getrules", "dump", "save", "scanner 0"] + ["scan " + hx(b) for b in bufs] + \
           ["reload", "use loaded", "scanner 1"] + ["scan " + hx(bufs[1])] + \
           ["sdestroy", "sel 0", "sdestroy", "destroyloaded", "destroyrules", "destroycompiler"]
    jobs = []
    for cid, cmds, src in cases:
        caps = CAPS + [rng.choice([5, 6, 9, 11, 13, 24, 48, 100, 333, 1000, 5000, 77777]) for _ in range(extra_caps)]
        for c in caps:
            jobs.append(("%s@%d" % (cid, c), ["arena %d" % c] + cmds + tail))
    out, err = vlib.run_cases(h, jobs, timeout=1700)
    by = {}
    for (jid, cmds) in jobs:
        cid, c = jid.split("@")
        lines = [l for l in out.get(jid, ["missing"]) if not l.startswith("leakcheck")]
        if any(l.startswith("leakcheck") and l != "leakcheck 0" for l in out.get(jid, [])):
            chk.cov.setdefault("leaking_cases_not_gating", [])
            if len(chk.cov["leaking_cases_not_gating"]) < 3:
                chk.cov["leaking_cases_not_gating"].append({"case": jid, "source": [x[2] for x in cases if x[0] == cid][0][:1500]})
        by.setdefault(cid, []).append((int(c), lines))
    src_of = {cid: (cmds, src) for cid, cmds, src in cases}
    ok = 0
    compiled = 0
    for cid, runs in by.items():
        ref_c, ref = [r for r in runs if r[0] == 1048576][0]
        if any(l.startswith("save rc=0") for l in ref):
            compiled += 1
        for c, lines in runs:
            crash = [l for l in lines if l.startswith("crash")]
            if crash or lines != ref:
                diff = [(a[:160], b[:160]) for a, b in zip(lines, ref) if a != b][:3]
                what = ("compiling at initial arena size %d %s" % (c, "crashes: " + crash[0] if crash else
                        "differs from the compilation at 1 MiB in: " + ", ".join(sorted({a.split()[0] for a, _ in diff} or {"length"}))))
                chk.violation("capacity:" + ("crash" if crash else "differs"), what + " (%s build, %s)" % (variant, cid),
                              {"variant": variant, "capacity": c, "commands": ["arena %d" % c] + src_of[cid][0] + tail, "source": src_of[cid][1][:4000],
                               "first_differences": diff, "how": "h_scan < (case x; commands; endcase)"}, found_input=True)
            else:
                ok += 1
    reports = ASAN_RE.findall(err)
    mem = [r for r in reports if "AddressSanitizer" in r and "leaked" not in r]
    leaks = [r for r in reports if "leaked" in r]
    if leaks:
        chk.note(leak_reports_seen_not_gating=sorted(set(leaks))[:4])   # leaks are C07/C16's business
    if mem:
        chk.violation("capacity:asan", "AddressSanitizer report while compiling/scanning at a small initial arena size (%s): %s" % (variant, mem[0]),
                      {"variant": variant, "reports": sorted(set(mem))[:10], "stderr_tail": err[-3000:]}, found_input=False)
    ub = sorted(set(r for r in reports if "runtime error" in r))
    if ub:
        chk.note(ubsan_reports_seen_not_gating=ub[:8])
    return ok, len(jobs), compiled, len(cases)


def run(chk):
    tier = chk.tier
    ok, log, st = vlib.proof_obligations(chk, PROPS)
    if not ok:
        chk.violation("proof", "C19 obligations over the arena memory model no longer check: " + log[-1500:],
                      {"theorems": PROPS, "log": log[-4000:], "generated": st}, found_input=False)
    model = get_model()
    try:
        quick = tier == "quick"
        a1, n1 = unit_correspondence(chk, model, "plain", 60 if quick else 600)
        a2, n2 = unit_correspondence(chk, model, "asan", 40 if quick else 400)
        o1, j1, c1, k1 = compiler_sweep(chk, "plain", 10 if quick else 80, 2 if quick else 10)
        o2, j2, c2, k2 = compiler_sweep(chk, "asan", 6 if quick else 40, 1 if quick else 6)
    finally:
        try:
            os.remove(model)
        except OSError:
            pass
    chk.note(evaluations=n1 + n2 + j1 + j2, traces_validated_against_impl=a1 + a2,
             distinct_nontrivial=chk.cov.get("unit_distinct_plain", 0) + chk.cov.get("unit_distinct_asan", 0) + c1 + c2,
             unit_cases={"plain": n1, "asan": n2, "agree": a1 + a2},
             compiler_cases={"plain": j1, "asan": j2, "identical_to_1MiB": o1 + o2, "rule_sets": k1 + k2, "rule_sets_compiling": c1 + c2},
             capacities=CAPS,
             rule="unit: random op sequences (1-3 buffers, 3-60 ops, every 5th breaks the discipline) on the real arena at capacity 1, 1 MiB and a "
                  "random one; model replayed with the real realloc answers; distinct = (kind, save asserts?, #reallocs capped, moved?, discipline verdict). "
                  "compiler: 2 hand-written wide rule sets + rulegen rule sets of 1..33 rules x capacities; non-trivial = rule sets that compile")
    chk.sample({"unit_ops_example": gen_ops(vlib.Rng(chk.seed), 2, 12)})
    chk.sample({"compiler_seed_rule_set": SEEDS[0][:300]})
    chk.cov["trusted_base"] = chk.cov.get("trusted_base", []) + [
        "C19: harness/h_unit.c (interprets the op language with the real yr_arena_* functions, reports realloc results by watching YR_ARENA_BUFFER.size)",
        "C19: ASan/UBSan runtime for the stale-pointer monitor; glibc/ASan realloc as the placement oracle"]
    chk.assumptions += [
        "PARTIAL: the theorems are about the arena (arena.c) and any client that follows the op language's discipline; that compiler.c/parser.c/grammar.y/"
        "ahocorasick.c/re.c/atoms.c follow it (no raw pointer kept across an allocation in the same buffer) is explored by the capacity sweep, not proved",
        "malloc/realloc succeed; buffers stay below 4 GB (growth_limit_depends_on_capacity_refuted states the exception)",
        "uninitialised bytes of yr_arena_allocate_memory are a parameter of the operation (OAllocRaw): clients must overwrite them"]


def replay(chk, path):
    import json
    rep = json.load(open(path))["replay"]
    if "ops" in rep:
        h = build.harness("h_unit", rep.get("variant", "plain"))
        lines, err = vlib.run_lines(h, ["arena %d %d %s" % (rep["nb"], rep["capacity"], rep["ops"])])
        print("\n".join(l[:600] for l in lines))
        im = parse_unit(lines)[0]
        model = get_model()
        ml, _ = vlib.run_lines(model, ["arenamem %d %d %s %s" % (rep["nb"], rep["capacity"], ",".join(im["r"]) or "-", rep["ops"])])
        print("model: " + ml[0][:1500])
        os.remove(model)
        return 0
    if "commands" in rep:
        h = build.harness("h_scan", rep.get("variant", "plain"))
        for c in (rep["capacity"], 1048576):
            out, err = vlib.run_cases(h, [("x", ["arena %d" % c] + rep["commands"][1:])])
            print("capacity %d:" % c)
            print("\n".join(l[:300] for l in out.get("x", [])))
            print(err[-1500:])
        return 0
    print("nothing to replay: " + str(rep)[:300])
    return 1
