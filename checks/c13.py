"""C13: all scan entry points agree, also across interrupted block iteration.
Proof: coq/Props/Properties_C13.v over coq/Model/Resume.v.  Tie: harness/h_proto.c drives the real
yr_scanner_scan_mem_blocks with a scripted position-keeping iterator (every first()/next() call answered by the
pattern: block / end / not ready) and repeats the call while it returns ERROR_BLOCK_NOT_READY; the extracted model
does the same; every call's return code and iterator-call log, the final callbacks with their match offsets, and
a follow-up scan through the same scanner must be identical.  All entry points are compared with each other and
with the model on the same bytes."""
import os, json, itertools
import vlib, build, protolib
from protolib import hexs

PROPS = "Props/Properties_C13.v"
# (text, modifiers): f = fullword, w = wide, n = nocase  (model: leading markers of the pattern, see rc_split_mods)
PATS = [(b"abc", ""), (b"bc", ""), (b"ab", ""), (b"ca", ""), (b"abc", "f"), (b"abc", "fw"), (b"abc", "fn")]
MODWORD = {"f": "fullword", "w": "wide", "n": "nocase"}
REPORT_ABANDONED = True    # contamination or a leak after an abandoned scan is a violation (fixed in /repo by 8a2210d)


class Rules:
    """rules: list of dict(name, ns, g, p, atom) ; atom: ('T',) ('F',) ('S',i) ('C',i,n) ('Z',n) ('U',off,v)
    ('E',n) entrypoint == n   ('A',i) $s at entrypoint"""

    def __init__(self, rules):
        self.rules = rules

    def commands(self):
        cmds = ["newcompiler"]
        cur = None
        for r in self.rules:
            if r["ns"] != cur:
                cur = r["ns"]
                cmds.append("ns " + ("-" if cur == 0 else "ns%d" % cur))
            a = r["atom"]
            strs = ""
            if a[0] in "SCA":
                strs = 'strings: $s = "%s"%s ' % (PATS[a[1]][0].decode(), "".join(" " + MODWORD[m] for m in PATS[a[1]][1]))
            cond = {"T": "true", "F": "false", "S": "$s", "C": "#s == %d" % (a[2] if a[0] == "C" else 0),
                    "Z": "filesize == %d" % (a[1] if a[0] == "Z" else 0),
                    "U": "uint8(%d) == %d" % ((a[1], a[2]) if a[0] == "U" else (0, 0)),
                    "E": "entrypoint == %d" % (a[1] if a[0] == "E" else 0), "A": "$s at entrypoint"}[a[0]]
            cmds.append("add " + hexs("%s%srule %s { %scondition: %s }" % ("global " if r["g"] else "", "private " if r["p"] else "",
                                                                         r["name"], strs, cond)))
        return cmds + ["getrules", "scanner 0", "pcb"]

    def model(self):
        order = []
        for r in self.rules:
            if r["ns"] not in order:
                order.append(r["ns"])
        out = []
        for r in self.rules:
            a = r["atom"]
            s = {"T": "T", "F": "F", "S": "S%d" % a[1] if a[0] == "S" else "", "C": "C%d=%d" % (a[1], a[2]) if a[0] == "C" else "",
                 "Z": "Z%d" % a[1] if a[0] == "Z" else "", "U": "U%d=%d" % (a[1], a[2]) if a[0] == "U" else "",
                 "E": "E%d" % a[1] if a[0] == "E" else "", "A": "A%d" % a[1] if a[0] == "A" else ""}[a[0]]
            out.append("%d:%d:%d:%s" % (order.index(r["ns"]), r["g"], r["p"], s))
        return ",".join(out)

    def describe(self):
        return [" ".join(c for c in self.commands() if c.startswith("add ")) and
                bytes.fromhex(c[4:]).decode() for c in self.commands() if c.startswith("add ")]


PATHEX = ",".join((m + ":" if m else "") + p.hex() for p, m in PATS)


def model_cmd(rules, flags, script, fsz, blocks, pattern):
    """blocks: list of (base, bytes or None, size[, entry point offset yr_get_entry_point_offset returns for the block or None])"""
    def one(t):
        b, d, sz = t[:3]
        ep = t[3] if len(t) > 3 else None
        if d is None:
            return "%d:null:%d" % (b, sz)
        return "%d:%s" % (b, d.hex() if d else "-") + ("" if ep is None else ":e%d" % ep)
    bl = ",".join(one(t) for t in blocks) or "-"
    return "c13 %s %s - %d %s %s %s %s" % (PATHEX, rules.model(), flags, script, "-" if fsz is None else str(fsz), bl, pattern or "-")


def parse_model(line, rules):
    """-> ([(rc, log)] per call, final msgs [(kind, ns, name, offsets or None)], summary dict)"""
    segs = [s.strip() for s in line.split("|")]
    calls, final, matches = [], None, None
    for s in segs[:-1]:
        f = dict(x.split("=", 1) for x in s.split(" ")[1:] if "=" in x)
        if "rc" not in f:
            calls.append((None, s))
            continue
        calls.append((int(f["rc"]), f.get("log", "-")))
        if "msgs" in f:
            matches = [[] if m == "-" else [int(x) for x in m.split(".")] for m in f["m"].split("/")]
            final = []
            for t in f["msgs"].split(";"):
                if not t:
                    continue
                if t[0] in "MN":
                    r = rules.rules[int(t[1:])]
                    a = r["atom"]
                    final.append((t[0], "default" if r["ns"] == 0 else "ns%d" % r["ns"], r["name"],
                                  matches[a[1]] if a[0] in "SCA" else None))
                else:
                    final.append(("F",))
    summ = dict(x.split("=") for x in segs[-1].split(" "))
    return calls, final, summ


def impl_calls(lines):
    """harness 'scan msgs=.. rc=.. log=..' lines -> [(rc, log)], final msgs"""
    calls, final = [], None
    for l in lines:
        p = protolib.parse_scan(l)
        if p is None:
            continue
        calls.append((p[1], p[2] or "-"))
        if p[1] != 61:
            final = [(m[0], m[1], m[2], m[3].get("$s")) if m[0] in "MN" else m for m in p[0]]
    return calls, final


def compositions(n, maxparts):
    """all ways to cut range(n) into 1..maxparts non-empty consecutive parts: lists of (start, end)"""
    for k in range(1, min(maxparts, n) + 1):
        for cuts in itertools.combinations(range(1, n), k - 1):
            b = [0] + list(cuts) + [n]
            yield [(b[i], b[i + 1]) for i in range(k)]


def _put(b, off, val, n):
    b[off:off + n] = val.to_bytes(n, "little")


def exe_block(kind, size, entry_off):
    """a block that starts with a minimal executable header; returns (bytes, what yr_get_entry_point_offset gives for it).
    The filler never contains one of PATS; "abc" is planted at the entry point offset."""
    b = bytearray(b"x" * size)
    if kind in ("elf32", "elf32-nophdr"):
        b[0:84] = bytes(84)
        b[0:7] = b"\x7fELF\x01\x01\x01"
        _put(b, 16, 2, 2); _put(b, 18, 3, 2); _put(b, 20, 1, 4); _put(b, 24, 0x08048000 + entry_off, 4)
        _put(b, 28, 52, 4); _put(b, 40, 52, 2); _put(b, 42, 32, 2); _put(b, 44, 0 if kind == "elf32-nophdr" else 1, 2); _put(b, 46, 40, 2)
        _put(b, 52, 1, 4); _put(b, 56, 0, 4); _put(b, 60, 0x08048000, 4); _put(b, 64, 0x08048000, 4)
        _put(b, 68, size, 4); _put(b, 72, size, 4); _put(b, 76, 5, 4); _put(b, 80, 0x1000, 4)
        ep = 0 if kind == "elf32-nophdr" else entry_off      # unmappable entry: the function answers 0, not undefined
    elif kind == "elf64":
        b[0:120] = bytes(120)
        b[0:7] = b"\x7fELF\x02\x01\x01"
        _put(b, 16, 2, 2); _put(b, 18, 62, 2); _put(b, 20, 1, 4); _put(b, 24, 0x400000 + entry_off, 8)
        _put(b, 32, 64, 8); _put(b, 52, 64, 2); _put(b, 54, 56, 2); _put(b, 56, 1, 2); _put(b, 58, 64, 2)
        _put(b, 64, 1, 4); _put(b, 68, 5, 4); _put(b, 72, 0, 8); _put(b, 80, 0x400000, 8); _put(b, 88, 0x400000, 8)
        _put(b, 96, size, 8); _put(b, 104, size, 8); _put(b, 112, 0x1000, 8)
        ep = entry_off
    elif kind == "pe":
        b[0:316] = bytes(316)
        b[0:2] = b"MZ"
        _put(b, 60, 64, 4)
        b[64:68] = b"PE\0\0"
        _put(b, 68, 0x14c, 2); _put(b, 70, 0, 2); _put(b, 84, 224, 2); _put(b, 86, 0x102, 2)
        _put(b, 88, 0x10b, 2); _put(b, 104, entry_off, 4)
        ep = entry_off                                        # no sections: rva == offset
    else:
        raise ValueError(kind)
    b[entry_off:entry_off + 3] = b"abc"
    return bytes(b), ep


def run(chk):
    ok, log, st = vlib.proof_obligations(chk, PROPS)
    if not ok:
        chk.violation("proof", "obligations of C13 no longer check: " + log[-1200:], {"log": log[-4000:]}, found_input=False)
    h = build.harness("h_proto", extra_flags=protolib.hscan_flag())
    model = protolib.private_model()
    quick = chk.tier == "quick"
    rng = chk.rng.fork()
    K = vlib.consts()

    def mk(atoms, flags=None):
        return Rules([{"name": "r%d" % i, "ns": (flags[i][2] if flags else 0), "g": (flags[i][0] if flags else 0),
                       "p": (flags[i][1] if flags else 0), "atom": a} for i, a in enumerate(atoms)])

    # ------------------------------------------------------------ part 1: interrupted iteration
    rulesets = [
        mk([("S", 0), ("U", 4, 98), ("C", 0, 2), ("Z", 6), ("S", 1)]),
        mk([("C", 2, 1), ("U", 0, 97), ("U", 5, 99), ("S", 3), ("T",)], [(1, 0, 0), (0, 0, 0), (0, 1, 0), (0, 0, 1), (1, 1, 1)]),
    ]
    buffers = [b"abcabc", b"bcabca", b"abc", b"a", b""]
    cases, plans = [], []
    for ri, rules in enumerate(rulesets):
        for bi, buf in enumerate(buffers):
            cmds = rules.commands()
            plan = []
            parts = list(compositions(len(buf), 4)) if buf else [[]]
            parts.append(None)          # the empty block list
            for part in parts:
                variants = [("contig", 0)]
                if part and len(part) > 1 and rng.chance(1, 3):
                    variants.append(("gap", 100))
                for vname, shift in variants:
                    blocks = [] if not part else [(s + (shift if i else 0), buf[s:e], e - s) for i, (s, e) in enumerate(part)]
                    nb = len(blocks)
                    L = nb + 1 + (2 if quick else 3)
                    if nb >= 4 and quick:
                        L = nb + 2
                    fszs = [len(buf)] if rng.chance(3, 4) else [None]
                    for fsz in fszs:
                        pats = ["".join(p) for n in range(0, L + 1) for p in itertools.product("01", repeat=n)]
                        pats = [p for p in pats if not p.endswith("0") or p == "" or rng.chance(1, 8)]   # trailing ready answers change nothing
                        cmds.append("blocks %s %s" % ("-" if fsz is None else fsz, " ".join("%d:%s" % (b, vlib.hx(d)) for b, d, _ in blocks)))
                        for p in pats:
                            cmds += ["notready " + (p or "-"), "piter", "ploop 40"]
                            follow = rng.chance(1, 6)
                            if follow:
                                cmds += ["script -", "scan " + vlib.hx(buf)]
                            plan.append((blocks, fsz, p, follow))
            cases.append(("i%d_%d" % (ri, bi), cmds))
            plans.append((rules, buf, plan))

    # random: larger block counts, null data, scripts
    for k in range(10 if quick else 80):
        r = rng.fork()
        atoms = [r.choice([("S", r.below(4)), ("C", r.below(4), r.below(3)), ("Z", r.range(0, 9)), ("U", r.below(9), r.choice([97, 98, 99])), ("T",), ("F",)])
                 for _ in range(r.range(1, 5))]
        rules = mk(atoms, [(int(r.chance(1, 5)), int(r.chance(1, 5)), r.below(2)) for _ in atoms])
        buf = bytes(r.choice(b"abc") for _ in range(r.range(0, 9)))
        cmds = rules.commands()
        plan = []
        for _ in range(12):
            nb = r.range(0, 6)
            cuts = sorted(r.below(len(buf) + 1) for _ in range(max(nb - 1, 0)))
            bounds = ([0] + cuts + [len(buf)]) if nb else []
            blocks, null = [], []
            for i in range(len(bounds) - 1):
                s, e = bounds[i], bounds[i + 1]
                if r.chance(1, 8):
                    blocks.append((s, None, e - s))
                    null.append(i)
                else:
                    blocks.append((s, buf[s:e], e - s))
            fsz = len(buf) if r.chance(3, 4) else None
            p = "".join(r.choice("0001") for _ in range(r.range(0, len(blocks) + 4)))
            cmds.append("blocks %s %s" % ("-" if fsz is None else fsz, " ".join("%d:%s" % (b, vlib.hx(d if d is not None else buf[b:b + sz])) for b, d, sz in blocks)))
            cmds.append("nulldata -")
            cmds += ["nulldata %d" % i for i in null]
            cmds += ["notready " + (p or "-"), "piter", "ploop 40"]
            plan.append((blocks, fsz, p, False))
        cases.append(("r%d" % k, cmds))
        plans.append((rules, buf, plan))

    out, err = vlib.run_cases(h, cases, timeout=1500)
    mcmds = []
    for rules, buf, plan in plans:
        for blocks, fsz, p, follow in plan:
            mcmds.append(model_cmd(rules, 0, "-", fsz, blocks, p))
            if follow:
                mcmds.append(model_cmd(rules, 0, "-", len(buf), [(0, buf, len(buf))], ""))
    mlines, _ = vlib.run_lines(model, mcmds, timeout=1500)

    n_runs = n_conf = n_nonconf = n_interrupted = n_follow = 0
    distinct = set()
    mi = 0
    for (cid, cmds), (rules, buf, plan) in zip(cases, plans):
        lines = out.get(cid, [])
        if any(l.startswith("crash") for l in lines) or not any(l == "getrules rc=0" for l in lines):
            chk.violation("crash", "case %s crashed or did not compile: %s" % (cid, [l for l in lines if "crash" in l or "error" in l][:3]),
                          {"harness_commands": cmds[:40], "out": lines[-5:]})
            mi += sum(2 if f else 1 for _, _, _, f in plan)
            continue
        # follow-up scans are the 'scan' lines without log= that come right after a ploop: re-split
        runs, follow_lines, cur = [], {}, []
        for l in lines:
            if l.startswith("scan msgs=") and " log=" in l:
                cur.append(l)
            elif l.startswith("ploop "):
                runs.append(cur)
                cur = []
            elif l.startswith("scan msgs="):
                follow_lines[len(runs) - 1] = l
        for ri, (blocks, fsz, p, follow) in enumerate(plan):
            mline = mlines[mi]
            mcmd = mcmds[mi]
            mi += 1
            fl_model = None
            if follow:
                fl_model = mlines[mi]
                mi += 1
            n_runs += 1
            mcalls, mfinal, summ = parse_model(mline, rules)
            icalls, ifinal = impl_calls(runs[ri]) if ri < len(runs) else ([], None)
            conforming = summ.get("conforming") == "true"
            replay = {"rules": rules.describe(), "buffer_hex": vlib.hx(buf), "blocks": [(b, None if d is None else vlib.hx(d), sz) for b, d, sz in blocks],
                      "filesize": fsz, "notready_pattern": p, "conforming": conforming,
                      "harness_commands": rules.commands() + ["blocks %s %s" % ("-" if fsz is None else fsz, " ".join("%d:%s" % (b, vlib.hx(d)) for b, d, _ in blocks if d is not None)),
                                                              "notready " + (p or "-"), "piter", "ploop 40"],
                      "model_command": mcmd, "impl": runs[ri] if ri < len(runs) else None, "model": mline}
            n_conf += conforming
            n_nonconf += not conforming
            n_interrupted += "1" in p
            if summ.get("driver_agrees") != "true" or (conforming and summ.get("clean") != "true"):
                chk.violation("model-internal", "extracted rs_run and the call-by-call driver disagree: " + mline[-200:], replay, found_input=False)
            if icalls != mcalls:
                chk.violation("calls:" + ("conforming" if conforming else "outside-contract"),
                              "sequence of calls (return code, first()/next() log) differs: impl=%s model=%s" % (icalls, mcalls), replay)
                continue
            if ifinal != mfinal:
                chk.violation("final:" + ("conforming" if conforming else "outside-contract"),
                              "final callbacks / match offsets differ: impl=%s model=%s" % (ifinal, mfinal), replay)
                continue
            if follow:
                n_follow += 1
                _, ffinal, _ = parse_model(fl_model, rules)
                got = impl_calls([follow_lines.get(ri, "")])[1]
                if got != ffinal:
                    chk.violation("follow-up", "a scan through the same scanner after a completed (resumed) scan differs from a fresh scan: impl=%s model=%s"
                                  % (got, ffinal), dict(replay, follow_up="scan " + vlib.hx(buf)))
            distinct.add((cid[0], len(blocks), p, fsz is None, tuple(len(d) if d is not None else -1 for _, d, _ in blocks), buf))
            if "1" in p and conforming and len(blocks) >= 2:
                chk.sample({"rules": rules.describe(), "blocks": replay["blocks"], "pattern": p, "model": mline}, cap=4)

    # ------------------------------------------------------------ part 2: entry points
    # fullword strings (ascii, wide, nocase) included: a match that starts on the first or ends on the last byte of the
    # data must be judged from the data alone, whatever lies next to it in memory
    rules = mk([("S", 0), ("C", 0, 2), ("Z", 4096), ("U", 4095, 99), ("U", 0, 97), ("Z", 0), ("S", 1), ("C", 3, 0),
                ("S", 4), ("C", 4, 2), ("S", 5), ("C", 5, 1), ("S", 6), ("C", 6, 2)],
               [(0, 0, 0)] * 6 + [(0, 1, 0), (0, 0, 1)] + [(0, 0, 0)] * 6)
    wabc = b"a\0b\0c\0"
    ebufs = [b"", b"a", b"abc", b"abcabc", b"abc abc", b"xabc abc", b"abc abcx", b"ABC.abc", b" abc", b"abc ", wabc, wabc + b" \0" + wabc,
             b"x\0" + wabc, wabc + b"x\0", b"..." + wabc]
    for size in (4096, 8192, 4095, 4097):          # page multiples and +-1, a fullword match on the very first and very last bytes
        b = bytearray(b"." * size)
        b[0:4] = b"abc "
        b[size - 4:size] = b" abc"
        ebufs.append(bytes(b))
        b[size - 7:size] = b" " + wabc
        ebufs.append(bytes(b))
    for size in (4096, 8192, 4095, 4097):
        b = bytearray(b"x" * size)
        b[0:3] = b"abc"
        b[size - 3:size] = b"abc"
        if size > 4100:
            b[4095:4098] = b"abc"          # straddles the page border
        ebufs.append(bytes(b))
    for _ in range(4 if quick else 30):
        ebufs.append(bytes(rng.choice(b"abcx") for _ in range(rng.range(1, 40))))
    ENTRIES = ["rscan", "scan", "scanfile", "scanfd", "rscanfile", "rscanfd", "pscan", "prscan",
               # the same bytes as a slice of a larger buffer with alphanumeric neighbours, as an exact-size heap object, in a
               # mapping that ends / starts at an inaccessible page; blocks handed over by the iterator as such slices
               "g:rmem:slicea", "g:smem:slicea", "g:rmem:slicew", "g:smem:slicew", "g:rmem:heap", "g:smem:heap",
               "g:rmem:pnend", "g:smem:pnstart", "pg:slicea", "pg:slicew"]
    ecases, emodel = [], []
    for bi, buf in enumerate(ebufs):
        cmds = rules.commands() + ["blocks %d 0:%s" % (len(buf), vlib.hx(buf)), "notready -"]
        for e in ENTRIES:
            if e.startswith("g:"):
                cmds.append("gscan %s %s 0 %s" % (e.split(":")[1], e.split(":")[2], vlib.hx(buf)))
            elif e.startswith("pg:"):
                cmds += ["pguard " + e.split(":")[1], "piter", "pscan", "pguard none"]
            elif e == "rscan":
                cmds.append("rscan 0 0 " + vlib.hx(buf))
            elif e == "scan":
                cmds += ["sflags 0", "scan " + vlib.hx(buf)]
            elif e in ("scanfile", "scanfd", "rscanfile", "rscanfd"):
                cmds.append("%s 0 %s" % (e, vlib.hx(buf)))
            elif e == "pscan":
                cmds += ["piter", "pscan"]
            else:
                cmds += ["piter", "prscan 0"]
        ecases.append(("e%d" % bi, cmds))
        emodel.append(model_cmd(rules, 0, "-", len(buf), [(0, buf, len(buf))], ""))
    eout, _ = vlib.run_cases(h, ecases, timeout=900)
    elines, _ = vlib.run_lines(model, emodel, timeout=900)
    n_entry = 0
    for (cid, cmds), buf, ml, mc in zip(ecases, ebufs, elines, emodel):
        lines = [l for l in eout.get(cid, []) if l.startswith("scan msgs=") or l.startswith("crash")]
        _, mfinal, _ = parse_model(ml, rules)
        replay = {"rules": rules.describe(), "buffer_hex": vlib.hx(buf) if len(buf) < 200 else "len=%d abc at 0, end%s" % (len(buf), ", 4095" if len(buf) > 4100 else ""),
                  "harness_commands": cmds if len(buf) < 200 else "see checks/c13.py part 2", "model_command": mc if len(buf) < 200 else "-", "model": ml[-300:]}
        if len(lines) != len(ENTRIES) or any(l.startswith("crash") for l in lines):
            chk.violation("entry-crash", "entry-point case %s: %s" % (cid, lines[-2:]), replay)
            continue
        res = {}
        for e, l in zip(ENTRIES, lines):
            p = protolib.parse_scan(l)
            res[e] = ([(m[0], m[1], m[2], m[3].get("$s")) if m[0] in "MN" else m for m in p[0]], p[1])
            n_entry += 1
        ref = res["rscan"]
        for e in ENTRIES:
            if res[e] != ref:
                chk.violation("entry:" + e, "entry point %s differs from yr_rules_scan_mem on the same %d bytes: %s vs %s"
                              % (e, len(buf), res[e], ref), dict(replay, entry=e))
        if (mfinal, 0) != ref:
            chk.violation("entry-model", "entry points agree with each other but not with the model on %d bytes: impl=%s model=%s"
                          % (len(buf), ref, mfinal), replay)

    # ------------------------------------------------------------ part 2c: blocks handed over as slices with alphanumeric neighbours
    grules = mk([("S", 0), ("S", 4), ("C", 4, 1), ("S", 5), ("C", 5, 1), ("S", 6), ("C", 6, 2)])
    gcases, gmodel, gmeta = [], [], []
    for bi, buf in enumerate([b"abc abc", b"abcabc", wabc + wabc, b"xabc ABC", b"abc" + wabc]):
        cmds = grules.commands()
        for part in compositions(len(buf), 3):
            blocks = [(s0, buf[s0:e0], e0 - s0) for s0, e0 in part]
            cmds.append("blocks %d %s" % (len(buf), " ".join("%d:%s" % (b, vlib.hx(d)) for b, d, _ in blocks)))
            for g in ("none", "slicea", "slicew"):
                for p in ("", "01"):
                    cmds += ["pguard " + g, "notready " + (p or "-"), "piter", "ploop 10"]
                    gmodel.append(model_cmd(grules, 0, "-", len(buf), blocks, p))
                    gmeta.append(("g%d" % bi, buf, blocks, g, p))
        gcases.append(("g%d" % bi, cmds))
    go, _ = vlib.run_cases(h, gcases, timeout=900)
    gl, _ = vlib.run_lines(model, gmodel, timeout=900)
    gruns = {}
    for cid, _ in gcases:
        runs, cur = [], []
        for l in go.get(cid, []):
            if l.startswith("scan msgs="):
                cur.append(l)
            elif l.startswith("ploop "):
                runs.append(cur)
                cur = []
            elif l.startswith("crash"):
                runs.append([l])
        gruns[cid] = runs
    n_guard = 0
    gidx = {}
    for (cid, buf, blocks, g, p), ml, mc in zip(gmeta, gl, gmodel):
        k = gidx.get(cid, 0)
        gidx[cid] = k + 1
        run = gruns[cid][k] if k < len(gruns[cid]) else []
        mcalls, mfinal, _ = parse_model(ml, grules)
        icalls, ifinal = impl_calls(run)
        n_guard += 1
        if icalls != mcalls or ifinal != mfinal:
            chk.violation("guarded-blocks:" + g, "blocks handed over as slices (%s neighbours), pattern %s: impl=%s %s model=%s %s"
                          % (g, p or "-", icalls, ifinal, mcalls, mfinal),
                          {"rules": grules.describe(), "buffer_hex": vlib.hx(buf), "blocks": [(b, vlib.hx(d)) for b, d, _ in blocks], "guard": g,
                           "notready_pattern": p, "model_command": mc, "impl": run, "model": ml,
                           "harness_commands": grules.commands() + ["blocks %d %s" % (len(buf), " ".join("%d:%s" % (b, vlib.hx(d)) for b, d, _ in blocks)),
                                                                    "pguard " + g, "notready " + (p or "-"), "piter", "ploop 10"]})

    # ------------------------------------------------------------ part 2d: regexps with \b \B ^ $ and fullword regexps at the edges of the data
    # (not in the Coq model: all entry points must agree with each other and with Python's re on the same bytes)
    import re as _re
    RX = [("rb", r"/\babc\b/", rb"\babc\b"), ("re", r"/abc$/", rb"abc\Z"), ("rs", r"/^abc/", rb"\Aabc"), ("rB", r"/abc\B/", rb"abc\B"),
          ("rBb", r"/\Babc/", rb"\Babc"), ("rf", r"/ab[a-z]/ fullword", None), ("rbe", r"/\bab.$/", rb"\bab[^\n]\Z")]
    rxsrc = "".join('rule %s { strings: $s = %s condition: $s }\n' % (n, y) for n, y, _ in RX)
    rxbufs = [b"abc", b"abc abc", b"xabc abc", b"abc abcx", b" abc", b"abc ", b"abcabc", b"xabcx", b"ab", b""]
    for size in (4096, 4095, 4097):
        b = bytearray(b"." * size)
        b[0:4] = b"abc "
        b[size - 4:size] = b" abc"
        rxbufs.append(bytes(b))
    RXE = ["rscan", "scan", "scanfile", "scanfd", "rscanfile", "rscanfd", "pscan", "g:rmem:slicea", "g:smem:slicea", "g:rmem:slicew",
           "g:rmem:heap", "g:smem:pnend", "g:rmem:pnstart", "pg:slicea"]
    xcases = []
    for bi, buf in enumerate(rxbufs):
        cmds = ["newcompiler", "add " + hexs(rxsrc), "getrules", "scanner 0", "blocks %d 0:%s" % (len(buf), vlib.hx(buf)), "notready -"]
        for e in RXE:
            if e.startswith("g:"):
                cmds.append("gscan %s %s 0 %s" % (e.split(":")[1], e.split(":")[2], vlib.hx(buf)))
            elif e.startswith("pg:"):
                cmds += ["pguard " + e.split(":")[1], "piter", "pscan", "pguard none"]
            elif e == "rscan":
                cmds.append("rscan 0 0 " + vlib.hx(buf))
            elif e == "scan":
                cmds += ["sflags 0", "scan " + vlib.hx(buf)]
            elif e == "pscan":
                cmds += ["piter", "pscan"]
            else:
                cmds.append("%s 0 %s" % (e, vlib.hx(buf)))
        xcases.append(("x%d" % bi, cmds))
    xo, _ = vlib.run_cases(h, xcases, timeout=900)
    n_rx = 0
    for (cid, cmds), buf in zip(xcases, rxbufs):
        lines = [l for l in xo.get(cid, []) if l.startswith("scan msgs=") or l.startswith("crash")]
        replay = {"rules": rxsrc, "buffer_hex": vlib.hx(buf) if len(buf) < 200 else "len=%d, 'abc ' first, ' abc' last" % len(buf),
                  "harness_commands": cmds if len(buf) < 200 else "see checks/c13.py part 2d"}
        if len(lines) != len(RXE) or any(l.startswith("crash") for l in lines):
            chk.violation("regexp-crash", "regexp entry-point case %s: %s" % (cid, lines[-2:]), replay)
            continue
        res = {}
        for e, l in zip(RXE, lines):
            pp = protolib.parse_scan(l)
            res[e] = ([(m[0], m[2], m[3].get("$s")) for m in pp[0] if m[0] in "MN"], pp[1])
            n_rx += 1
        ref = res["rscan"]
        for e in RXE:
            if res[e] != ref:
                chk.violation("regexp-entry:" + e.split(":")[0], "regexps with \\b / $ / fullword at the edges of the data: entry %s differs from "
                              "yr_rules_scan_mem on the same %d bytes: %s vs %s" % (e, len(buf), res[e], ref), dict(replay, entry=e))
        for (name, _, pyre), (kind, rname, offs) in zip(RX, ref[0]):
            if pyre is None:
                exp = [m.start() for m in _re.finditer(rb"(?=ab[a-z])", buf)
                       if not (m.start() > 0 and buf[m.start() - 1:m.start()].isalnum()) and not buf[m.start() + 3:m.start() + 4].isalnum()]
            else:
                exp = [m.start() for m in _re.finditer(b"(?=" + pyre + b")", buf)]
            if (offs or []) != exp or (kind == "M") != bool(exp):
                chk.violation("regexp-reference", "rule %s on %d bytes: yara finds %s (%s), Python's re finds %s" % (name, len(buf), offs, kind, exp), replay)

    # ------------------------------------------------------------ part 6: flags and timeout through every entry point
    # non-default, mutually distinguishable (flags, timeout) pairs: swapping the two, or dropping the flags, shows in the
    # transcript (which rules are reported; FAST_MODE keeps only the first match of a string used as a plain "$s").
    # Timeouts never fire on these buffers, so the model's prediction depends on the flags only.
    F_FAST, F_NOTRY = K["SCAN_FLAGS_FAST_MODE"], K["SCAN_FLAGS_NO_TRYCATCH"]
    F_M, F_N = K["SCAN_FLAGS_REPORT_RULES_MATCHING"], K["SCAN_FLAGS_REPORT_RULES_NOT_MATCHING"]
    PAIRS = [(F_M, 0), (0, F_N), (F_N, F_M), (F_M, F_N), (F_FAST, 0), (0, 1), (F_NOTRY, 60), (F_FAST | F_M, 1000), (F_M | F_N, 7),
             (F_FAST | F_N, 2), (0, 7), (0, 1000), (F_NOTRY | F_N, 1), (0, 0)]
    frules = mk([("S", 0), ("C", 0, 2), ("S", 1), ("F",), ("T",), ("S", 3), ("C", 3, 0), ("Z", 6)],
                [(0, 0, 0), (0, 0, 0), (0, 0, 0), (0, 0, 0), (0, 1, 0), (0, 0, 1), (0, 0, 1), (1, 0, 1)])
    FT = ["rmem", "rfile", "rfd", "rblocks", "smem", "sfile", "sfd", "sblocks"]
    fcases, fmodel, fmeta = [], [], []
    for bi, buf in enumerate([b"abcabc", b"abc", b"xx", b"bcabcabcab"]):
        cmds = frules.commands()
        for fl, to in PAIRS:
            fmodel.append(model_cmd(frules, fl, "-", len(buf), [(0, buf, len(buf))], ""))
            for e in FT:
                cmds.append("ft %s %d %d %s" % (e, fl, to, vlib.hx(buf)))
                fmeta.append(("f%d" % bi, buf, fl, to, e, len(fmodel) - 1))
        fcases.append(("f%d" % bi, cmds))
    fo, _ = vlib.run_cases(h, fcases, timeout=900)
    fl_lines, _ = vlib.run_lines(model, fmodel, timeout=900)
    flines = {cid: [l for l in fo.get(cid, []) if l.startswith("scan msgs=") or l.startswith("crash")] for cid, _ in fcases}
    fpos = {}
    n_ft = 0
    for cid, buf, fl, to, e, mi_ in fmeta:
        k = fpos.get(cid, 0)
        fpos[cid] = k + 1
        line = flines[cid][k] if k < len(flines[cid]) else "crash (no output)"
        _, mfinal, _ = parse_model(fl_lines[mi_], frules)
        exp = []
        for m, r in [(m, None) for m in mfinal]:
            if m[0] in "MN":
                a = next(x["atom"] for x in frules.rules if x["name"] == m[2])
                offs = m[3]
                if (fl & F_FAST) and a[0] == "S" and offs:
                    offs = offs[:1]           # STRING_FLAGS_SINGLE_MATCH strings keep their first match in fast mode
                exp.append((m[0], m[1], m[2], offs))
            else:
                exp.append(m)
        got = protolib.parse_scan(line)
        n_ft += 1
        gotc = None if got is None else [(m[0], m[1], m[2], m[3].get("$s")) if m[0] in "MN" else m for m in got[0]]
        if got is None or gotc != exp or got[1] != 0:
            chk.violation("args:" + e, "entry %s with flags=%d timeout=%d on %d bytes: transcript %s rc=%s, the model (flags=%d) says %s"
                          % (e, fl, to, len(buf), gotc, None if got is None else got[1], fl, exp),
                          {"rules": frules.describe(), "buffer_hex": vlib.hx(buf), "entry": e, "flags": fl, "timeout": to,
                           "harness_commands": frules.commands() + ["ft %s %d %d %s" % (e, fl, to, vlib.hx(buf))],
                           "model_command": fmodel[mi_], "impl": line, "model": fl_lines[mi_]})

    # ------------------------------------------------------------ part 7: scans that END IN AN ERROR through every entry point
    # the return code is part of the result: the callback answers CALLBACK_ERROR / CALLBACK_ABORT at the first, a
    # middle, the last rule message and at SCAN_FINISHED; no callback at all.  Transcript and return code of every
    # entry point against the model (Report.v: abort -> ERROR_SUCCESS, error -> ERROR_CALLBACK_ERROR) and each other.
    zcases, zmodel, zmeta = [], [], []
    for bi, buf in enumerate([b"abcabc", b"xx"]):
        cmds = frules.commands()
        nm = len([r for r in frules.rules if not r["p"]]) + 1          # rule messages + SCAN_FINISHED with both report flags
        ks = sorted({0, nm // 2, nm - 2, nm - 1})
        for k in ks:
            for act in (1, 2):
                sc = "%d:%d" % (k, act)
                zmodel.append(model_cmd(frules, 0, sc, len(buf), [(0, buf, len(buf))], ""))
                cmds.append("script " + sc)
                for e in FT:
                    cmds.append("ft %s 0 0 %s" % (e, vlib.hx(buf)))
                    zmeta.append(("z%d" % bi, buf, sc, e, len(zmodel) - 1))
        cmds.append("script -")
        for e in FT:
            cmds.append("ft %s 0 0 %s nocb" % (e, vlib.hx(buf)))
            zmeta.append(("z%d" % bi, buf, "nocb", e, None))
        for e in FT:                                                       # and the scanner / rules still work afterwards
            cmds.append("ft %s 0 0 %s" % (e, vlib.hx(buf)))
            zmeta.append(("z%d" % bi, buf, "-", e, "plain"))
        zmodel.append(model_cmd(frules, 0, "-", len(buf), [(0, buf, len(buf))], ""))
        for i in range(len(zmeta)):
            if zmeta[i][4] == "plain" and zmeta[i][0] == "z%d" % bi:
                zmeta[i] = zmeta[i][:4] + (len(zmodel) - 1,)
        zcases.append(("z%d" % bi, cmds))
    zo, _ = vlib.run_cases(h, zcases, timeout=900)
    zl, _ = vlib.run_lines(model, zmodel, timeout=900)
    zlines = {cid: [l for l in zo.get(cid, []) if l.startswith("scan msgs=") or l.startswith("crash")] for cid, _ in zcases}
    zpos = {}
    n_fail = 0
    for cid, buf, sc, e, mi_ in zmeta:
        k = zpos.get(cid, 0)
        zpos[cid] = k + 1
        line = zlines[cid][k] if k < len(zlines[cid]) else "crash (no output)"
        got = protolib.parse_scan(line)
        if mi_ is None:
            exp, exp_rc = [], K["ERROR_CALLBACK_REQUIRED"]
        else:
            mcalls, mfinal, _ = parse_model(zl[mi_], frules)
            exp, exp_rc = mfinal, mcalls[-1][0]
        gotc = None if got is None else [(m[0], m[1], m[2], m[3].get("$s")) if m[0] in "MN" else m for m in got[0]]
        n_fail += 1
        if got is None or gotc != exp or got[1] != exp_rc:
            chk.violation("failing-scan:" + e, "entry %s, callback script %s, %d bytes: return code %s and transcript %s; expected return code %d and %s"
                          % (e, sc, len(buf), None if got is None else got[1], gotc, exp_rc, exp),
                          {"rules": frules.describe(), "buffer_hex": vlib.hx(buf), "entry": e, "script": sc,
                           "harness_commands": frules.commands() + (["script " + sc] if sc not in ("nocb", "-") else []) +
                                               ["ft %s 0 0 %s%s" % (e, vlib.hx(buf), " nocb" if sc == "nocb" else "")],
                           "impl": line, "model": None if mi_ is None else zl[mi_]})

    # ------------------------------------------------------------ part 2b: a REUSED scanner in the entry-point matrix, more than 64 rules
    # every scanner-level entry point (mem, file, fd, single-block iterator one-shot and resumed) is called on a scanner
    # that has just completed a DIFFERENT scan in which most rules - those with index >= 64 and >= 128 included -
    # matched; the result must be that of yr_rules_scan_mem (a new scanner) on the same bytes, and of the model
    nbig = 140
    batoms = []
    for k in range(nbig):
        batoms.append([("S", k % 4), ("C", k % 4, 0), ("S", (k + 1) % 4), ("Z", 10), ("U", 0, 97), ("C", (k + 2) % 4, 1)][k % 6])
    brules = mk(batoms, [(0, int(k % 11 == 5), k % 3 and 1) for k in range(nbig)])
    prime = b"abcabcabca"                      # every string matches, filesize == 10, uint8(0) == 'a'
    targets = [b"", b"bc", b"xxcaxx", b"abc", prime]
    bcases, bmodel = [], []
    BENTRIES = ["scan", "scanfile", "scanfd", "pscan", "ploop:1", "ploop:01"]
    for bi, buf in enumerate(targets):
        hxb = vlib.hx(buf)
        cmds = brules.commands() + ["strings 0", "rscan 0 0 " + hxb, "blocks %d 0:%s" % (len(buf), hxb)]
        for e in BENTRIES:
            cmds += ["script -", "sflags 0", "scan " + vlib.hx(prime)]          # the different earlier scan
            if e == "scan":
                cmds.append("scan " + hxb)
            elif e in ("scanfile", "scanfd"):
                cmds.append("%s 0 %s" % (e, hxb))
            elif e == "pscan":
                cmds += ["notready -", "piter", "pscan"]
            else:
                cmds += ["notready " + e.split(":")[1], "piter", "ploop 10"]
        bcases.append(("b%d" % bi, cmds))
        bmodel.append(model_cmd(brules, 0, "-", len(buf), [(0, buf, len(buf))], ""))
    bo, _ = vlib.run_cases(h, bcases, timeout=900)
    bl, _ = vlib.run_lines(model, bmodel + [model_cmd(brules, 0, "-", len(prime), [(0, prime, len(prime))], "")], timeout=900)
    _, prime_final, _ = parse_model(bl[len(bmodel)], brules)
    n_reused = 0
    for (cid, cmds), buf, ml in zip(bcases, targets, bl):
        lines = [l for l in bo.get(cid, []) if l.startswith("scan msgs=") or l.startswith("crash")]
        _, mfinal, _ = parse_model(ml, brules)
        mshort = [m[:3] for m in mfinal]
        replay = {"rules": "%d rules, see checks/c13.py part 2b" % nbig, "buffer_hex": vlib.hx(buf), "earlier_scan_hex": vlib.hx(prime),
                  "harness_commands": cmds, "model": ml[:400]}
        if not lines or any(l.startswith("crash") for l in lines):
            chk.violation("reused-crash", "reused-scanner case %s crashed: %s" % (cid, lines[-2:]), replay, found_input=False)
            continue
        res = [protolib.parse_scan(l) for l in lines]
        ref = [m[:3] for m in res[0][0]]
        if ref != mshort or res[0][1] != 0:
            chk.violation("reused-model", "yr_rules_scan_mem with %d rules differs from the model on %d bytes" % (nbig, len(buf)), replay)
            continue
        i = 1
        for e in BENTRIES:
            if i >= len(res):
                chk.violation("reused-crash", "output of case %s ends early at entry %s" % (cid, e), replay, found_input=False)
                break
            pr = res[i]
            i += 1
            if [m[:3] for m in pr[0]] != [m[:3] for m in prime_final]:
                chk.violation("reused:prime", "the earlier scan itself (%d rules, scanner reused before entry %s) differs from the model" % (nbig, e), replay)
            while i < len(res) and res[i][1] == 61:
                i += 1
            if i >= len(res):
                chk.violation("reused-crash", "output of case %s ends early at entry %s" % (cid, e), replay, found_input=False)
                break
            got = res[i]
            i += 1
            n_reused += 1
            gshort = [m[:3] for m in got[0]]
            if gshort != ref or got[1] != 0:
                d = next((j for j, (a, b) in enumerate(zip(gshort, ref)) if a != b), min(len(gshort), len(ref)))
                chk.violation("reused:" + e.split(":")[0], "entry %s on a scanner that completed a different scan before differs from yr_rules_scan_mem "
                              "on the same %d bytes at message %d (%d rules): reused scanner %s, new scanner %s, rc=%d"
                              % (e, len(buf), d, nbig, gshort[d:d + 3], ref[d:d + 3], got[1]), dict(replay, entry=e))

    # ------------------------------------------------------------ part 3: abandoned scans (scan_after_abandoned_equals_fresh)
    # a call returns ERROR_BLOCK_NOT_READY, the caller gives up and uses the same scanner for another buffer (new
    # iterator, or yr_scanner_scan_mem): result must be that of a new scanner - and of the model
    obs = {}
    acases, amodel, ameta = [], [], []
    ag = rng.fork()
    scen = [(mk([("C", 0, 1)]), [(0, b"abc", 3), (3, b"abc", 3)], "01", b"ab")]
    for _ in range(12 if quick else 80):
        atoms = [ag.choice([("S", ag.below(4)), ("C", ag.below(4), ag.below(3)), ("Z", ag.range(0, 6)), ("U", ag.below(6), ag.choice([97, 98, 99])), ("T",)])
                 for _ in range(ag.range(1, 4))]
        buf = bytes(ag.choice(b"abc") for _ in range(ag.range(2, 8)))
        cut = sorted(set(ag.range(1, len(buf) - 1) for _ in range(ag.range(1, 3)))) if len(buf) > 2 else [1]
        bounds = [0] + cut + [len(buf)]
        blocks = [(bounds[i], buf[bounds[i]:bounds[i + 1]], bounds[i + 1] - bounds[i]) for i in range(len(bounds) - 1)]
        k = ag.range(0, len(blocks))          # the call that is not ready
        scen.append((mk(atoms, [(int(ag.chance(1, 6)), 0, 0) for _ in atoms]), blocks, "0" * k + "1",
                     bytes(ag.choice(b"abc") for _ in range(ag.range(0, 5)))))
    for si, (rules, blocks, p, nbuf) in enumerate(scen):
        fszv = sum(sz for _, _, sz in blocks)
        cmds = rules.commands() + ["blocks %d %s" % (fszv, " ".join("%d:%s" % (b, vlib.hx(d)) for b, d, _ in blocks)),
                                   "notready " + p, "piter", "pscan", "script -", "scan " + vlib.hx(nbuf),
                                   "scanner 1", "sel 1", "scan " + vlib.hx(nbuf)]
        acases.append(("a%d" % si, cmds))
        amodel.append("c13abandon current %s %s %d %s %s %s" % (PATHEX, rules.model(), fszv,
                      ",".join("%d:%s" % (b, d.hex()) for b, d, _ in blocks), p, vlib.hx(nbuf)))
        ameta.append((rules, blocks, p, nbuf, cmds))
    aout, _ = vlib.run_cases(h, acases)
    alines, _ = vlib.run_lines(model, amodel)
    n_aband = 0
    for (cid, cmds), ml, (rules, blocks, p, nbuf, _) in zip(acases, alines, ameta):
        sl = [protolib.parse_scan(l) for l in aout.get(cid, []) if l.startswith("scan msgs=")]
        replay = {"rules": rules.describe(), "blocks": [(b, vlib.hx(d), sz) for b, d, sz in blocks], "notready_pattern": p,
                  "next_buffer_hex": vlib.hx(nbuf), "harness_commands": cmds, "model_command": amodel[acases.index((cid, cmds))], "model": ml,
                  "impl": [l for l in aout.get(cid, []) if l.startswith("scan msgs=") or l.startswith("crash")]}
        if len(sl) != 3 or sl[0][1] != 61 or any(l.startswith("crash") for l in aout.get(cid, [])):
            chk.violation("abandoned-setup", "abandoned-scan scenario did not run as planned: %s" % replay["impl"], replay, found_input=False)
            continue
        n_aband += 1
        reused, fresh = sl[1][0], sl[2][0]
        if cid == "a0":
            obs["abandoned_scan"] = {"reused_scanner": str(reused), "fresh_scanner": str(fresh), "contaminated": reused != fresh, "commands": cmds}
        if reused != fresh or sl[1][1] != sl[2][1]:
            if REPORT_ABANDONED:
                chk.violation("abandoned-not-ready-scan", "a scanner that gave up a scan after ERROR_BLOCK_NOT_READY does not scan like a new "
                              "scanner: reused=%s rc=%d, new scanner=%s rc=%d" % (reused, sl[1][1], fresh, sl[2][1]), replay)
            continue
        # and the model agrees (variant 'current')
        m = {}
        if " reused " in ml and " | fresh " in ml:
            a, b = ml.split(" reused ")[1].split(" | fresh ")
            m = {"reused": a, "fresh": b}
        def canon(msgs):
            out = []
            for x in msgs:
                out.append("%s%d" % (x[0], [r["name"] for r in rules.rules].index(x[2])) if x[0] in "MN" else x[0])
            return "".join(t + ";" for t in out)
        if not m or m["reused"] != m["fresh"] or not m["reused"].startswith("msgs=" + canon(reused) + " "):
            chk.violation("abandoned-model", "abandoned-scan scenario: implementation and model (current code) differ: impl=%s model=%s"
                          % (canon(reused), ml), replay)
    # the notebook of the abandoned scan must be released by the next scan and by yr_scanner_destroy (LeakSanitizer);
    # quick tier: only when the ASan build of this tree is already cached
    asan_cached = os.path.exists(os.path.join(build.CACHE, "%s-asan" % build.tree_hash(), "libyara.a"))
    if not quick or asan_cached:
        ha = build.harness("h_proto", "asan", extra_flags=protolib.hscan_flag())
        r1 = scen[0][0]
        end = ["sdestroy", "destroyrules", "destroycompiler"]
        pre = r1.commands() + ["blocks 6 0:616263 3:616263", "notready 01", "piter"]
        lcases = [("completed", pre + ["ploop 5"] + end), ("abandoned_destroy", pre + ["pscan"] + end),
                  ("abandoned_rescan_destroy", pre + ["pscan", "scan 6162"] + end)]
        # the entry-point matrix (exact-size heap objects, slices, PROT_NONE neighbours) under AddressSanitizer: any read
        # outside the bytes handed over is reported
        small = [(cid, cmds) for (cid, cmds), buf in zip(ecases, ebufs) if len(buf) < 64]
        ao, aerr = vlib.run_cases(ha, small, timeout=900)
        bad = [l for l in aerr.split("\n") if "AddressSanitizer" in l and "leak" not in l.lower()]
        crashed = [cid for cid, _ in small if any(l.startswith("crash") for l in ao.get(cid, []))]
        obs["asan_entry_matrix"] = {"cases": len(small), "reports": bad[:3], "crashed": crashed}
        if bad or crashed:
            chk.violation("asan-entry-matrix", "AddressSanitizer reports an access outside the scanned bytes (or the run crashed) in the entry-point "
                          "matrix: %s %s" % (bad[:2], crashed), {"harness_commands": small[0][1] if not crashed else dict(small)[crashed[0]], "variant": "asan",
                                                                   "stderr": aerr[-3000:]})
        o, _ = vlib.run_cases(ha, lcases)
        obs["abandoned_scan_leakcheck"] = {k: [l for l in o.get(k, []) if l.startswith("leakcheck") or l.startswith("crash")] for k, _ in lcases}
        for k, cmds in lcases:
            if obs["abandoned_scan_leakcheck"][k] != ["leakcheck 0"]:
                key = "abandoned-not-ready-scan" if k != "completed" else "leak-completed-scan"
                chk.violation(key, "memory is leaked (or the run crashed) in scenario '%s': %s" % (k, obs["abandoned_scan_leakcheck"][k]),
                              {"harness_commands": cmds, "variant": "asan", "how": "h_proto built with -fsanitize=address; leakcheck N = LeakSanitizer found N leaks"})
    else:
        obs["abandoned_scan_leakcheck"] = "skipped in the quick tier: no cached ASan build of this tree (runs in the thorough tier)"

    # ------------------------------------------------------------ part 4: entry point across a resumed scan (resume_keeps_entry_point)
    # the first block (or, mirror case, a later one) starts with a minimal ELF32 / ELF64 / PE header; rules use the
    # `entrypoint` keyword; not-ready answers at every call, in particular after the header block was consumed
    P1, P2 = b"xxabcxxbcaxx", b"bcabca"
    ecases4, eplan4 = [], []
    for kind, size, eoff in (("elf32", 128, 100), ("elf64", 160, 130), ("pe", 340, 320), ("elf32-nophdr", 128, 100)):
        H, ep = exe_block(kind, size, eoff)
        H2, ep2 = exe_block("elf32", 112, 90)
        rules = mk([("E", eoff), ("E", 0), ("A", 0), ("E", 90), ("S", 0), ("C", 0, 2), ("A", 1)], [(0, 0, 0)] * 5 + [(0, 1, 0), (0, 0, 0)])
        seqs = [[(H, ep), (P1, None)], [(H, ep), (P1, None), (P2, None)], [(P1, None), (H, ep), (P2, None)],
                [(H, ep), (H2, ep2)], [(P2, None), (H2, ep2), (H, ep)]]
        if kind == "elf32":
            seqs.append([(P1, None), (P2, None)])
        cmds = rules.commands()
        plan = []
        for seq in seqs:
            blocks, base = [], 0
            for d, e in seq:
                blocks.append((base, d, len(d), e))
                base += len(d)
            nb = len(blocks)
            L = nb + (2 if quick else 3)
            pats = ["".join(p) for n in range(0, L + 1) for p in itertools.product("01", repeat=n)]
            pats = [p for p in pats if p == "" or p.endswith("1")]
            cmds.append("blocks %d %s" % (base, " ".join("%d:%s" % (b, vlib.hx(d)) for b, d, _, _ in blocks)))
            hdr_idx = min(i for i, (_, e) in enumerate(seq) if e is not None) if any(e is not None for _, e in seq) else None
            for p in pats:
                cmds += ["notready " + (p or "-"), "piter", "ploop 40"]
                plan.append((blocks, base, p, hdr_idx))
        ecases4.append(("ep_" + kind, cmds))
        eplan4.append((rules, kind, plan))
    o4, _ = vlib.run_cases(h, ecases4, timeout=900)
    m4 = [model_cmd(rules, 0, "-", fsz, blocks, p) for rules, kind, plan in eplan4 for blocks, fsz, p, _ in plan]
    ml4, _ = vlib.run_lines(model, m4, timeout=900)
    n_ep = n_ep_after = 0
    mi = 0
    for (cid, cmds), (rules, kind, plan) in zip(ecases4, eplan4):
        lines = o4.get(cid, [])
        if any(l.startswith("crash") for l in lines) or not any(l == "getrules rc=0" for l in lines):
            chk.violation("crash", "entry-point case %s crashed or did not compile: %s" % (cid, [l for l in lines if "crash" in l or "errors=" in l][:3]),
                          {"harness_commands": cmds[:12]}, found_input=False)
            mi += len(plan)
            continue
        runs, cur = [], []
        for l in lines:
            if l.startswith("scan msgs="):
                cur.append(l)
            elif l.startswith("ploop "):
                runs.append(cur)
                cur = []
        for ri, (blocks, fsz, p, hdr_idx) in enumerate(plan):
            mline, mcmd = ml4[mi], m4[mi]
            mi += 1
            mcalls, mfinal, summ = parse_model(mline, rules)
            icalls, ifinal = impl_calls(runs[ri]) if ri < len(runs) else ([], None)
            conforming = summ.get("conforming") == "true"
            n_ep += 1
            # not-ready after the header block was consumed: at least hdr_idx + 1 ready answers before a '1'
            after = hdr_idx is not None and any(c == "1" and p[:i].count("0") >= hdr_idx + 1 for i, c in enumerate(p))
            n_ep_after += bool(after) and conforming
            replay = {"rules": rules.describe(), "header": kind, "blocks": [(b, "%d bytes%s" % (sz, "" if e is None else ", executable header, entry point offset %d" % e)) for b, d, sz, e in blocks],
                      "notready_pattern": p, "conforming": conforming,
                      "harness_commands": rules.commands() + ["blocks %d %s" % (fsz, " ".join("%d:%s" % (b, vlib.hx(d)) for b, d, _, _ in blocks)),
                                                              "notready " + (p or "-"), "piter", "ploop 40"],
                      "model_command": mcmd, "impl": runs[ri] if ri < len(runs) else None, "model": mline,
                      "one_shot": "same harness_commands with 'notready -'"}
            if summ.get("driver_agrees") != "true":
                chk.violation("model-internal", "extracted rs_run and the call-by-call driver disagree: " + mline[-200:], replay, found_input=False)
            if icalls != mcalls:
                chk.violation("entrypoint-calls:" + ("conforming" if conforming else "outside-contract"),
                              "%s header, pattern %s: sequence of calls differs: impl=%s model=%s" % (kind, p or "-", icalls, mcalls), replay)
            elif ifinal != mfinal:
                chk.violation("entrypoint:" + ("resumed" if p else "one-shot") + (":conforming" if conforming else ":outside-contract"),
                              "%s header, not-ready pattern %s: rules using entrypoint are reported differently from the model (= the one-shot scan): "
                              "impl=%s model=%s" % (kind, p or "-", [m[:3] for m in ifinal or []], [m[:3] for m in mfinal or []]), replay)
            elif after and conforming and kind != "elf32-nophdr":
                chk.sample({"header": kind, "blocks": replay["blocks"], "pattern": p, "model": mline[-160:]}, cap=6)

    # ------------------------------------------------------------ part 5: what the caller owns is part of every entry point's result
    # (a monitor on the implementation, not a theorem: the model has no descriptors).  One descriptor kept open
    # across several fd scans through both fd entry points, unrelated files opened in between (a descriptor number
    # the library closed would be reused by them); every entry point: caller's buffer unchanged, scanned file
    # unchanged, descriptor still open / same file / same position, no descriptor leaked - also on failing paths.
    K = vlib.consts()
    orules = mk([("S", 0), ("C", 0, 2), ("Z", 6), ("U", 1, 98), ("S", 3)])
    obufs = [b"abcabc", b"", b"a", bytes(ebufs[4]), b"cabcabca"]
    if not quick:
        obufs += [bytes(rng.choice(b"abcx") for _ in range(rng.range(1, 60))) for _ in range(12)]
    ocases = []
    for bi, buf in enumerate(obufs):
        hxb = vlib.hx(buf)
        cmds = orules.commands() + ["rscan 0 0 " + hxb]
        cmds += ["own %s 0 %s" % (e, hxb) for e in ("rmem", "smem", "rfile", "sfile", "rfd", "sfd")]
        cmds += ["fdopen %s %d" % (hxb, min(2, len(buf)))]
        order = ["r", "s", "r", "r", "s", "s", "r"]
        rng.shuffle(order)
        order = ["r"] + order          # the rules-level entry first at least once, then a mix
        for w in order:
            cmds += ["fdscan %s 0" % w, "fddecoy " + vlib.hx(b"zzzz" + bytes(rng.choice(b"abc") for _ in range(5)))]
        cmds += ["fdend", "own rfd 0 " + hxb]
        if bi == 0:
            cmds += ["ownpath %s %s" % (e, k) for e in ("rfile", "sfile") for k in ("missing", "dir", "empty", "unreadable")]
        ocases.append(("o%d" % bi, cmds))
    oo, _ = vlib.run_cases(h, ocases, timeout=900)
    n_own = 0
    for (cid, cmds), buf in zip(ocases, obufs):
        lines = [l for l in oo.get(cid, []) if l.startswith("scan msgs=") or l.startswith("own ") or l.startswith("crash")]
        if not lines or any(l.startswith("crash") for l in lines) or not lines[0].startswith("scan msgs="):
            chk.violation("own-crash", "resource case %s crashed or printed nothing: %s" % (cid, lines[-2:]), {"harness_commands": cmds}, found_input=False)
            continue
        ref = protolib.parse_scan(lines[0])
        pairs = list(zip(lines[1::2], lines[2::2]))
        short = len(buf) < 200
        for scan_l, own_l in pairs:
            n_own += 1
            got = protolib.parse_scan(scan_l)
            f = dict(x.split("=", 1) for x in own_l.split(" ")[1:])
            replay = {"rules": orules.describe(), "buffer_hex": vlib.hx(buf) if short else "len=%d" % len(buf),
                      "harness_commands": cmds if short else "see checks/c13.py part 5", "entry": f.get("entry"), "impl": [scan_l, own_l],
                      "reference": lines[0] if short else lines[0][:200]}
            if "path" in f:
                exp_rc = {"missing": K["ERROR_COULD_NOT_OPEN_FILE"], "dir": K["ERROR_COULD_NOT_OPEN_FILE"], "empty": 0,
                          "unreadable": 0 if f.get("euid") == "0" else K["ERROR_COULD_NOT_OPEN_FILE"]}[f["path"]]
                if got is None or got[1] != exp_rc or (exp_rc != 0 and got[0]):
                    chk.violation("own:path-rc", "%s on a %s path: rc/callbacks %s, expected rc=%d" % (f["entry"], f["path"], scan_l, exp_rc), replay)
                if f.get("fds") != "0":
                    chk.violation("own:fd-leak", "%s on a %s path changes the number of open descriptors by %s" % (f["entry"], f["path"], f.get("fds")), replay)
                continue
            if got is None or (got[0], got[1]) != (ref[0], ref[1]):
                chk.violation("own:result:" + f.get("entry", "?"), "entry %s on %d bytes (descriptor kept open, other files opened in between) differs from "
                              "yr_rules_scan_mem of the same bytes: %s vs %s" % (f.get("entry"), len(buf), scan_l[:300], lines[0][:300]), replay)
            bad = []
            if f.get("buf", "same") != "same":
                bad.append("the caller's buffer was written")
            if f.get("file", "same") != "same":
                bad.append("the scanned file was modified")
            if "fd" in f:
                st = f["fd"].split(",")
                if st[0] != "open":
                    bad.append("the caller's descriptor was closed by the library")
                else:
                    if st[1] != "same":
                        bad.append("the caller's descriptor refers to another file")
                    now, was = st[2].split("=")[1].split(":")          # pos=<now>:<before>
                    if now != was:
                        bad.append("the descriptor's file position moved from %s to %s" % (was, now))
            if f.get("fds") != "0":
                bad.append("number of open descriptors changed by " + str(f.get("fds")))
            if bad:
                chk.violation("own:" + f.get("entry", "?"), "entry %s on %d bytes: %s (%s)" % (f.get("entry"), len(buf), "; ".join(bad), own_l), replay)

    # ------------------------------------------------------------ exploration (outside the proved statements)
    # (b) an iterator whose first() rewinds before it knows whether it is ready: the retry (which calls next()) skips block 0
    r2 = mk([("C", 0, 2)])
    base = r2.commands() + ["blocks 6 0:616263 3:616263", "notready 1"]
    o, _ = vlib.run_cases(h, [("keep", base + ["piter", "ploop 5"]), ("naive", base + ["pmode naive", "piter", "ploop 5"])])
    fin = {k: (impl_calls([l for l in o[k] if l.startswith("scan msgs=")])) for k in ("keep", "naive")}
    obs["not_ready_first_with_rewinding_iterator"] = {
        "position_keeping": str(fin["keep"]), "rewinding": str(fin["naive"]), "first_block_lost": fin["keep"][1] != fin["naive"][1],
        "what": "capi.rst does not say that after a not-ready first() the scanner continues with next(); an iterator that "
                "sets its position in first() before the readiness test loses block 0 on the retry"}
    chk.note(evaluations=n_runs + n_entry + n_aband + n_ep + n_own + n_reused + n_guard + n_rx + n_ft + n_fail, distinct_nontrivial=len([d for d in distinct if "1" in d[2]]),
             traces_validated_against_impl=n_runs + n_entry + n_aband + n_ep + n_own + n_reused + n_guard + n_rx + n_ft + n_fail, interrupted_runs=n_interrupted, conforming_patterns=n_conf,
             patterns_outside_contract=n_nonconf, follow_up_scans=n_follow, entry_point_scans=n_entry, abandoned_scan_scenarios=n_aband, failing_scans=n_fail, flags_timeout_scans=n_ft, guarded_block_runs=n_guard, regexp_entry_scans=n_rx, reused_scanner_entry_scans=n_reused, owned_resource_scans=n_own, entrypoint_runs=n_ep, entrypoint_runs_interrupted_after_header_block=n_ep_after, observations=obs,
             rule="one evaluation = one complete run (all calls until the scan completes) or one entry-point scan; distinct = different "
                  "(buffer, block partition incl. null-data blocks, file_size known?, not-ready pattern); non-trivial = at least one "
                  "not-ready answer")
    chk.assumptions += [
        "the iterator is position keeping (harness/h_proto.c): a not-ready answer changes only last_error; next() after a not-ready "
        "first() delivers block 0.  With an iterator whose first() rewinds before it knows whether it is ready and whose next() "
        "pre-increments (harness/h_scan.c's), a not-ready first() makes the retry skip block 0: the continuation path never calls first()",
        "string matching is per block (nothing is carried over a block border): strings straddling a border are not found, by design",
        "patterns outside the contract (not ready during the re-iteration done by rule evaluation) are compared with the model too "
        "(the read is undefined, the scan succeeds); they are outside resume_equivalent's premise",
        "yr_scanner_scan_mem's TOO_SLOW_SCANNING pre-check (buffers > 200000 bytes with a root-state atom) is not modelled: buffers stay small",
        "mmap / open / fstat of filemap.c are exercised, not modelled; an empty file is modelled as data = NULL, size 0",
        "resources the caller owns (descriptor open / same file / same position, buffer checksum, file identity and mtime, number of "
        "open descriptors before/after, also on failing paths) are monitored on the implementation for every entry point; the model "
        "has no descriptors, so this part is correspondence with yr_rules_scan_mem plus invariants, not a theorem",
        "yr_get_entry_point_offset is an oracle of the model: the generator builds minimal ELF32 / ELF64 / PE headers and tells the model "
        "the offset they map the entry point to (an ELF whose entry cannot be mapped gives 0, not undefined); the one-shot run of every "
        "block sequence is compared with the model too, which checks those claims"]


def replay(chk, path):
    r = json.load(open(path))["replay"]
    h = build.harness("h_proto", extra_flags=protolib.hscan_flag())
    model = protolib.private_model()
    out, _ = vlib.run_cases(h, [("replay", r["harness_commands"])])
    print("impl :", [l for l in out["replay"] if l.startswith("scan") or l.startswith("ploop") or l.startswith("crash")])
    if r.get("model_command", "-") != "-":
        ml, _ = vlib.run_lines(model, [r["model_command"]])
        print("model:", ml[0])
    return 0
