"""C02: hex-string matches are exactly the documented occurrences."""
import vlib, build, regen, recheck
from vlib import hx

PROPS = "Props/Properties_C02.v"


def shape(toks):
    kinds = sorted(set(t[0] for t in toks))
    big = any(t[0] == "jump" and (t[2] is None or t[2] > 200 or t[1] > 200) for t in toks)
    return "+".join(kinds) + ("/chained" if big else "")


def tok_lengths(t):
    """(min, max) length of a token; max None = unbounded"""
    if t[0] == "jump":
        return (t[1], t[2])
    if t[0] == "alt":
        ls = [seq_lengths(a) for a in t[1]]
        return (min(l[0] for l in ls), None if any(l[1] is None for l in ls) else max(l[1] for l in ls))
    return (1, 1)


def seq_lengths(toks):
    lo = sum(tok_lengths(t)[0] for t in toks)
    his = [tok_lengths(t)[1] for t in toks]
    return (lo, None if any(h is None for h in his) else sum(his))


def chained_variable_piece(toks):
    """is the pattern split into chained pieces (a top-level jump beyond YR_STRING_CHAINING_THRESHOLD) with a piece before the last one
    that can match with several lengths?  (known finding: only one length of such a piece is remembered)"""
    pieces, cur = [], []
    for t in toks:
        if t[0] == "jump" and (t[2] is None or t[2] > 200 or t[1] > 200):
            pieces.append(cur)
            cur = []
        else:
            cur.append(t)
    pieces.append(cur)
    if len(pieces) < 2:
        return False
    return any(seq_lengths(p)[0] != seq_lengths(p)[1] for p in pieces[:-1])


def chain_item(r):
    """a pattern that the engine splits into 3..4 chained pieces (jumps above YR_STRING_CHAINING_THRESHOLD), and buffers with
    several candidate heads, several occurrences of each middle piece at gaps on and around the jump bounds, and tails"""
    k = r.range(3, 4)
    pieces, jumps = [], []
    used = set()
    for pi in range(k):
        while True:
            lit = bytes([r.choice(b"ABCDEFGH") + 0 for _ in range(r.range(2, 4))])
            if lit not in used and not any(lit in u or u in lit for u in used):
                used.add(lit)
                break
        pieces.append(lit)
    for ji in range(k - 1):
        c = r.below(6)
        hi = r.choice([201, 202, 230, 250, 300, 420, 700, 2000])
        if c == 0:
            jumps.append((r.range(0, 40), None))
        elif c == 1:
            jumps.append((hi, hi))
        else:
            jumps.append((r.choice([0, 0, 1, 5, 50, 150, hi - 1]), hi))
    toks = []
    for pi in range(k):
        for bi, b in enumerate(pieces[pi]):
            toks.append(("any",) if (bi == 1 and len(pieces[pi]) > 3 and r.chance(1, 5)) else ("b", b))
        if pi < k - 1:
            toks.append(("jump", jumps[pi][0], jumps[pi][1]))
    bufs = []
    for _ in range(3):
        size = r.choice([700, 1200, 1800, 2600])
        b = bytearray(r.choice(b".,:") for _ in range(size))

        def put(pos, lit):
            if 0 <= pos and pos + len(lit) <= size:
                b[pos:pos + len(lit)] = lit
                return True
            return False

        def gap(j):
            lo, hi = j
            if hi is None:
                return r.choice([lo, lo + 1, max(lo - 1, 0), lo + r.below(300)])
            return r.choice([lo, max(lo - 1, 0), hi, hi + 1, max(hi - 1, 0), (lo + hi) // 2, lo + r.below(hi - lo + 1), r.below(120)])
        for hd in range(r.range(1, 3)):
            pos = r.below(size // 2)
            put(pos, pieces[0])
            ends_ = [pos + len(pieces[0])]
            for pi in range(1, k):
                nxt = []
                for e in ends_[:3]:
                    for _rep in range(r.range(1, 3) if pi < k - 1 else r.range(0, 2)):
                        q = e + gap(jumps[pi - 1])
                        if put(q, pieces[pi]):
                            nxt.append(q + len(pieces[pi]))
                ends_ = nxt
        bufs.append(bytes(b))
    return ("{ %s }" % regen.hex_print(toks), regen.hex_sexp(toks), bufs,
            {"shape": "chain%d%s" % (k, "+unbounded" if any(j[1] is None for j in jumps) else ""), "cmd": "hexf", "pat": regen.hex_pat(toks)})


def ooo_tail_item(r):
    """a chained pattern whose last piece has two alternatives with their atoms at different depths, on data where the alternative with the
    deep atom starts one byte before the other one: the scanner finds the later-starting match first (matches are found in the order of
    their atoms' end positions, not of their offsets), and only the earlier one is within the jump's bounds"""
    head = bytes(r.choice(b"ABCDEFGH") for _ in range(4))
    a1 = bytes([0x11 + r.below(4), 0x22, 0x33, 0x44])
    a2 = bytes([0x55 + r.below(4), 0x66, 0x77, 0x88])
    n = r.range(5, 12)
    hi = r.choice([201, 250, 300, 420])
    lo = r.choice([0, 0, hi - 1, 150])
    m = r.range(1, 6)
    toks = [("b", c) for c in head] + [("jump", lo, hi)] + \
           [("alt", [[("any",)] * n + [("b", c) for c in a1], [("b", c) for c in a2] + [("any",)] * m])]
    bufs = []
    for shift in (1, 2, 3):
        if shift + 4 > n:
            continue
        for gap in (hi, hi - 1, lo):
            tail = bytearray(b"." * (n + 4))
            tail[shift:shift + 4] = a2          # the alternative with the shallow atom starts `shift` bytes later ...
            tail[n:n + 4] = a1                  # ... and the one with the deep atom starts at the jump's bound
            bufs.append(b"~~" + head + b"." * gap + bytes(tail) + b"." * (m + 2))
    return ("{ %s }" % regen.hex_print(toks), regen.hex_sexp(toks), bufs[:6],
            {"shape": "chain-tail-out-of-order", "cmd": "hexf", "pat": regen.hex_pat(toks)})


def run(chk):
    tier = chk.tier
    ok, log, st = vlib.proof_obligations(chk, PROPS)
    if not ok:
        chk.violation("proof", "C02 obligations no longer check: " + log[-1200:], {"log": log[-4000:], "generated": st}, found_input=False)
    hscan = build.harness("h_scan")
    model = vlib.build_model()
    n = 140 if tier == "quick" else 2500
    items = []
    nbig = 0
    for i in range(n):
        r = chk.rng.fork()
        g = regen.HexGen(r.fork())
        toks = g.gen()
        txt = regen.hex_print(toks)
        sexp = regen.hex_sexp(toks)
        decl = "{ %s }" % txt
        big = any(t[0] == "jump" and t[2] is not None and t[2] >= 190 for t in toks)
        unbounded = any(t[0] == "jump" and t[2] is None for t in toks)
        # the expression reference unfolds jumps over Peano positions (cubic in the jump size): patterns with jumps above the
        # chaining threshold go through the interval-based reference (Spec/HexSpec.v, proved exact as well), a third of the
        # others too
        fast = big or r.chance(1, 3)
        if big:
            nbig += 1
        sizes = [r.choice([4, 16, 60]) for _ in range(4)] if not big else [r.choice([215, 240, 270, 460]) for _ in range(3)]
        bufs = []
        for sz in sizes:
            b = bytearray(recheck.make_buffer(r, [sexp], sz, regen.ALPHA + b"\0\xff\n\r"))
            if big:
                # gaps exactly at, one below and one above the jump bounds: plant head and tail pieces explicitly
                for t_i, t in enumerate(toks):
                    if t[0] == "jump" and t[2] is not None and t[2] >= 190:
                        head = regen.sample_match(r, regen.hex_sexp(toks[:t_i]))
                        tail = regen.sample_match(r, regen.hex_sexp(toks[t_i + 1:]))
                        gap = r.choice([t[1], max(t[1] - 1, 0), t[2], t[2] + 1, t[2] - 1, (t[1] + t[2]) // 2])
                        if len(head) + gap + len(tail) <= sz:
                            p = r.below(sz - (len(head) + gap + len(tail)) + 1)
                            b[p:p + len(head)] = head
                            q = p + len(head) + gap
                            b[q:q + len(tail)] = tail
                            if r.chance(1, 2) and q + len(tail) + 3 + len(tail) <= sz:
                                b[q + len(tail) + 3:q + len(tail) + 3 + len(tail)] = tail      # a second candidate tail
            bufs.append(bytes(b))
        for a in g.aim:
            # aimed at a jump that one verification enters at two offsets
            bufs.append(b".." + a + b"..")
            bufs.append(a)
        meta = {"shape": shape(toks) + ("/aimed" if g.aim else "")}
        if chained_variable_piece(toks):
            meta["known_missed_key"] = "chained-piece-variable-length"
        if fast:
            meta.update(cmd="hexf", pat=regen.hex_pat(toks))
        items.append((decl, sexp, bufs, meta))
    nchain = 30 if tier == "quick" else 500
    for i in range(nchain):
        items.append(chain_item(chk.rng.fork()))
    for i in range(8 if tier == "quick" else 120):
        items.append(ooo_tail_item(chk.rng.fork()))
    agree, total, nontriv, rejected = recheck.compare(chk, model, hscan, items, "hex")
    # probe of the known finding: a chained piece that can match with several lengths is remembered with one of them only
    kd = bytearray(b"." * 260)
    kd[0], kd[2], kd[80], kd[231] = 0x41, 0x42, 0x42, 0x43
    ksrc = "rule k { strings: $a = { 41 [1-100] 42 [150-201] 43 } condition: $a }"
    pout, _ = vlib.run_cases(hscan, [("k", ["newcompiler", "add " + hx(ksrc.encode()), "getrules", "scanner 0", "scan " + hx(bytes(kd))])], timeout=120, args=["30"])
    sk = [l for l in pout.get("k", []) if l.startswith("scan msgs=")]
    if sk and "M:default:k" not in sk[0]:
        chk.violation("chained-piece-variable-length", "{ 41 [1-100] 42 [150-201] 43 } does not match A . B (77 bytes) B (150 bytes) C at offset 0: the first piece "
                      "is remembered with its shortest length (3), from which the last piece is too far, although the piece also matches with length 81",
                      {"rule": ksrc, "buffer": "260 dots with 41 at 0, 42 at 2 and 80, 43 at 231", "output": sk[0][:200]})
    # probe of the known finding: a hex string that is not a plain literal and is longer than YR_RE_SCAN_LIMIT bytes never matches
    lim = int(vlib.consts().get("YR_RE_SCAN_LIMIT", 1024))
    for n_, key in ((lim - 4, "scan-limit-probe"), (lim + 1, "non-literal-longer-than-scan-limit")):
        toks_ = ["%02X" % (i % 251 + 1) for i in range(n_)]
        toks_[n_ // 2] = "??"
        data_ = bytes(i % 251 + 1 for i in range(n_))
        src_ = "rule r { strings: $a = { %s } condition: $a }" % " ".join(toks_)
        pout, _ = vlib.run_cases(hscan, [("p", ["newcompiler", "add " + hx(src_.encode()), "getrules", "scanner 0", "scan " + hx(b"xx" + data_ + b"yy")])], timeout=120, args=["30"])
        sc_ = [l for l in pout.get("p", []) if l.startswith("scan msgs=")]
        if sc_ and "M:default:r" not in sc_[0]:
            chk.violation(key, "a hex string of %d bytes with one ?? in the middle does not match its own bytes (YR_RE_SCAN_LIMIT = %d): strings that are not plain "
                          "literals never match when the match is longer than the limit" % (n_, lim),
                          {"rule": src_[:300] + " ...", "length": n_, "how": "the data is xx + the bytes 01 02 .. (i %% 251 + 1) + yy", "output": sc_[0][:200]})
    dist = {}
    for it in items:
        for k in it[3]["shape"].replace("/", "+").split("+"):
            dist[k] = dist.get(k, 0) + 1
    chk.note(evaluations=total, distinct_nontrivial=len(nontriv), traces_validated_against_impl=agree, rejected_at_compile_time=rejected,
             token_kinds=dist,
             rule="hex strings from a generator-owned AST (bytes, ??, nibble masks, ~ negations, jumps [n] [n-m] [n-] incl. bounds around the "
                  "200-byte chaining threshold, nested alternatives) x buffers with planted members, for chained patterns head/tail pieces at gaps "
                  "min-1/min/max-1/max/max+1 and a second candidate tail; 3- and 4-piece chains of literal pieces with several candidate heads "
                  "and repeated middle pieces on buffers up to 2600 bytes (interval-based reference); offsets must equal the reference's, lengths must be admissible; "
                  "distinct = (token kinds, #matches class, match at 0)")
    chk.sample({"string": items[0][0], "sexp": items[0][1], "buffer_hex": hx(items[0][2][0])})
    chk.assumptions += ["buffers shorter than YR_RE_SCAN_LIMIT per unchained piece"]
