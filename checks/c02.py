"""C02: hex-string matches are exactly the documented occurrences."""
import vlib, build, regen, recheck
from vlib import hx

PROPS = "Props/Properties_C02.v"


def shape(toks):
    kinds = sorted(set(t[0] for t in toks))
    big = any(t[0] == "jump" and (t[2] is None or t[2] > 200 or t[1] > 200) for t in toks)
    return "+".join(kinds) + ("/chained" if big else "")


def run(chk):
    tier = chk.tier
    ok, log, st = vlib.proof_obligations(chk, PROPS)
    if not ok:
        chk.violation("proof", "C02 obligations no longer check: " + log[-1200:], {"log": log[-4000:], "generated": st}, found_input=False)
    hscan = build.harness("h_scan")
    model = vlib.build_model()
    n = 140 if tier == "quick" else 2500
    items = []
    nbig = 0
    maxbig = 8 if tier == "quick" else 60
    for i in range(n):
        r = chk.rng.fork()
        g = regen.HexGen(r.fork())
        toks = g.gen()
        txt = regen.hex_print(toks)
        sexp = regen.hex_sexp(toks)
        decl = "{ %s }" % txt
        big = any(t[0] == "jump" and t[2] is not None and t[2] >= 190 for t in toks)
        unbounded = any(t[0] == "jump" and t[2] is None for t in toks)
        # the executable reference is cubic in the jump size (Peano positions): patterns with jumps above the chaining
        # threshold get two buffers just above it and their number is capped; unbounded jumps get small buffers only
        if big and (nbig >= maxbig or unbounded):
            toks = [t if not (t[0] == "jump" and t[2] is not None and t[2] >= 190) else ("jump", t[1] % 4, t[1] % 4 + 3) for t in toks]
            txt = regen.hex_print(toks)
            sexp = regen.hex_sexp(toks)
            decl = "{ %s }" % txt
            big = False
        if big:
            nbig += 1
        sizes = [r.choice([4, 16, 60]) for _ in range(4)] if not big else [r.choice([215, 240, 270]) for _ in range(2)]
        bufs = []
        for sz in sizes:
            b = bytearray(recheck.make_buffer(r, [sexp], sz, regen.ALPHA + b"\0\xff"))
            if big:
                # gaps exactly at, one below and one above the jump bounds: plant head and tail pieces explicitly
                for t_i, t in enumerate(toks):
                    if t[0] == "jump" and t[2] is not None and t[2] >= 190:
                        head = regen.sample_match(r, regen.hex_sexp(toks[:t_i]))
                        tail = regen.sample_match(r, regen.hex_sexp(toks[t_i + 1:]))
                        gap = r.choice([t[1], max(t[1] - 1, 0), t[2], t[2] + 1, t[2] - 1, (t[1] + t[2]) // 2])
                        if len(head) + gap + len(tail) <= sz:
                            p = r.below(sz - (len(head) + gap + len(tail)) + 1)
                            b[p:p + len(head)] = head
                            q = p + len(head) + gap
                            b[q:q + len(tail)] = tail
                            if r.chance(1, 2) and q + len(tail) + 3 + len(tail) <= sz:
                                b[q + len(tail) + 3:q + len(tail) + 3 + len(tail)] = tail      # a second candidate tail
            bufs.append(bytes(b))
        items.append((decl, sexp, bufs, {"shape": shape(toks)}))
    agree, total, nontriv, rejected = recheck.compare(chk, model, hscan, items, "hex")
    dist = {}
    for it in items:
        for k in it[3]["shape"].replace("/", "+").split("+"):
            dist[k] = dist.get(k, 0) + 1
    chk.note(evaluations=total, distinct_nontrivial=len(nontriv), traces_validated_against_impl=agree, rejected_at_compile_time=rejected,
             token_kinds=dist,
             rule="hex strings from a generator-owned AST (bytes, ??, nibble masks, ~ negations, jumps [n] [n-m] [n-] incl. bounds around the "
                  "200-byte chaining threshold, nested alternatives) x buffers with planted members, for chained patterns head/tail pieces at gaps "
                  "min-1/min/max-1/max/max+1 and a second candidate tail; offsets must equal the reference's, lengths must be admissible; "
                  "distinct = (token kinds, #matches class, match at 0)")
    chk.sample({"string": items[0][0], "sexp": items[0][1], "buffer_hex": hx(items[0][2][0])})
    chk.assumptions += ["buffers shorter than YR_RE_SCAN_LIMIT per unchained piece"]
