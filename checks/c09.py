"""C09: concurrent scans that share one rule set are race-free and deterministic.   PARTIAL (see LEVEL_NOTE)

Proof: coq/Props/Properties_C09.v over coq/Model/Concurrent.v (interleaving semantics; YR_TRYCATCH entry/exit as the
five atomic steps each of exception.h; frame property => non-interference for every schedule and thread count;
handler protocol as an invariant of every schedule prefix; per-scanner definitions private).

Tie (harness/h_thr.c, every run):
 (a) frame monitor: the rules are loaded into a protected region (link-time wrapped allocator: every allocation of
     yr_rules_load_stream on its own pages) that is PROT_READ while the threads scan; a write faults and is reported
     as (arena buffer, offset) -> (struct, index, field) through the layout constants of coq/gen/GenConsts.v.  The
     monitor is itself tested on every run: a callback that calls yr_rule_disable MUST be reported.
     In addition every writable global of libyara (nm) is compared before/after each run (allow list: the handler
     protocol's own variables).
 (b) N = 1, 2, 8, 32 threads, each with its own scanner or through yr_rules_scan_mem/_file, different buffers (text,
     PE, ELF, empty, random), per-scanner externals, module data, callback aborts/errors, timeouts, memory-mapped files
     truncated under the scan (SIGBUS recovered by libyara's handler while other threads scan): every thread's trace
     equals the trace of the same job run alone.
 (b') every callback message that carries a pointer is compared BY CONTENT with the solo run: console.log / console.hex in
     all eight forms (int, string, float, message+value) with a different value per scanner (externals id / fid / sid,
     different file sizes), module names / module objects / module data, rule + tags + metas + strings + matched bytes,
     the YR_STRING of CALLBACK_MSG_TOO_MANY_MATCHES (a million matches).  Free running with hundreds of repetitions
     per thread AND deterministically: thread A is parked inside its k-th callback of a kind (every console message in
     turn) before it reads the message, thread B completes a whole scan with other values, then A reads.
 (b'') per-scan resources are per scanner: timeouts (a CPU bound scan calibrated to ~0.4 s alone, 12 concurrent copies through
     own scanners and yr_rules_scan_mem with a 2 s timeout must end as alone; scans that time out alone must time out
     concurrently, neither early nor late; verdicts from wall time measured around every scan, so a loaded machine gives
     "inconclusive", not a violation), the match cap (YR_MAX_STRING_MATCHES reached in one thread, others unchanged), the
     regexp fiber pool (ERROR_TOO_MANY_RE_FIBERS in one thread, others unchanged), notebooks (matched bytes compared).
     Profiling counters are not compiled in (YR_PROFILING_ENABLED is off in the harness build).
 (c) handler protocol: all threads are stopped inside callbacks (inside / outside a try section, with / without
     SCAN_FLAGS_NO_TRYCATCH); exception_handler_usecount, the SIGBUS disposition and the TLS slot are read and compared
     with the extracted model run on an interleaving of the same per-thread prefixes; a sampler thread checks
     installed == (count > 0) under the mutex all the time; after every run: count 0, original handler.
 (d) the same workload (console rules and parked interleavings included) under ThreadSanitizer, in both tiers (the tsan
     build of a tree is cached; cold it costs about half a minute): a report with a frame inside libyara is a
     violation.  A static buffer in a module's .bss is invisible to the frame monitor: the globals diff, (b') and
     ThreadSanitizer are what see it (model: module_static_buffer_refutes_noninterference)."""
import os, re, json, subprocess, hashlib
import vlib, build, protolib

PROPS = "Props/Properties_C09.v"
LEVEL = "proof"
LEVEL_NOTE = ("PARTIAL: non-interference, the handler protocol and the privacy of scanner-level definitions are proved for the "
              "interleaving model, for every schedule and thread count; that real scans are steps of that model (read the rules, "
              "write only their scanner) is monitored (mprotect frame monitor, globals diff, trace equality, ThreadSanitizer), "
              "not proved; data races below the model (libc, OpenSSL, rand(), TLS) are observed, not proved absent")
WRAP = ["-Wl,--wrap=malloc,--wrap=calloc,--wrap=realloc,--wrap=free", "-no-pie"]
DATA = os.path.join(build.REPO, "tests", "data")
GLOBALS_ALLOWED = {"exception_handler_usecount", "exception_handler_mutex", "old_sigbus_exception_handler",
                   "old_sigsegv_exception_handler"}

BUFSTRUCT = {0: "YR_NAMESPACE", 1: "YR_RULE", 2: "YR_META", 3: "YR_STRING", 4: "YR_EXTERNAL_VARIABLE", 10: "YR_AC_MATCH",
             11: "YR_SUMMARY"}
BUFNAME = {5: "sz pool", 6: "condition code", 7: "regexp code", 8: "AC transition table", 9: "AC match table"}


def layout():
    """struct -> (size, [(offset, field)]) from coq/gen/GenConsts.v"""
    txt = open(os.path.join(vlib.COQ, "gen", "GenConsts.v")).read()
    size = {m.group(1): int(m.group(2)) for m in re.finditer(r"Definition sizeof_(\w+) : Z := (\d+)%Z", txt)}
    fields = {}
    for m in re.finditer(r"Definition off_(YR_[A-Z_]+?)_([a-z_0-9]+) : Z := (\d+)%Z", txt):
        fields.setdefault(m.group(1), []).append((int(m.group(3)), m.group(2)))
    return {k: (size[k], sorted(fields.get(k, []))) for k in size}


def where(label, off, lay):
    m = re.match(r"buf(\d+)$", label)
    if not m:
        return "%s+%d" % (label, off)
    b = int(m.group(1))
    if b in BUFSTRUCT and BUFSTRUCT[b] in lay:
        sz, fl = lay[BUFSTRUCT[b]]
        idx, fo = off // sz, off % sz
        f = [n for o, n in fl if o <= fo]
        return "arena buffer %d offset %d = %s[%d].%s" % (b, off, BUFSTRUCT[b], idx, f[-1] if f else "+%d" % fo)
    return "arena buffer %d (%s) offset %d" % (b, BUFNAME.get(b, "?"), off)


def libyara_globals(binary, variant="plain"):
    """writable globals defined by libyara.a's objects, with their addresses in the (non-PIE) harness binary"""
    lib = os.path.join(build.ensure_build(variant), "libyara.a")
    names = {}
    out = subprocess.run(["nm", "-S", "--defined-only", lib], stdout=subprocess.PIPE, stderr=subprocess.DEVNULL, text=True).stdout
    for line in out.split("\n"):
        f = line.split()
        if len(f) == 4 and f[2] in "bBdD":
            names.setdefault(f[3], set()).add(int(f[1], 16))
    res = []
    out = subprocess.run(["nm", "-S", "--defined-only", binary], stdout=subprocess.PIPE, stderr=subprocess.DEVNULL, text=True).stdout
    for line in out.split("\n"):
        f = line.split()
        if len(f) == 4 and f[2] in "bBdD" and f[3] in names and int(f[1], 16) in names[f[3]]:
            addr, size = int(f[0], 16), int(f[1], 16)
            if addr >= 0x10000 and 0 < size <= (1 << 20):          # thread-local symbols have small offsets, not addresses
                res.append((addr, size, f[3]))
    return sorted(set(res))


# ------------------------------------------------------------------------------------------------- workload
RULESETS = {
    "mix": (["ext i ext_i 0", "ext s ext_s none", "ext b ext_b 0", "ext f ext_f 0.5"], b'''
import "pe"
import "elf"
import "math"
import "hash"
import "time"
import "tests"
import "console"
rule s_text { strings: $a = "abc" $b = "YARA" nocase wide ascii $c = { 4D 5A ?? 00 } condition: any of them }
rule s_regex { strings: $r = /x[0-9]{1,4}y/ $s = /[a-c]+z/ condition: #r > 0 or $s at 1 }
rule s_count { strings: $a = "ab" condition: #a >= ext_i }
rule m_pe { condition: pe.is_pe and pe.number_of_sections >= 0 }
rule m_pe_ep { condition: pe.is_pe and pe.entry_point >= 0 and entrypoint >= 0 }
rule m_elf { condition: elf.type == elf.ET_EXEC or elf.type == elf.ET_DYN }
rule m_math { condition: math.entropy(0, filesize) > 2.5 and math.mean(0, filesize) > 10.0 }
rule m_hash { condition: filesize > 0 and hash.md5(0, filesize) == hash.md5(0, filesize) and hash.sha256(0, filesize) != "" }
rule m_time { condition: time.now() > 0 }
rule m_data { condition: tests.module_data == ext_s }
rule m_log { condition: console.log("size ", filesize) and console.hex("ext ", ext_i) }
rule e_int { condition: ext_i > 5 }
rule e_str { condition: ext_s contains "thr" and ext_s matches /thr[0-9]+/ }
rule e_bool { condition: ext_b }
rule e_float { condition: ext_f > 1.0 }
global rule g_size { condition: filesize < 5000000 }
private rule p_hidden { condition: true }
rule u_uint { condition: uint16(0) == 0x5A4D or uint32(0) == 0x464C457F }
rule l_loop { strings: $a = "ab" condition: for any i in (1..#a) : (@a[i] > 3) }
'''),
    "strings": (["ext i ext_i 0"], b'''
rule t1 { strings: $a = "aaa" $b = "aba" fullword $c = "bab" xor condition: 2 of them }
rule t2 { strings: $h = { 61 [1-3] 62 63 } $g = { 62 ( 61 | 63 63 ) 62 } condition: $h or $g }
rule t3 { strings: $r = /a(b|c)*a/ $w = /\\bca+\\b/ condition: #r > ext_i or $w }
rule t4 { strings: $a = "ca" condition: #a > 3 and @a[2] > @a[1] and !a[1] == 2 }
rule t5 { condition: filesize == 0 or uint8(filesize - 1) == 0x61 }
'''),
    "console": (["ext i id 0", "ext f fid 0.5", "ext s sid none"], b'''
import "console"
rule c_int { condition: console.log(id) and console.hex(id) }
rule c_int_expr { condition: console.log(id + filesize) and console.hex(filesize * 3 + id) }
rule c_msg_int { condition: console.log("id=", id) and console.hex("hid=", id) }
rule c_str { condition: console.log(sid) and console.log("sid=", sid) }
rule c_float { condition: console.log(fid) and console.log("fid=", fid) }
rule c_size { condition: console.log(filesize) and console.hex(filesize) and console.log("fs=", filesize) }
rule c_tagged : t1 t2 { meta: a = "x" b = 7 c = true strings: $a = "abc" condition: $a and console.log(#a) and console.hex(@a[1]) }
'''),
    "many": ([], b'''
rule many : big { meta: why = "cap" strings: $a = "XX" condition: #a > 10 }
rule slow { strings: $b = /X/ condition: $b }
'''),
    "fibers": ([], b'''
rule f1 { strings: $r = /a(.{0,40}b){1,30}c/ condition: $r }
rule f2 { strings: $q = /(a|ab|b|ba){1,100}x/ condition: $q }
rule f3 { strings: $s = "ab" condition: #s > 2 }
'''),
    "time": (None, b'''
rule busy { condition: for all i in (0..n) : (i >= 0) }
rule plain { strings: $a = "abc" condition: $a }
'''),
}
GENERIC = ("mix", "strings")          # rule sets driven by gen_jobs; the others have their own job lists
N_CONSOLE_MSGS = 15                   # console messages of one scan of the "console" rule set when $a is present


def job_line(j):
    parts = ["mode=%s" % j["mode"], "buf=%d" % j["buf"], "flags=%d" % j.get("flags", 0), "reps=%d" % j.get("reps", 1)]
    for k in ("timeout", "tns", "disable", "trunc", "nested", "rdv", "moddata", "park", "parkn", "release"):
        if k in j:
            parts.append("%s=%s" % (k, j[k]))
    if "abort" in j:
        parts.append("abort=%d:%d" % j["abort"])
    for n, t, v in j.get("ext", []):
        parts.append("ext=%s:%s:%s" % (n, t, v))
    return "job " + " ".join(parts)


def parse_runs(lines):
    """-> list of dict(n, protect, T=[(idx, job, same, obs, trace)], W=[(label, off, tid)], G=[...], H=dict)"""
    runs, cur = [], None
    for l in lines:
        if l.startswith("run n="):
            m = re.match(r"run n=(\d+) protect=(\d+)", l)
            cur = {"n": int(m.group(1)), "protect": int(m.group(2)), "T": [], "W": [], "G": [], "H": {}}
        elif cur is None:
            continue
        elif l.startswith("T "):
            m = re.match(r"T (\d+) job=(\d+) reps=(\d+) same=(\d+) obs=(-?\d+)/(-?\d+)/(-?\d+) (?:wall=(-?\d+)/(-?\d+) )?trace=(.*)$", l)
            cur["T"].append((int(m.group(1)), int(m.group(2)), int(m.group(4)), (int(m.group(5)), int(m.group(6)), int(m.group(7))), m.group(10)))
            cur.setdefault("wall", []).append((int(m.group(8) or -1), int(m.group(9) or -1)))
        elif l.startswith("W "):
            m = re.match(r"W ent=(\S+) off=(\d+) tid=(-?\d+)", l)
            cur["W"].append((m.group(1), int(m.group(2)), int(m.group(3))))
        elif l.startswith("G "):
            m = re.match(r"G name=(\S+) off=(\d+)", l)
            cur["G"].append((m.group(1), int(m.group(2))))
        elif l.startswith("H "):
            cur["H"] = dict(x.split("=") for x in l[2:].split(" "))
        elif l == "endrun":
            runs.append(cur)
            cur = None
    return runs


def buffers(rng, quick):
    """-> list of ('buf hex' | 'buffile path', description)"""
    text = b"xxabcx123y abz YARA y\x00a\x00r\x00a\x00 ababab caca ca aaa aba bab " * 3
    bs = [("buf " + vlib.hx(text), "text"), ("buf -", "empty"), ("buf " + vlib.hx(b"a"), "one byte"),
          ("buf " + vlib.hx(bytes(rng.choice(b"abc") for _ in range(400))), "random abc"),
          ("buf " + vlib.hx(rng.bytes(3000)), "random bytes")]
    files = ["tiny", "tiny-idata-51ff", "mtxex.dll", "elf_with_imports", "079a472d22290a94ebb212aa8015cdc8dd28a968c6b4d3b88acdd58ce2d3b885",
             "pe_imports", "ChipTune.efi"]
    if not quick:
        files += ["pe_mingw", "tiny-overlay", "weird_rich", "base64", "33fc70f99be6d2833ae48852d611c8048d0c053ed0b2c626db4dbe902832a08b"]
    for f in files:
        p = os.path.join(DATA, f)
        if os.path.exists(p):
            bs.append(("buffile " + p, "tests/data/" + f))
    return bs


def gen_jobs(rng, nbufs, nfilebufs_from, count, has_mod):
    jobs = []
    for i in range(count):
        mode = rng.choice(["scanner", "scanner", "scanner", "rules", "file", "rfile", "fd"])
        j = {"mode": mode, "buf": rng.below(nbufs), "flags": rng.choice([0, 0, 0, 1, 4, 8, 16, 5]), "reps": 3}
        if mode in ("scanner", "file", "fd"):
            j["ext"] = [("ext_i", "i", str(rng.range(0, 12)))]
            if has_mod:
                j["ext"] += [("ext_s", "s", "thr%d" % i), ("ext_b", "b", str(rng.below(2))), ("ext_f", "f", "%d.25" % rng.below(3))]
                j["moddata"] = "thr%d" % rng.choice([i, i + 1])
        k = rng.below(10)
        if k == 0:
            j["abort"] = (rng.range(0, 20), 1)
        elif k == 1:
            j["abort"] = (rng.range(0, 20), 2)
        elif k == 2 and mode in ("scanner", "file", "fd"):
            j["tns"] = 1
        elif k == 3 and mode in ("file", "rfile") and has_mod and not (j["flags"] & 4):
            j["trunc"] = 1
            j["buf"] = nfilebufs_from + rng.below(nbufs - nfilebufs_from)     # a PE / ELF sample: the module load reads it
        jobs.append(j)
    return jobs


def model_prefix(kind, notry):
    """the part of the thread's program that has been executed when it waits at the rendezvous"""
    if kind == "B":
        return "-"
    if kind == "I":
        return "C,S1,G" if notry else "C,E,S1,X,G,E"
    return "C,S1,G,S1,g,G" if notry else "C,E,S1,X,G,E,S1,X,g,G"


def tsan_reports(err):
    reps, cur = [], None
    for line in err.split("\n"):
        if line.startswith("WARNING: ThreadSanitizer"):
            cur = [line]
        elif cur is not None:
            cur.append(line)
            if line.startswith("SUMMARY: ThreadSanitizer"):
                reps.append("\n".join(cur))
                cur = None
    return reps


def run(chk):
    ok, log, st = vlib.proof_obligations(chk, PROPS)
    if not ok:
        chk.violation("proof", "obligations of C09 no longer check: " + log[-1200:], {"log": log[-4000:]}, found_input=False)
    chk.note(level_note=LEVEL_NOTE)
    quick = chk.tier == "quick"
    rng = chk.rng.fork()
    lay = layout()
    h = build.harness("h_thr", extra_flags=WRAP)
    protolib.PART = "50_conc"
    model = protolib.private_model()
    watch = ["watch %x %d %s" % g for g in libyara_globals(h)]

    bufs = buffers(rng, quick)
    nfile_from = next(i for i, b in enumerate(bufs) if b[0].startswith("buffile"))
    THREADS = [1, 2, 8, 32]
    n_traces = n_scans = n_frame_runs = n_rdv = n_rdv_threads = 0
    distinct = set()
    obs = {}
    cases, meta = [], {}

    # ------------------------------------------------------------------ (a)+(b) workload per rule set
    for rsname in GENERIC:
        exts, src = RULESETS[rsname]
        has_mod = rsname == "mix"
        jobs = gen_jobs(rng.fork(), len(bufs), nfile_from, 24 if quick else 60, has_mod)
        if has_mod:     # one of each ending, whatever the seed: SIGBUS recovered (file and rules level), timeout, abort, callback error
            pe = nfile_from
            jobs += [{"mode": "file", "buf": pe, "flags": 0, "reps": 3, "trunc": 1, "ext": [("ext_i", "i", "7")]},
                     {"mode": "rfile", "buf": pe + 1, "flags": 0, "reps": 3, "trunc": 1},
                     {"mode": "scanner", "buf": 0, "flags": 0, "reps": 3, "tns": 1},
                     {"mode": "rules", "buf": pe, "flags": 0, "reps": 3, "abort": (15, 1)},
                     {"mode": "scanner", "buf": 0, "flags": 0, "reps": 3, "abort": (17, 2), "ext": [("ext_s", "s", "thr99")], "moddata": "thr99"}]
        # a stress job: short scans, many try sections entered and left
        jobs.append({"mode": "rules", "buf": 2, "flags": 0, "reps": 3000 if quick else 20000})
        stress = len(jobs) - 1
        cmds = watch + exts + ["rules " + vlib.hx(src)] + [b[0] for b in bufs] + [job_line(j) for j in jobs]
        plan = []
        for ji in range(len(jobs)):
            cmds.append("run 1 %d" % ji)
            plan.append(("ref", [ji]))
        r2 = rng.fork()
        for n in THREADS:
            for rep in range(2 if quick else 5):
                sel = [r2.below(len(jobs) - 1) for _ in range(n)]
                cmds.append("run 1 " + " ".join(map(str, sel)))
                plan.append(("conc", sel))
        cmds.append("run 1 " + " ".join([str(stress)] * 32))
        plan.append(("stress", [stress] * 32))
        if has_mod:
            # deterministic interleaving: A is held inside a callback BEFORE it reads what the message points to (module name,
            # module object, rule + strings + matched bytes) while B completes a whole scan with other inputs
            rel = len(jobs)
            jobs.append({"mode": "scanner", "buf": nfile_from, "flags": 0, "reps": 1, "release": 1,
                         "ext": [("ext_i", "i", "3"), ("ext_s", "s", "thrB")], "moddata": "thrB"})
            cmds.append(job_line(jobs[-1]))
            cmds.append("run 1 %d" % rel)
            plan.append(("ref", [rel]))
            for kind, kn in (("I", 0), ("I", 5), ("D", 1), ("D", 6), ("M", 0), ("M", 4), ("C", 0), ("C", 1)):
                jobs.append({"mode": "scanner", "buf": 0, "flags": 0, "reps": 1, "park": kind, "parkn": kn,
                             "ext": [("ext_i", "i", "9"), ("ext_s", "s", "thrA")], "moddata": "thrA"})
                cmds.append(job_line(jobs[-1]))
                a = len(jobs) - 1
                cmds += ["run 1 %d" % a, "run 1 %d %d" % (a, rel)]
                plan += [("ref", [a]), ("park", [a, rel])]
        cid = "w_" + rsname
        cases.append((cid, cmds))
        meta[cid] = (jobs, plan, cmds)

    # ------------------------------------------------------------------ (b') messages that carry a pointer: console.log / console.hex
    # in all their forms with a different value per scanner (external id / fid / sid, different file sizes), free running
    # with many repetitions and with the deterministic interleaving at every single console message
    exts, src = RULESETS["console"]
    small = [i for i, b in enumerate(bufs) if b[0].startswith("buf ")]
    R = 400 if quick else 3000
    jobs = []
    for i in range(8):
        jobs.append({"mode": "scanner" if i % 4 else "fd", "buf": small[i % len(small)], "flags": 0, "reps": R,
                     "ext": [("id", "i", str(1000003 * (i + 1))), ("fid", "f", "%d.5" % (i + 1)), ("sid", "s", "thr%d" % i)]})
    for i in range(4):
        jobs.append({"mode": "rules" if i % 2 else "rfile", "buf": [small[0], small[3], small[4], nfile_from][i], "flags": 0, "reps": R})
    cmds = watch + exts + ["rules " + vlib.hx(src)] + [b[0] for b in bufs] + [job_line(j) for j in jobs]
    plan = []
    for ji in range(len(jobs)):
        cmds.append("run 1 %d" % ji)
        plan.append(("ref", [ji]))
    r5 = rng.fork()
    for n in (2, 8, 32):
        for rep in range(2 if quick else 4):
            sel = [r5.below(len(jobs)) for _ in range(n)]
            if rep == 0:
                sel = list(range(min(n, len(jobs)))) + sel[len(jobs):]       # pairwise different values
            cmds.append("run 1 " + " ".join(map(str, sel)))
            plan.append(("conc", sel))
    rel = len(jobs)
    jobs.append({"mode": "scanner", "buf": small[3], "flags": 0, "reps": 1, "release": 1,
                 "ext": [("id", "i", "2222"), ("fid", "f", "22.25"), ("sid", "s", "BBBB")]})
    cmds += [job_line(jobs[-1]), "run 1 %d" % rel]
    plan.append(("ref", [rel]))
    for k in range(N_CONSOLE_MSGS):
        jobs.append({"mode": "scanner", "buf": small[0], "flags": 0, "reps": 1, "park": "C", "parkn": k,
                     "ext": [("id", "i", "1111"), ("fid", "f", "11.75"), ("sid", "s", "AAAA")]})
        a = len(jobs) - 1
        cmds += [job_line(jobs[-1]), "run 1 %d" % a, "run 1 %d %d" % (a, rel)]
        plan += [("ref", [a]), ("park", [a, rel])]
        if k % 5 == 0:                                                        # ... and with free running threads around
            cmds.append("run 1 %d %d 1 2 3 8" % (a, rel))
            plan.append(("park", [a, rel, 1, 2, 3, 8]))
    cases.append(("w_console", cmds))
    meta["w_console"] = (jobs, plan, cmds)

    # CALLBACK_MSG_TOO_MANY_MATCHES (the YR_STRING of the shared rules) with a million matches per string
    exts, src = RULESETS["many"]
    xtxt = os.path.join(DATA, "x.txt")
    if os.path.exists(xtxt):
        jobs = [{"mode": "scanner", "buf": 0, "flags": 0, "reps": 1}, {"mode": "rfile", "buf": 0, "flags": 0, "reps": 1},
                {"mode": "scanner", "buf": 1, "flags": 0, "reps": 1, "release": 1},
                {"mode": "scanner", "buf": 0, "flags": 0, "reps": 1, "park": "T", "parkn": 1}]
        cmds = exts + ["rules " + vlib.hx(src), "buffile " + xtxt, "buf " + vlib.hx(b"XXXX")] + [job_line(j) for j in jobs]
        plan = []
        for ji in range(len(jobs)):
            cmds.append("run 1 %d" % ji)
            plan.append(("ref", [ji]))
        jobs.append({"mode": "scanner", "buf": 1, "flags": 0, "reps": 200})        # small buffer, same strings, many repetitions
        cmds += [job_line(jobs[-1]), "run 1 4", "run 1 0 1", "run 1 3 2", "run 1 0 4 1 4"]
        plan += [("ref", [4]), ("conc", [0, 1]), ("park", [3, 2]), ("conc", [0, 4, 1, 4])]
        if not quick:
            cmds.append("run 1 0 1 0 1")
            plan.append(("conc", [0, 1, 0, 1]))
        cases.append(("w_many", cmds))
        meta["w_many"] = (jobs, plan, cmds)

    # the regexp fiber pool is per scanner: a scan that runs out of fibers (ERROR_TOO_MANY_RE_FIBERS alone) does so concurrently,
    # and does not take fibers away from the others
    exts, src = RULESETS["fibers"]
    jobs = [{"mode": "scanner", "buf": 0, "flags": 0, "reps": 3}, {"mode": "rules", "buf": 0, "flags": 0, "reps": 3},
            {"mode": "scanner", "buf": 1, "flags": 0, "reps": 30}, {"mode": "rfile", "buf": 2, "flags": 0, "reps": 30}]
    cmds = exts + ["rules " + vlib.hx(src), "buf " + vlib.hx(b"ab" * 3000), "buf " + vlib.hx(b"ab" * 12 + b"x ac"), "buf " + vlib.hx(b"abbbbbc" * 40)] + \
        [job_line(j) for j in jobs]
    plan = []
    for ji in range(len(jobs)):
        cmds.append("run 1 %d" % ji)
        plan.append(("ref", [ji]))
    for sel in ([0, 2], [0, 2, 1, 3, 0, 2, 1, 3], [2, 3] * 4 + [0, 1] * 4):
        cmds.append("run 1 " + " ".join(map(str, sel)))
        plan.append(("conc", sel))
    cases.append(("w_fibers", cmds))
    meta["w_fibers"] = (jobs, plan, cmds)

    # ------------------------------------------------------------------ (b'') timeouts are per scanner
    # a CPU bound scan calibrated to SOLO_MS alone; 12 concurrent copies (own scanner / yr_rules_scan_mem) with a timeout of
    # several times that must end as the solo run does; scans that exceed their timeout alone must still time out, not early
    # and not late.  Verdicts use the wall time the harness measures around every scan (CLOCK_MONOTONIC), so a loaded machine
    # gives "inconclusive", never a violation: a correct stopwatch cannot report a timeout before timeout wall time has passed.
    SOLO_MS, T_OK_S, N0 = 300, 2, 2000000
    tsrc = RULESETS["time"][1]
    cal_cmds = ["ext i n 0", "rules " + vlib.hx(tsrc), "buf 61", "job mode=scanner buf=0 reps=3 ext=n:i:%d" % N0, "run 0 0"]
    cal_out, _ = vlib.run_cases(h, [("cal", cal_cmds)], timeout=120, args=["60"])
    cal = parse_runs(cal_out.get("cal", []))
    cal_ms = cal[0]["wall"][0][0] if cal and cal[0].get("wall") else -1
    time_plan = None
    if cal_ms > 0:
        n_ok = max(N0, min(N0 * SOLO_MS // cal_ms, 400000000))
        tjobs = [{"mode": "scanner", "buf": 0, "flags": 0, "reps": 1, "timeout": T_OK_S, "ext": [("n", "i", str(n_ok))]},
                 {"mode": "rules", "buf": 1, "flags": 0, "reps": 1, "timeout": T_OK_S},
                 {"mode": "scanner", "buf": 0, "flags": 0, "reps": 1, "tns": 300000000, "ext": [("n", "i", str(n_ok * 25))]},
                 {"mode": "scanner", "buf": 1, "flags": 0, "reps": 1, "timeout": 1, "ext": [("n", "i", str(n_ok * 25))]}]
        t_ms = [T_OK_S * 1000, T_OK_S * 1000, 300, 1000]
        time_cmds = watch + ["ext i n %d" % n_ok, "rules " + vlib.hx(tsrc), "buf 61", "buf " + vlib.hx(b"xxabcxx")] + [job_line(j) for j in tjobs]
        time_plan = [("ref", [0]), ("ref", [1]), ("ref", [2]), ("ref", [3]), ("conc", [0, 1] * 6), ("conc", [2, 3, 2, 3] + [0, 1] * 4)]
        if not quick:
            time_plan += [("conc", [0, 1] * 4), ("conc", [0, 1] * 12), ("conc", [2, 3] * 4 + [0, 1] * 2)]
        time_cmds += ["run 1 " + " ".join(map(str, sel)) for _, sel in time_plan]
        cases.append(("w_time", time_cmds))
    obs["timeouts"] = {"calibration_ms_for_n0": cal_ms, "n0": N0}

    # ------------------------------------------------------------------ (c) rendezvous
    exts, src = RULESETS["mix"]
    r3 = rng.fork()
    rdv_cmds = watch + exts + ["rules " + vlib.hx(src)] + [b[0] for b in bufs]
    kinds = [("I", 0), ("I", 4), ("M", 0), ("M", 4), ("B", 0)]
    for k, fl in kinds:
        rdv_cmds.append(job_line({"mode": "scanner" if k != "B" else "rules", "buf": 0, "flags": fl, "rdv": k}))
    rdv_plan = []
    for n in THREADS:
        for rep in range(3 if quick else 8):
            sel = [r3.below(len(kinds)) for _ in range(n)]
            if rep == 0:
                sel = [0] * n                      # everybody inside
            rdv_cmds.append("run 1 " + " ".join(map(str, sel)))
            rdv_plan.append(sel)
    cases.append(("rdv", rdv_cmds))

    # ------------------------------------------------------------------ monitor self test + exploration
    selftest = watch + exts + ["rules " + vlib.hx(src)] + [b[0] for b in bufs] + [
        job_line({"mode": "scanner", "buf": 0, "disable": 0}), job_line({"mode": "scanner", "buf": 0}), "run 1 0 1 1 1"]
    cases.append(("selftest", selftest))
    nested = exts + ["rules " + vlib.hx(src)] + [b[0] for b in bufs] + [
        job_line({"mode": "file", "buf": nfile_from, "trunc": 1}), job_line({"mode": "file", "buf": nfile_from, "trunc": 1, "nested": 1}),
        "run 0 0", "run 0 1"]

    out, err = vlib.run_cases(h, cases, timeout=900, args=["240"])
    nout, _ = vlib.run_cases(h, [("nested", nested)], timeout=60, args=["3"])     # alarm after 3 s: the second run does not return
    out["nested"] = nout.get("nested", [])

    def base_replay(cid, cmds, upto):
        return {"harness": "h_thr", "extra_flags": WRAP, "harness_commands": cmds[:upto + 1], "case": cid}

    def check_run_common(cid, cmds, ri, run_, jobs_desc):
        """frame monitor, globals, end state: for every run"""
        nonlocal n_frame_runs
        cmd_index = [i for i, c in enumerate(cmds) if c.startswith("run ")][ri]
        rp = base_replay(cid, cmds, cmd_index)
        n_frame_runs += run_["protect"]
        for label, off, tid in run_["W"]:
            w = where(label, off, lay)
            chk.violation("frame:" + re.sub(r"\[\d+\]", "[]", w.split("=")[-1].strip()),
                          "a scan wrote into the shared rules: %s (thread %d of %d, job %s)" % (w, tid, run_["n"], jobs_desc),
                          dict(rp, write=w, thread=tid))
        for name, off in run_["G"]:
            if name not in GLOBALS_ALLOWED:
                chk.violation("global:" + name, "a scan changed libyara's global variable %s (first difference at byte %d): state "
                              "shared by all scanners outside the rules and the handler protocol" % (name, off), dict(rp, variable=name))
        H = run_["H"]
        if H and (H.get("end") != "0/0" or H.get("start") != "0/0" or int(H.get("bad", "0")) != 0 or int(H.get("min", "0")) < 0):
            chk.violation("handler-protocol", "handler protocol broken in a run of %d threads: start count/installed=%s end=%s, "
                          "inconsistent snapshots (installed != (count > 0), or count outside 0..n) %s of %s, max count %s min %s"
                          % (run_["n"], H.get("start"), H.get("end"), H.get("bad"), H.get("samples"), H.get("max"), H.get("min")),
                          dict(rp, observed=H, expected="start 0/0, end 0/0, bad 0"))
        return rp

    # ---- workload results
    for cid, (jobs, plan, cmds) in meta.items():
        lines = out.get(cid, [])
        runs = parse_runs(lines)
        if any(l.startswith("crash") for l in lines) or len(runs) != len(plan) or not any(l.startswith("rules rc=0") for l in lines):
            chk.violation("crash:" + cid, "workload %s crashed or did not complete: %s (%d of %d runs)" %
                          (cid, [l for l in lines if l.startswith("crash") or l.startswith("rules")][:3], len(runs), len(plan)),
                          {"harness": "h_thr", "extra_flags": WRAP, "harness_commands": cmds, "stderr": err[-1500:]})
            continue
        ref = {}
        for ri, ((kind, sel), run_) in enumerate(zip(plan, runs)):
            rp = check_run_common(cid, cmds, ri, run_, [jobs[s] for s in sel][:4])
            for idx, ji, same, o, trace in run_["T"]:
                n_scans += jobs[ji].get("reps", 1)
                if not same:
                    chk.violation("nondeterministic", "repeating the same scan in one thread gave different traces (%s, %d threads): %s"
                                  % (kind, run_["n"], trace[:500]), dict(rp, job=jobs[ji], trace=trace[:4000]))
                    continue
                if kind == "ref":
                    ref[ji] = trace
                    continue
                n_traces += 1
                if trace != ref.get(ji):
                    chk.violation("interference" + (":console-message" if cid == "w_console" else ":parked" if kind == "park" else ""), "thread %d of %d (job %s) reports something else than the same scan run alone:\n  "
                                  "concurrent: %s\n  alone:      %s" % (idx, run_["n"], jobs[ji], trace[:700], (ref.get(ji) or "")[:700]),
                                  dict(rp, job=jobs[ji], concurrent=trace[:6000], alone=(ref.get(ji) or "")[:6000], threads=run_["n"]))
                j = jobs[ji]
                sig = (cid, ji, run_["n"])
                if run_["n"] >= 2 and "M:" in trace:
                    distinct.add(sig)
            if kind == "conc" and run_["n"] == 8:
                chk.sample({"ruleset": cid, "threads": run_["n"], "jobs": [job_line(jobs[s]) for s in sel][:3],
                            "trace_thread0": run_["T"][0][4][:300], "H": run_["H"]}, cap=3)
        obs.setdefault("error_endings", {})
        for ji, t in ref.items():
            m = re.search(r" rc=(-?\d+)$", t)
            if m and m.group(1) != "0":
                obs["error_endings"][m.group(1)] = obs["error_endings"].get(m.group(1), 0) + 1
        obs.setdefault("stress_max_count", []).append(runs[-1]["H"].get("max"))

    # ---- timeouts
    if time_plan is not None:
        lines = out.get("w_time", [])
        runs = parse_runs(lines)
        to = obs["timeouts"]
        if any(l.startswith("crash") for l in lines) or len(runs) != len(time_plan):
            chk.violation("crash:w_time", "timeout workload crashed or did not complete: %s" % [l for l in lines if l.startswith("crash")][:2],
                          {"harness": "h_thr", "extra_flags": WRAP, "harness_commands": time_cmds, "stderr": err[-1500:]})
        else:
            ref, refwall = {}, {}
            verdict = True
            for ri, ((kind, sel), run_) in enumerate(zip(time_plan, runs)):
                rp = check_run_common("w_time", time_cmds, ri, run_, [tjobs[s_] for s_ in sel][:4])
                for (idx, ji, same, o, trace), (wmin, wmax) in zip(run_["T"], run_["wall"]):
                    n_scans += 1
                    rc = int(re.search(r" rc=(-?\d+)", trace).group(1))
                    T = t_ms[ji]
                    if kind == "ref":
                        ref[ji], refwall[ji] = trace, wmax
                        expected = 0 if ji < 2 else 26
                        if rc != expected:
                            verdict = False       # calibration does not hold on this machine right now: no verdict
                        continue
                    if not verdict:
                        continue
                    n_traces += 1
                    d = dict(rp, job=tjobs[ji], concurrent=trace, alone=ref[ji], wall_ms=wmax, alone_wall_ms=refwall[ji], timeout_ms=T,
                             threads=run_["n"])
                    if rc == 26 and wmin < T // 2:
                        chk.violation("timeout-shared", "thread %d of %d (%s, timeout %d ms) ended with ERROR_SCAN_TIMEOUT after %d ms of wall time, "
                                      "long before its own timeout: the stopwatch of a scanner is driven by the other scanners' work (alone the scan "
                                      "%s after %d ms)" % (idx, run_["n"], tjobs[ji]["mode"], T, wmin, "completes" if ji < 2 else "times out", refwall[ji]), d)
                    elif trace != ref[ji]:
                        if ji < 2 and rc == 26 and wmax >= T * 8 // 10:
                            to["inconclusive"] = to.get("inconclusive", 0) + 1      # machine too loaded: the scan really took that long
                        elif ji >= 2 and rc == 0:
                            to["inconclusive"] = to.get("inconclusive", 0) + 1      # cannot happen with n * 25 unless the calibration was far off
                        else:
                            chk.violation("interference:timeout", "thread %d of %d (%s, timeout %d ms) reports something else than alone: %s vs %s"
                                          % (idx, run_["n"], tjobs[ji]["mode"], T, trace, ref[ji]), d)
                    elif rc == 26 and wmax > 5 * T + 3000:
                        chk.violation("timeout-late", "thread %d of %d (timeout %d ms) reported its timeout only after %d ms" % (idx, run_["n"], T, wmax), d)
                    if run_["n"] >= 2:
                        distinct.add(("w_time", ji, run_["n"]))
            to.update({"verdict": verdict, "solo_wall_ms": refwall, "timeouts_ms": t_ms,
                       "concurrent_wall_ms": [r_["wall"] for (k_, _), r_ in zip(time_plan, runs) if k_ != "ref"][:2]})

    # ---- rendezvous results against the model
    lines = out.get("rdv", [])
    runs = parse_runs(lines)
    if any(l.startswith("crash") for l in lines) or len(runs) != len(rdv_plan):
        chk.violation("crash:rdv", "rendezvous case crashed or hung: %s" % [l for l in lines if l.startswith("crash")][:2],
                      {"harness": "h_thr", "extra_flags": WRAP, "harness_commands": rdv_cmds, "stderr": err[-1500:]})
    else:
        mcmds = []
        r4 = rng.fork()
        for sel in rdv_plan:
            progs = [model_prefix(*kinds[s]) for s in sel]
            need = [0 if p == "-" else sum(5 if o in "EX" else 1 for o in p.split(",")) for p in progs]
            sched = [t for t, k in enumerate(need) for _ in range(k)]
            r4.shuffle(sched)
            sched += list(range(len(sel))) * (10 * len(sel) + 40)     # threads that had to wait for the mutex finish here
            mcmds.append("c09 5.12 %s %s" % ("/".join(progs), ",".join(map(str, sched))))
        mlines, _ = vlib.run_lines(model, mcmds)
        for ri, (sel, run_, ml, mc) in enumerate(zip(rdv_plan, runs, mlines, mcmds)):
            rp = check_run_common("rdv", rdv_cmds, ri, run_, [kinds[s] for s in sel][:6])
            mm = re.match(r"count=(-?\d+) installed=(\d) mutex=(\S+) handler=(\S+) threads=(.*)$", ml)
            if not mm:
                chk.violation("model-internal", "model runner: " + ml[:200], {"model_command": mc}, found_input=False)
                continue
            mcount, minst = int(mm.group(1)), int(mm.group(2))
            mth = [x.split(":") for x in mm.group(5).split(",")]
            n_rdv += 1
            for (idx, ji, same, o, trace), mt, s in zip(run_["T"], mth, sel):
                n_rdv_threads += 1
                exp = (mcount, minst, 0 if mt[2] == "-" else 1)
                if o[2] == -1:
                    exp = (exp[0], exp[1], -1)
                if o[0] == -999:                      # counter not visible in this tree: only the disposition
                    exp, o = (exp[1], exp[2]), (o[1], o[2])
                if o != exp:
                    chk.violation("handler-count", "with all %d threads stopped (%s): thread %d (%s) sees count/installed/tls = %s, the "
                                  "model says %s" % (run_["n"], "".join(kinds[x][0] + ("n" if kinds[x][1] else "") + " " for x in sel)[:120],
                                                     idx, kinds[s], o, exp),
                                  dict(rp, observed=o, model=exp, model_command=mc, model_output=ml[:400]))
            if ri < 2:
                chk.sample({"rendezvous": [kinds[s] for s in sel][:8], "threads": run_["n"], "observed_thread0": run_["T"][0][3],
                            "model": ml[:160]}, cap=5)

    # ---- the monitor must be alive
    lines = out.get("selftest", [])
    runs = parse_runs(lines)
    seen = [where(l, o, lay) for r_ in runs for l, o, t in r_["W"]]
    obs["monitor_selftest"] = seen
    if not any("YR_RULE[0].flags" in s for s in seen) or not any("YR_STRING[0].flags" in s for s in seen):
        chk.violation("monitor-dead", "the frame monitor did not report yr_rule_disable called from a callback (expected writes to "
                      "YR_RULE[0].flags and YR_STRING[0].flags): %s %s" % (seen, [l for l in lines if "crash" in l]),
                      {"harness": "h_thr", "extra_flags": WRAP, "harness_commands": selftest}, found_input=False)
    others = [t for r_ in runs for t in r_["T"] if t[1] == 1]
    obs["yr_rule_disable_from_callback"] = {
        "writes_shared_rules": seen, "what": "yr_rule_disable(rule) inside a callback writes RULE_FLAGS_DISABLED / STRING_FLAGS_DISABLED into "
        "the rule set shared by all scanners (rules.c:567-589): documented as an API on YR_RULE, but it is a data race and changes "
        "what the other threads' scans report (model: rules_level_write_refutes_determinism)"}

    # ---- exploration: nested scan from a callback (model: nested_trycatch_loses_outer_jump_buffer)
    lines = out.get("nested", [])
    runs = parse_runs(lines)
    obs["nested_scan_in_callback"] = {
        "plain_truncated_file": runs[0]["T"][0][4][-60:] if runs else None,
        "with_nested_scan": (runs[1]["T"][0][4][-60:] if len(runs) > 1 else [l for l in lines if l.startswith("crash")]),
        "what": "a file scan whose CALLBACK_MSG_IMPORT_MODULE callback truncates the file ends with ERROR_COULD_NOT_MAP_FILE (4); when the "
                "callback first runs another scan, the inner YR_TRYCATCH sets the TLS jump info to NULL on exit and the SIGBUS of the outer "
                "scan is no longer recovered: exception_handler falls through to the SIG_DFL branch (exception.h:200-212), whose raise() "
                "only marks the blocked signal pending, re-installs itself and returns into the faulting instruction - the thread spins "
                "forever (crash sig=14 = the harness alarm after 3 s)"}

    # ------------------------------------------------------------------ (d) ThreadSanitizer
    tsan_cached = os.path.exists(os.path.join(build.CACHE, "%s-tsan" % build.tree_hash(), "libyara.a"))
    if True:      # also in the quick tier (the tsan build of a tree is cached; a cold build costs about half a minute): a static
        # buffer in a module's .bss is outside the rules (frame monitor) - the globals diff and ThreadSanitizer see it
        ht = build.harness("h_thr", "tsan", extra_flags=WRAP)
        tcases = []
        for cid, (jobs, plan, cmds) in meta.items():
            if cid == "w_many":
                continue
            exts_, src_ = RULESETS[cid[2:]]
            tj = [dict(j, reps=min(j.get("reps", 1), 20)) for j in jobs]
            tc = ["track 0"] + exts_ + ["rules " + vlib.hx(src_)] + [b[0] for b in bufs] + [job_line(j) for j in tj]
            for kind, sel in plan:
                if kind != "ref" and (len(sel) >= 8 or (kind == "park" and cid == "w_console")):
                    tc.append("run 0 " + " ".join(map(str, sel)))
            tcases.append((cid, tc))
        env = dict(os.environ, TSAN_OPTIONS="halt_on_error=0 exitcode=0 report_signal_unsafe=0 history_size=4")
        obs["tsan"] = {"reports": 0, "reports_with_libyara_frames": 0, "runs": 0, "crashes": [], "build_cached": tsan_cached}
        seen_k = set()
        for cid, tc in tcases:          # one process per workload, so that a report names the commands that produced it
            p = subprocess.run([ht, "600"], input="\n".join(["case " + cid] + tc + ["endcase"]) + "\n", stdout=subprocess.PIPE,
                               stderr=subprocess.PIPE, text=True, timeout=3000, env=env)
            reps = tsan_reports(p.stderr)
            inlib = [r for r in reps if re.search(r"/libyara/|libyara\.a", r)]
            crashes = [l for l in p.stdout.split("\n") if l.startswith("crash")][:3]
            obs["tsan"]["reports"] += len(reps)
            obs["tsan"]["reports_with_libyara_frames"] += len(inlib)
            obs["tsan"]["runs"] += len([c for c in tc if c.startswith("run")])
            obs["tsan"]["crashes"] += crashes
            for r in inlib:
                m = re.search(r"#0 (\S+) (\S+?):(\d+)", r)
                loc = re.search(r"Location is global '([^']+)'", r)
                key = "tsan:" + (loc.group(1) if loc else m.group(1) if m else hashlib.sha256(r.encode()).hexdigest()[:8])
                if key in seen_k:
                    continue
                seen_k.add(key)
                chk.violation(key, "ThreadSanitizer (%s): %s %s%s" % (cid, r.split("\n")[0][:120], m.group(0) if m else "",
                                                                     " - global '%s'" % loc.group(1) if loc else ""),
                              {"harness": "h_thr", "variant": "tsan", "extra_flags": WRAP, "harness_commands": tc, "report": r[:6000],
                               "how": "TSAN_OPTIONS='halt_on_error=0 exitcode=0' <h_thr built with -fsanitize=thread> < commands"})
            if crashes:
                chk.violation("tsan-crash", "the workload %s crashed under ThreadSanitizer: %s" % (cid, crashes),
                              {"harness": "h_thr", "variant": "tsan", "extra_flags": WRAP, "harness_commands": tc, "stderr": p.stderr[-3000:]})
    else:
        obs["tsan"] = "skipped in the quick tier: no cached tsan build of this tree (runs in the thorough tier)"

    chk.note(evaluations=n_scans, traces_validated_against_impl=n_traces + n_rdv_threads, distinct_nontrivial=len(distinct),
             concurrent_traces_compared=n_traces, runs_under_frame_monitor=n_frame_runs, rendezvous_runs=n_rdv,
             rendezvous_thread_observations=n_rdv_threads, thread_counts=THREADS, watched_globals=len(watch), observations=obs,
             rule="one evaluation = one scan; a validated trace = the full callback trace (messages, rule ids, match offsets/lengths, "
                  "return code) of one thread in a concurrent run compared with the same job alone, or one thread's (count, installed, "
                  "tls) observation compared with the model; distinct = (rule set, job, thread count); non-trivial = at least 2 threads "
                  "and at least one matching rule in the trace")
    chk.assumptions += [
        "PARTIAL: the theorems are about the interleaving model; that a real scan reads the shared rules and writes only scanner-owned "
        "memory is checked by the monitors on the executed workload, not proved for all inputs",
        "first write per page and run is reported by the frame monitor (the page is opened after the report)",
        "exception_handler_usecount / exception_handler_mutex / yr_trycatch_trampoline_tls are read through their (non-static) symbols",
        "Linux: libyara catches SIGBUS only (CATCH_SIGSEGV 0); the Windows variants of YR_TRYCATCH are not modelled",
        "variables with static storage duration in libyara / its modules are shared state in the model (Model/Concurrent.v, 'What a scan "
        "may write'); on the code they are outside the mprotect monitor: watched by the globals diff (symbols of libyara.a), by "
        "ThreadSanitizer and through the content of the callback messages",
        "rand() in yr_scanner_create (canary), libc, libcrypto and pthread TLS are below the model: ThreadSanitizer observes them",
        "timeouts are forced with scanner->timeout = 1 ns (deterministic ERROR_SCAN_TIMEOUT at the first check); wall-clock behaviour is C15's",
    ]


def replay(chk, path):
    r = json.load(open(path))["replay"]
    variant = r.get("variant", "plain")
    h = build.harness("h_thr", variant, extra_flags=WRAP)
    env = dict(os.environ, TSAN_OPTIONS="halt_on_error=0 exitcode=0")
    inp = ["case replay"] + r["harness_commands"] + ["endcase"]
    p = subprocess.run([h, "240"], input="\n".join(inp) + "\n", stdout=subprocess.PIPE, stderr=subprocess.PIPE, text=True, env=env)
    lay = layout()
    for l in p.stdout.split("\n"):
        if l.startswith(("T ", "H ", "G ", "crash", "run ")):
            print(l[:400])
        elif l.startswith("W "):
            m = re.match(r"W ent=(\S+) off=(\d+) tid=(-?\d+)", l)
            print(l, "=>", where(m.group(1), int(m.group(2)), lay))
    if variant == "tsan":
        print(p.stderr[-4000:])
    return 0
