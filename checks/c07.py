"""C07: compiling arbitrary text never crashes and every failure is diagnosed (partial)."""
import re
import vlib, build, rulegen, c12
from vlib import hx

PROPS = "Props/Properties_C07.v"

TOK = re.compile(r'"(?:\\.|[^"\\])*"|/(?:\\.|[^/\\\n])+/[is]*|\{[^}]*\}|\$?[A-Za-z_][A-Za-z_0-9]*\*?|\d+|\.\.|==|!=|<=|>=|<<|>>|\S', re.S)

SEEDS = [
    'rule a : t1 t2 { meta: x = "y" n = 3 b = true strings: $a = "abc" wide nocase $b = { 01 02 [2-4] ( 03 | 04 05 ) ?? } $c = /ab+c[0-9]{2,3}/i condition: $a and #b > 1 and @c[1] < 100 or for any of ($a,$b) : ( $ at 10 ) }',
    'import "pe"\nimport "math"\nprivate global rule g { condition: pe.number_of_sections > 0 or math.entropy(0, filesize) > 7.0 }',
    'rule l { strings: $s1 = "x" xor(1-3) fullword $s2 = "yz" base64 condition: for all i in (1..#s1) : ( @s1[i] + 2 < filesize and uint16(@s1[i]) == 0x5a4d ) and any of ($s*) in (0..100) }',
    'include "inc.yar"\nrule uses_inc { condition: inc_rule and ext_i + 1 > 2 and ext_s contains "a" and ext_s matches /a.c/ }',
    'rule nest { condition: for any i in (1,2,3) : ( for any j in (1..2) : ( for any k in (0..1) : ( for any m in (0..1) : ( i + j + k + m > 0 ) ) ) ) }',
    'rule cls { strings: $a = /x[\\x80-\\xff]+[^\\x00-\\x1f][a-\\xff]y/ $b = /[\\x00-\\xff]{2}z[\\xfe-\\xff]/ nocase wide condition: $a or $b or ext_s matches /^[\\x7f-\\xff]*$/ }',
    'rule esc { strings: $a = /ab\\gcd[a-z]{2}\\q(e|f)/ $b = /\\gabc[a-z]d{1,3}/ condition: $a or $b or ext_s matches /x\\gy+(z)/ }',
    'rule arith { condition: (1 + 2 * 3 \\ 4 % 5 - -6) >> 1 << 2 | 3 & 4 ^ ~5 == 0 or not defined uint8(filesize) or 10 of them }',
    # every kind of token that carries an allocated value (identifiers, string identifiers with and without wildcard, the count / offset /
    # length forms with and without index, text, regexp and hex literals): each must be released when the parser discards it on an error
    'rule toks : tg { meta: m = "v" strings: $a = "abc" $b1 = "x" $b2 = { 01 ?? 03 } $c = /r[e]x/ condition: !a > 2 and !a[1] == 3 and #a in (0..10) == 1 and '
    '@a[#a] >= 0 and @a < 5 and #b1 == 0 and for all of ($b*) : ( # >= 0 and @ >= 0 and ! >= 1 ) and "lit" contains "l" and ext_s == "str" and '
    'ext_s matches /r.e/is and any of ($a, $b*) and uint8(!a[1]) == 0 and toks_other }',
]


def loop_rules(rng):
    """1..3 rules whose conditions nest loops of every kind (integer ranges and lists, string sets, string lists, arrays and dictionaries of
    the tests and pe modules) and use the loop variables in every type context, well typed or not: the loop-variable table of the compiler
    is shared between consecutive loops, rules and nesting depths"""
    r = rng

    def loop(d, vars_):
        names = ["i", "j", "k", "v", "s", "x", "y"]
        fresh = [n for n in names if n not in vars_]
        a, b = (fresh + ["q", "w"])[:2]
        kind = r.below(9)
        quant = r.choice(["any", "all", "none", "2", "1"])
        if kind == 0:
            head, nv = "for %s %s in (%d..%d)" % (quant, a, r.below(3), r.below(5)), [a]
        elif kind == 1:
            head, nv = "for %s %s in (1, 2, filesize)" % (quant, a), [a]
        elif kind == 2:
            head, nv = "for %s %s in tests.integer_array" % (quant, a), [a]
        elif kind == 3:
            head, nv = "for %s %s in tests.string_array" % (quant, a), [a]
        elif kind == 4:
            head, nv = "for %s %s, %s in tests.%s" % (quant, a, b, r.choice(["struct_dict", "integer_dict", "string_dict", "empty_struct_dict"])), [a, b]
        elif kind == 5:
            head, nv = "for %s %s in tests.%s" % (quant, a, r.choice(["struct_array", "empty_struct_array"])), [a]
        elif kind == 6:
            head, nv = "for %s %s in pe.%s" % (quant, a, r.choice(["sections", "version_info_list", "import_details"])), [a]
        elif kind == 7:
            head, nv = "for %s %s, %s in pe.version_info" % (quant, a, b), [a, b]
        else:
            head, nv = "for %s %s in (\"a\", \"bc\")" % (quant, a), [a]
        allv = vars_ + nv
        return "%s : ( %s )" % (head, body(d - 1, allv))

    def use(v):
        return r.choice(["%s", "not %s", "%s == 1", "%s == \"foo\"", "%s > 0", "%s.i == 1", "%s.s == \"foo\"", "%s of them", "#a > %s", "%s contains \"a\"",
                         "%s matches /a/", "@a[%s] > 0", "%s + 1 > 0", "defined %s", "%s.name == \"x\"", "tests.isum(%s, 1) == 2", "$a at %s"]) % v

    def body(d, vars_):
        parts = []
        for _ in range(r.range(1, 2)):
            k = r.below(4)
            if d > 0 and k < 2:
                parts.append(loop(d, vars_))
            elif vars_ and k < 3:
                parts.append(use(r.choice(vars_)))
            else:
                parts.append(r.choice(["true", "$a", "filesize > 0", "any of them", "for any of them : ( $ )"]))
        return (" %s " % r.choice(["and", "or"])).join(parts)
    src = 'import "tests"\nimport "pe"\n'
    for n in range(r.range(1, 3)):
        src += 'rule lr%d { strings: $a = "abc" condition: %s }\n' % (n, (" %s " % r.choice(["and", "or"])).join(loop(r.range(1, 3), []) for _ in range(r.range(1, 3))))
    return src


def mutants(rng, n):
    out = []
    for _ in range(n // 4):
        out.append(("loops", loop_rules(rng.fork())))
    for src in SEEDS:
        toks = [m.group(0) for m in TOK.finditer(src)]
        # truncation at every token boundary
        for k in range(len(toks) + 1):
            out.append(("trunc", " ".join(toks[:k])))
        for k in range(len(toks)):
            out.append(("del", " ".join(toks[:k] + toks[k + 1:])))
            out.append(("dup", " ".join(toks[:k + 1] + toks[k:])))
    big = "A" * 300
    out += [("oversize", 'rule %s { condition: true }' % big), ("oversize", 'rule r { strings: $%s = "a" condition: any of them }' % big),
            ("oversize", 'rule r { strings: $a = "%s" condition: $a }' % ("x" * 20000)),
            ("oversize", 'rule r { strings: $a = /%s/ condition: $a }' % ("(a|b)" * 3000)),
            ("oversize", 'rule r { strings: $a = /a{1,70000}/ condition: $a }'),
            ("oversize", 'rule r { strings: $a = { %s } condition: $a }' % ("( 01 | " * 2000 + "02" + " )" * 2000)),
            ("oversize", 'rule r { condition: %s true %s }' % ("(" * 5000, ")" * 5000)),
            ("oversize", 'rule r { condition: %s }' % " + ".join(["1"] * 20000)),
            ("oversize", 'rule r { condition: 99999999999999999999999 > 1 }'),
            ("oversize", 'rule r { strings: %s condition: any of them }' % " ".join('$s%d = "abcdef%d"' % (i, i) for i in range(12000))),
            ("include-loop", 'include "self.yar"'), ("include-missing", 'include "nope.yar"')]
    # strings that are split into chained pieces (a jump of more than 200 bytes at the top level) with ONE piece that cannot be compiled
    # (too many alternatives / too much code / a bad range), at every position of the chain: the pieces already split off and the
    # remainder must all be released on the error path
    ok_piece = ["41 42 43 44", "61 ?? 63 64", "( 30 | 31 ) 32 33 34"]
    bad_pieces = [" ".join("( 01 | 02 )" for _ in range(130)), "( " + " | ".join("%02X %02X" % (k, k) for k in range(200)) + " ) " * 1 + " ".join("( 0%d | 1%d )" % (k % 10, k % 10) for k in range(129)),
                  " ".join("[1-2] %02X" % (k % 256) for k in range(3000))]
    for bad in bad_pieces:
        for npieces in (2, 3, 4):
            for badpos in range(npieces):
                pieces = [bad if k == badpos else ok_piece[k % 3] for k in range(npieces)]
                jump = rng.choice(["[300]", "[201-400]", "[250-]"])
                out.append(("chained-piece-error", "rule r { strings: $a = { %s } condition: $a }" % (" %s " % jump).join(pieces)))
    # a string that fails with a recoverable error (the compiler reports it and goes on with the next rule), followed in the same source by
    # rules with one / two / no strings: the bookkeeping of the failed string must not leak into the rules after it
    bad_strings = ["/x(((((((((abcdefgh){3}){3}){3}){3}){3}){3}){3}){3})*y/", "/%s/" % ("(a|b)" * 200), "{ %s }" % " ".join("( 01 | 02 )" for _ in range(130)),
                   "/a{5,2}/", "{ 01 [5-2] 02 }", '"dup" $a = "dup2"', "/[z-a]/", "/(/", "{ 01 02", '"unterminated']
    followers = ['rule f1 { strings: $a = "one" condition: $a }', 'rule f2 { strings: $a = "one" $b = "two" condition: $a and $b }',
                 'rule f3 { strings: $a = "one" condition: any of them }', 'rule f0 { condition: true }',
                 'rule f4 { strings: $a = "one" $b = { 01 02 03 04 } $c = /thr[e]+/ condition: 2 of them }']
    for bs in bad_strings:
        for pre in ("", 'rule before { strings: $p = "pre" condition: $p }\n'):
            fl = " ".join(rng.choice(followers).replace("rule f", "rule g%d_" % k) for k in range(rng.range(1, 3)))
            out.append(("error-then-rules", '%srule bad { strings: $x = "fine" $a = %s condition: any of them }\n%s' % (pre, bs, fl)))
    for badpos in range(3):
        pieces = ["(x|y){0,1}" * 140 if k == badpos else "abc%d" % k for k in range(3)]
        out.append(("chained-piece-error", "rule r { strings: $a = /%s/ condition: $a }" % ".{300,400}".join(pieces)))
    while len(out) < n:
        src = rng.choice(SEEDS)
        b = bytearray(src.encode())
        for _ in range(rng.range(1, 4)):
            k = rng.below(4)
            pos = rng.below(len(b))
            if k == 0:
                b[pos] = rng.below(256)
            elif k == 1:
                del b[pos]
            elif k == 2:
                b[pos:pos] = rng.choice([b"{", b"}", b"(", b")", b'"', b"/", b"\\", b"$", b"\0", b"\n", b"[", b"]", b"*/", b"/*", b"//"])
            else:
                q = rng.below(len(b))
                b[pos:pos] = b[q:q + rng.below(20)]
        out.append(("bytes", bytes(b)))
    return out


def run(chk):
    ok, log, st = vlib.proof_obligations(chk, PROPS)
    if not ok:
        chk.violation("proof", "C07 obligations (fold_never_traps over the regenerated grammar.y model) no longer check: " + log[-1200:],
                      {"theorems": PROPS, "log": log[-4000:], "generated": st}, found_input=False)
    variant = "asan"
    hscan = build.harness("h_scan", variant)
    n = 700 if chk.tier == "quick" else 6000
    muts = mutants(chk.rng, n)
    good = 'rule ok { strings: $a = "needle" condition: $a }'
    cases = []
    # include chains around YR_MAX_INCLUDE_DEPTH: the last file holds a rule, a syntax error, or yet another include
    K = vlib.consts()
    maxdepth = int(K.get("YR_MAX_INCLUDE_DEPTH", 16))
    extra = {}
    for d in [1, 2, maxdepth - 2, maxdepth - 1, maxdepth, maxdepth + 1, maxdepth + 2, maxdepth + 3, 3 * maxdepth]:
        for last in ["rule deep { condition: true }", "rule deep { condition: }", 'include "nope.yar"']:
            files = ["file ch%d_%d.yar %s" % (d, k, hx(('include "ch%d_%d.yar"\nrule r%d { condition: true }' % (d, k + 1, k)).encode())) for k in range(1, d)]
            files.append("file ch%d_%d.yar %s" % (d, d, hx(last.encode())))
            extra[len(muts)] = files
            muts.append(("include-chain", 'include "ch%d_1.yar"\nrule top { condition: true }' % d))
    # includes resolved by the DEFAULT include callback relative to the directory of the including file (real files on disk): the
    # directory prefix and the include path are joined in a fixed buffer of the lexer
    disk = {}
    for dlen in (1, 12, 200, 1000):
        for ilen in (5, 1000, 1010, 1022, 1023, 1024, 1030, 2000, 8000):
            if dlen + ilen < 900 and (dlen, ilen) != (1, 5):
                continue
            d = "d" * dlen
            inc = "i" * ilen
            disk[len(muts)] = ["diskdir", "diskfile %s/x.yar %s" % (d, hx(('include "%s"\nrule top { condition: true }' % inc).encode())),
                               "diskfile %s/ok.yar %s" % (d, hx(b"rule inc { condition: true }"))] + \
                              (["diskfile %s/%s %s" % (d, inc, hx(b"rule inc2 { condition: true }"))] if ilen <= 200 else [])
            muts.append(("include-disk", "%s/x.yar" % d))
    # regexps that are invalid whatever precedes the error: an unknown escape sequence before it (a warning in strict-escape mode) must not
    # hide the error; every one of these must be rejected with an error, in both modes
    must_fail = set()
    for bad_re in ["ab\\g(cd", "\\gabc[z-a]def", "\\gabcd{1,99999}", "ab[\\g]cd)ef", "\\qx{3,2}", "a\\gb(", "(\\g", "x\\g[", "\\g*+?{", "ab(cd", "[z-a]", "x{3,2}", "a)b"]:
        for tmpl in ['rule bad { strings: $a = /%s/ condition: $a }', 'rule bad { condition: ext_s matches /%s/ }']:
            for _rep in range(3):          # i % 3 decides strict-escape mode below: cover both
                must_fail.add(len(muts))
                muts.append(("invalid-regexp", tmpl % bad_re))
    chain_expect = {}
    for i, (kind, src) in enumerate(muts):
        b = src if isinstance(src, bytes) else src.encode()
        if kind == "include-chain":
            d = int(re.search(r"ch(\d+)_1", src).group(1))
            chain_expect["m%d" % i] = d
        if i in disk:
            cases.append(("m%d" % i, disk[i] + ["newcompiler2", "addfile " + src, "force diskclean",
                                                  "force destroycompiler", "force newcompiler2", "force add " + hx(good.encode()), "force getrules2",
                                                  "force scanner 0", "force scan " + hx(b"xx needle yy"), "force sdestroy", "force destroyrules", "force destroycompiler"]))
            continue
        strict = ["strictescape"] if i % 3 == 0 else []       # yara -E: unknown escape sequences in regexps are reported as warnings
        cases.append(("m%d" % i, extra.get(i, []) + ["file inc.yar " + hx(b'rule inc_rule { condition: true }'), "file self.yar " + hx(b'include "self.yar"'),
                                  "newcompiler"] + strict + ["defi ext_i 1", "defs ext_s " + hx(b"abc"), "add " + hx(b),
                                  "force destroycompiler", "force newcompiler2", "force add " + hx(good.encode()), "force getrules2",
                                  "force scanner 0", "force scan " + hx(b"xx needle yy"), "force sdestroy", "force destroyrules", "force destroycompiler"]))
    # constant-expression sweep: the proved fragment, on the implementation
    pairs = []
    for op in c12.OPS:
        for a, b in c12.operand_pairs(chk.rng.fork(), 30 if chk.tier == "quick" else 200):
            pairs.append((op, a, b))
            cases.append(("k%d" % (len(pairs) - 1), ["newcompiler", "add " + hx(("rule c { condition: (%s %s %s) == 0 }" % (c12.lit(a), c12.OPS[op], c12.lit(b))).encode()),
                                                       "force destroycompiler"]))
    # large valid sources: more than 1 MiB of distinct strings, so the compiler's string pool (whose first entry is the namespace name every
    # later rule lookup goes through) has to grow and move while rules are still being added; a valid file must compile without error and
    # all its rules must be there, a duplicated identifier among them must be diagnosed exactly once
    nfill = 140 if chk.tier == "quick" else 400
    rb = chk.rng.fork()
    filler = "".join('rule fill%d { meta: m = "%s" condition: true }\n' % (k, "".join(rb.choice("abcdefghijklmnopqrstuvwxyz0123456789") for _ in range(40)) * 200)
                     for k in range(nfill))
    big_ok = "rule first { condition: true }\n" + filler + "rule last { condition: first }\n"
    big_dup = big_ok + "rule first { condition: false }\n"
    for cid, src in (("big0", big_ok), ("big1", big_dup)):
        cases.append((cid, ["newcompiler", "add " + hx(src.encode())] + (["getrules", "scanner 0", "scan " + hx(b"zz")] if cid == "big0" else []) +
                      ["force destroycompiler", "force newcompiler2", "force add " + hx(good.encode()), "force getrules2",
                       "force scanner 0", "force scan " + hx(b"xx needle yy"), "force sdestroy", "force destroyrules", "force destroycompiler"]))
    out, err = vlib.run_cases(hscan, cases, timeout=3000, args=["20"], jobs=16)
    for cid, want in (("big0", 0), ("big1", 1)):
        lines = out.get(cid, [])
        adds = [l for l in lines if l.startswith("add errors=")]
        replay = {"kind": "large-source", "how": "rule first {condition: true} + %d rules with distinct 8000-byte meta strings + rule last {condition: first}%s; "
                  "h_scan (ASan build): newcompiler; add <source>; getrules; scanner 0; scan" % (nfill, " + a second rule first" if want else ""),
                  "output": [l[:300] for l in lines[-8:]]}
        if any(l.startswith("crash") for l in lines):
            chk.violation("crash:large-source", "compiling a valid %d KB rule file crashes or corrupts memory: %s" % (len(big_ok) // 1024, [l for l in lines if l.startswith("crash")][0]), replay)
        elif not adds or int(adds[0].split("=")[1]) != want:
            chk.violation("large-source", "a %d KB rule file (%s) gives %s, expected %d error(s): %s" % (len(big_ok) // 1024, "valid" if not want else "one duplicated identifier",
                          adds[:1], want, [l[:200] for l in lines if l.startswith("cb level=e")][:2]), replay)
        elif cid == "big0":
            sc = [l for l in lines if l.startswith("scan msgs=")]
            nm = len(re.findall(r"M:default:(?:fill\d+|first|last)", sc[0])) if sc else -1
            if nm != nfill + 2:
                chk.violation("large-source", "a valid %d KB rule file: %d of %d rules match" % (len(big_ok) // 1024, nm, nfill + 2), replay)
            else:
                chk.add("large_sources_ok")
        else:
            chk.add("large_sources_ok")
    cases = [c for c in cases if not c[0].startswith("big")]
    ub = sorted(set(re.findall(r"(\S+:\d+:\d+: runtime error: [^\n]{0,80})", err)))
    chk.note(ubsan_reports=ub[:20])
    kinds = {}
    nontriv = set()
    okc = 0
    line0_eof = 0
    for cid, cmds in cases:
        lines = out.get(cid, [])
        if cid.startswith("m"):
            kind, src = muts[int(cid[1:])]
        else:
            kind, src = "constexpr", "%s %s %s" % (pairs[int(cid[1:])][1], c12.OPS[pairs[int(cid[1:])][0]], pairs[int(cid[1:])][2])
        kinds[kind] = kinds.get(kind, 0) + 1
        b = src if isinstance(src, bytes) else src.encode()
        replay = {"kind": kind, "source_hex": hx(b), "source": b[:400].decode("latin-1"), "output": lines[-12:]}
        crash = [l for l in lines if l.startswith("crash")]
        if crash:
            chk.violation("crash:" + kind, "compiling a %s mutant crashes or corrupts memory: %s" % (kind, crash[0]), replay)
            continue
        adds = [l for l in lines if l.startswith("add errors=")]
        if not adds:
            chk.violation("norun", "compile did not return (%s): %s" % (kind, lines[-3:]), replay)
            continue
        nerr = int(adds[0].split("=")[1])
        ecb = 0
        for l in lines:
            if l.startswith("add errors="):
                break
            if l.startswith("cb level=e"):
                ecb += 1
                if " line=" not in l or "msg=-" in l:
                    chk.violation("diag", "error callback without message (%s)" % kind, replay)
                else:
                    ml = re.search(r" line=(-?\d+) .* msg=([0-9a-f]*)", l)
                    if ml and int(ml.group(1)) <= 0:
                        try:
                            text_ = bytes.fromhex(ml.group(2)).decode("latin-1")
                        except ValueError:
                            text_ = ""
                        # yyget_lineno() is 0 only when the lexer has already popped its last buffer, i.e. the error is reported at the end of
                        # the input: it must then be the last error of this compilation
                        later = [x for x in lines[lines.index(l) + 1:] if x.startswith("cb level=e")]
                        first_add = next((k for k, x in enumerate(lines) if x.startswith("add errors=")), len(lines))
                        later = [x for x in lines[lines.index(l) + 1:first_add] if x.startswith("cb level=e")]
                        if not later and int(ml.group(1)) == 0:
                            line0_eof += 1
                            if line0_eof == 1:
                                chk.violation("error-line-zero-at-end-of-input", "a source that ends in the middle of a rule is diagnosed with line number 0: "
                                              "'%s' for %r" % (text_[:80], b[-60:]), replay)
                        else:
                            chk.violation("error-line-zero", "error callback with line number %s: '%s' (%s)" % (ml.group(1), text_[:100], kind), replay)
        if (nerr > 0) != (ecb > 0) or (nerr != ecb):
            chk.violation("accounting", "error count %d but %d error callbacks (%s)" % (nerr, ecb, kind), replay)
            continue
        if kind == "error-then-rules":
            spurious = [l for l in lines if l.startswith("cb level=e") and re.search(r'rule=g\d+_', l)]
            if nerr == 0:
                chk.violation("invalid-accepted", "a rule with an invalid string is accepted without an error: %s" % src[:200], replay)
                continue
            if spurious:
                chk.violation("spurious-diagnosis", "after a string that failed to compile, a valid rule that follows it is rejected: %s" % spurious[0][:200], replay)
                continue
        if cid.startswith("m") and int(cid[1:]) in must_fail and nerr == 0:
            chk.violation("invalid-accepted", "an invalid regular expression is accepted without an error: %s" % src[:160], replay)
            continue
        if cid in chain_expect and chain_expect[cid] >= maxdepth + 1 and nerr == 0:
            # the top-level source is not on the stack: ch_1 .. ch_d are d pushes on top of it
            chk.violation("include-depth", "an include chain of %d files below the top-level source (YR_MAX_INCLUDE_DEPTH = %d) compiles without error"
                          % (chain_expect[cid], maxdepth), replay)
            continue
        if cid.startswith("m"):
            sc = [l for l in lines if l.startswith("scan msgs=")]
            if not sc or "M:default:ok" not in sc[0] or " rc=0" not in sc[0]:
                chk.violation("aftermath", "after a failed/finished compilation an unrelated compile+scan misbehaves: %s" % lines[-6:], replay)
                continue
        lk = [l for l in lines if l.startswith("leakcheck")]
        if lk and lk[0] != "leakcheck 0":
            chk.violation("leak:" + kind, "memory leaked by compiling a %s mutant" % kind, replay)
            continue
        okc += 1
        nontriv.add((kind, min(nerr, 3), len(b) // 64))
    chk.note(evaluations=len(cases), distinct_nontrivial=len(nontriv), input_kinds=kinds, traces_validated_against_impl=okc,
             sanitizer="ASan+UBSan build of libyara and harness, LeakSanitizer check at the end of every case",
             rule="token-level truncations/deletions/duplications of 6 seed rule files covering all sections, oversized constructs, "
                  "byte-level mutations, generated rules nesting loops of every kind with the loop variables in every type context, include loops, include chains of depth 1..3*YR_MAX_INCLUDE_DEPTH ending in a rule / a syntax error / a missing file; plus the constant-expression operand sweep; distinct = (kind, error count class, size class)")
    chk.sample({"kind": muts[5][0], "source": muts[5][1] if isinstance(muts[5][1], str) else muts[5][1].hex()})
    chk.sample({"kind": muts[-1][0], "source": muts[-1][1] if isinstance(muts[-1][1], str) else muts[-1][1].hex()})
    chk.assumptions += ["accept/reject of the grammar itself is not modelled: only accounting, diagnosis, crash/leak freedom and the aftermath are checked"]
