"""C10: a scanner's results do not depend on its scan history.

Proofs: Props/Properties_C10.v over Model/ScannerHist.v.  Tie, on every run:
  * random histories (scans of PE / ELF / text / empty / many-matches / block-list inputs, callback
    abort / error at a message, 1 ns time-outs, not-ready blocks resumed, flag / timeout / external
    changes, destroy after the prefix) run on ONE scanner through harness/h_hist, with the fields of
    YR_SCAN_CONTEXT dumped after every operation;
  * the extracted model runs the same history; its oracle ("what a scan reports as a function of
    flags, timeout, input, externals, entry point seen") is measured on freshly created scanners;
    predicted traces AND state fields are compared with the implementation;
  * independently of the model, every scan is repeated on a freshly created scanner with the same
    settings and script and must report the same;
  * the histories run again in the ASan build: leakcheck after destroy must be 0.
Hazard histories (abandoned suspension, destroy while suspended, external named like a module, PE then
text under a rule using `entrypoint`) are where the pinned commit failed; they are checked the same way
and any difference is a violation."""
import hashlib, os, re
import vlib, build
from vlib import hx

PROPS = "Props/Properties_C10.v"
T = os.path.join(build.REPO, "tests", "data")

RULES = r'''
import "pe"
import "elf"
import "math"
import "console"
rule ep { condition: entrypoint >= 0 }
rule epv { condition: entrypoint == 5344 or entrypoint == 0x200 }
rule fs { condition: filesize > 100 }
rule fs0 { condition: filesize == 0 }
rule fsd { condition: defined filesize }
rule fsx { condition: filesize < 50 or uint8(filesize - 1) == 0x61 }
rule pe1 { condition: pe.number_of_sections > 0 and pe.entry_point >= 0 }
rule elf1 { condition: elf.type == elf.ET_EXEC or elf.type == elf.ET_DYN }
rule ispe { condition: pe.is_pe }
rule pedll { condition: pe.is_pe and (pe.characteristics & pe.DLL) != 0 and pe.entry_point >= 0 }
rule m1 { condition: math.entropy(0, filesize) > 1.0 }
rule s1 { strings: $a = "abc" $b = /ab+c/ $c = { 4D 5A } condition: any of them }
rule s2 { strings: $a = "a" condition: #a > 2 }
rule lg { condition: console.log("fs=", filesize) }
rule loop { condition: for all i in (0..300) : (i >= 0) }
rule x1 { condition: xi == 3 }
rule x2 { condition: xs contains "ab" }
rule nst { strings: $z = "zz" condition: #z == 0 }
private rule pr { strings: $q = "hello" condition: $q }
rule usepr { condition: pr }
'''
RULES_TIME = RULES + "rule xm { condition: time == 1 }\n"
EXT = {1: ("xi", "i", 3), 2: ("xs", "s", b"ab"), 3: ("time", "i", 1)}


def hharness(variant="plain"):
    fl = ("-DHSCAN_HASH=" + hashlib.sha256(open(os.path.join(build.VERIF, "harness", "h_scan.c"), "rb").read()).hexdigest()[:8],)
    return build.harness("h_hist", variant, extra_flags=fl)


def hist_runner():
    """The extracted model runner with the c10/c20 commands.  Normally the shared runner (vlib.build_model); when
    another property's fragment does not build at the moment, a private runner is extracted from Model/HistExtract.v
    alone into scratch (same extraction settings, same prelude/main, only ocaml/cmds/90_hist.ml)."""
    import subprocess, tempfile
    if os.environ.get("VERIF_HIST_RUNNER"):
        return os.environ["VERIF_HIST_RUNNER"]
    try:
        m = vlib.build_model()
        out, _ = vlib.run_lines(m, ["c20 gr | "])
        if out and not out[0].startswith("unknown"):
            return m
    except vlib.CoqError:
        pass
    d = os.path.join(build.scratch_root(), "verif-hist-runner")
    os.makedirs(d, exist_ok=True)
    lock = vlib.coq_lock()
    try:
        vlib.coq_make(["Model/HistExtract.vo"])
    finally:
        lock.close()
    names = open(os.path.join(vlib.COQ, "Extract", "parts", "90_hist.txt")).read().split("names:")[1].split()
    open(os.path.join(d, "Ex.v"), "w").write("Require Extraction.\nRequire Import ExtrOcamlBasic.\nFrom YV Require Import Model.Externals "
                                             "Model.ScannerHist Model.HistExtract.\nExtraction \"model.ml\" %s.\n" % " ".join(names))
    od = os.path.join(build.VERIF, "ocaml")
    open(os.path.join(d, "driver.ml"), "w").write("open Model\n" + "\n".join(open(f).read() for f in (
        os.path.join(od, "prelude.ml"), os.path.join(od, "cmds", "90_hist.ml"), os.path.join(od, "main.ml"))))
    for cmd in (["coqc", "-R", vlib.COQ, "YV", "-w", "-all", "Ex.v"],
                ["ocamlfind", "ocamlopt", "-inline", "50", "-w", "-a", "-o", "runner", "model.mli", "model.ml", "driver.ml"]):
        p = subprocess.run(cmd, cwd=d, stdout=subprocess.PIPE, stderr=subprocess.STDOUT, text=True)
        if p.returncode != 0:
            raise vlib.CoqError("private model runner: " + p.stdout[-2000:])
    return os.path.join(d, "runner")


def rd(name):
    return open(os.path.join(T, name), "rb").read()


def make_inputs(tier):
    pe2 = sorted(f for f in os.listdir(T) if f.startswith("tiny-idata"))[0]
    elf = "elf_with_imports"
    inputs = {
        1: ("buf", rd("tiny")), 2: ("buf", rd(pe2)), 3: ("buf", rd(elf)),
        4: ("buf", b"hello abc abbbc zz aaaa"), 5: ("buf", b""),
        6: ("fill", (b"a", 1000100)),
        7: ("blocks", (120, [(0, b"xx abc xx zz"), (100, b"zzzz abc hello")])),
        8: ("blocks", (40100, [(0, rd("tiny")), (40000, b"tail abc"), (40050, b"zz")])),
        9: ("buf", rd(elf)[:64] + b"abc"),
        10: ("fill", (b"q", 1100000)),                       # > YR_MAX_STRING_MATCHES occurrences of "qq"
        11: ("buf", b"xx qq yy qqq f03zzyx zz qq"),
        # iterators WITHOUT a file_size function (filesize undefined), one and several blocks
        12: ("blocks", (None, [(0, b"hello abc zz no size a")])),
        13: ("blocks", (None, [(0, rd("tiny")), (40000, b"tail abc"), (40050, b"zz a")])),
        # the other entry points: yr_scanner_scan_file / yr_scanner_scan_fd (size known through the mapping)
        14: ("file", b"file entry point abc abbc zz hello a"),
        15: ("fd", rd("tiny")),
        16: ("file", rd(elf)),
        30: ("buf", rd("mtxex.dll")),       # a PE DLL: not a PE at all for the pe module when SCAN_FLAGS_PROCESS_MEMORY is set
        # regexps with backward code reaching YR_MAX_STRING_MATCHES in the middle of a run (other fibers alive), and a
        # regexp that needs about 800 of the RE_MAX_FIBERS fibers of the scanner's pool
        20: ("fill", (b"a" * 36 + b"XYZW", 28000, b"a" * 22 + b"XYZW")),
        21: ("buf", b"b" * 300 + b"YYYY"),
        22: ("buf", b"aaaXYZW bbbbYYYY ccQRST ababXYZV"),
        23: ("fill", (b"c" * 36 + b"QRST", 28000, b"c" * 22 + b"QRST")),
        25: ("buf", b"x" + b"a" * 3000),                 # $g needs more than RE_MAX_FIBERS fibers: ERROR_TOO_MANY_RE_FIBERS, pool at 1024
        26: ("buf", b"x" + b"a" * 186 + b"b"),           # $g matches with 1021 fibers (the most this family reaches without the error)
        27: ("buf", b"hello world abbb. aaaXYZW abc"),   # ordinary regexps
        # hex strings with jumps (yr_re_fast_exec, per-scanner position pool): after the jump two candidates survive the
        # next byte, the longer one fails later, the shorter one matches; several occurrences
        28: ("buf", b"abcdXefeZ" * 12 + b" 1234xx5y5zz67 1234..5.5..67 " * 6 + b"qrstu5uv qrst.u.uuv " * 5 + b"abddXXefefZ" * 4),
        29: ("buf", b"abcdXefeZ.abcdefef.abcdXXeefefe" * 40),
        24: ("fill", (b"ab" * 18 + b"XYZV", 28000, b"ab" * 11 + b"XYZV")),
    }
    return inputs


def norm_flags(f):
    return f if f & 24 else f | 24


def scan_lines(inp, script, nr_plan, start=True, flags=24):
    """harness lines that start a scan of the input; nr_plan: list of block numbers answered not-ready.
    flags: h_scan's scanfile/scanfd commands call yr_scanner_set_flags themselves: they are given the scanner's flags"""
    kind, d = inp
    sl = ["script " + (",".join("%d:%d" % (k, 1 if a == "a" else 2) for k, a in script) if script else "-")]
    if kind == "buf":
        return sl + ["scan " + hx(d)]
    if kind in ("file", "fd"):
        return sl + ["resetidx", "scan%s %d %s" % (kind, norm_flags(int(flags)), hx(d))]
    if kind == "fill":
        return sl + ["strings 0", "scanfill %s %d%s" % (hx(d[0]), d[1], " " + hx(d[2]) if len(d) > 2 else ""), "strings 1"]   # (a million matches are not printed)
    fsz, blocks = d
    pat = ""
    for k, b in enumerate(nr_plan):
        pat += "0" * (b + k - len(pat)) + "1"
    return sl + ["blocks %s " % ("-" if fsz is None else fsz) + " ".join("%d:%s" % (b, hx(x)) for b, x in blocks), "notready " + (pat or "-"), "hblocks start"]


def nblocks(inp):
    return len(inp[1][1]) if inp[0] == "blocks" else 1


def fsize(inp):
    """what the scan's iterator reports as file size; None: the iterator has no file_size function"""
    if inp[0] == "fill":
        return inp[1][1] * len(inp[1][0]) + (len(inp[1][2]) if len(inp[1]) > 2 else 0)
    return len(inp[1]) if inp[0] in ("buf", "file", "fd") else inp[1][0]


def val_h(ty, v):
    return str(v) if ty == "i" else hx(v)


def val_m(ty, v):
    return "i%d" % v if ty == "i" else "s" + hx(v)


HOT = b"qq"


def many_rules(nrules, per, hot):
    """nrules x per strings (global string index = rule * per + position, declaration order); the string with
    global index [hot] is the two-byte pattern that a buffer of 1.1 million 'q' matches more than
    YR_MAX_STRING_MATCHES times; all others are distinct fillers"""
    out = []
    for r in range(nrules):
        strs = []
        for j in range(per):
            g = r * per + j
            strs.append('$s%d = "%s"' % (j, HOT.decode() if g == hot else "f%02dzzyx" % g))
        out.append("rule m%d { strings: %s condition: any of them }" % (r, " ".join(strs)))
    return "\n".join(out) + "\n"


RE_RULES = r'''
rule noisy { strings: $n = /(a{1,6}){1,6}XYZW/ condition: $n }
rule lazy { strings: $l = /(c{1,6}?){1,6}?QRST/ condition: $l }
rule hexalt { strings: $h = { (61 | 62) [0-40] (61 62 | 62) 58 59 5A 56 } condition: $h }
rule target { strings: $t = /(b{1,10}){1,10}(b{1,10}){1,10}YYYY/ condition: $t }
'''
# (a separate rule set: $g is very slow on the megabyte of 'a' runs the rules above are scanned with)
RE_LIMIT_RULES = r'''
rule target { strings: $t = /(b{1,10}){1,10}(b{1,10}){1,10}YYYY/ condition: $t }
rule noisy { strings: $n = /(a{1,6}){1,6}XYZW/ condition: $n }
rule hungry { strings: $g = /x(a|aa){1,1000}b/ condition: $g }
rule ordinary { strings: $o = /he+l+o [a-z]+/ $p = /ab+[^b]/ condition: any of them }
rule cond_matches { condition: xs matches /a+b/ }
rule hexjump { strings: $j = { 61 62 63 64 [1-4] 65 66 } condition: $j }
rule hexjump2 { strings: $k = { 31 32 33 34 [2-6] 35 [1-3] 36 37 } $l = { 71 72 73 74 [0-3] 75 [1-2] 76 } condition: any of them }
rule hexjumpalt { strings: $m = { 61 62 (63 | 64) 64 [1-4] 65 66 } condition: $m }
'''


def rules_text(rs):
    """rs: False = RULES, True = RULES + external named like a module, ("many", nrules, per, hot) = many-strings family"""
    if rs is True:
        return RULES_TIME
    if rs is False:
        return RULES
    if rs[0] == "re":
        return RE_LIMIT_RULES if len(rs) > 1 else RE_RULES
    return many_rules(rs[1], rs[2], rs[3])


def family(rs):
    return "std" if rs in (True, False) else rs


def prologue(rs):
    ids = [1, 2] + ([3] if rs is True else [])
    return (["newcompiler", "strings 1"] + ["def%s %s %s" % (EXT[i][1], EXT[i][0], val_h(EXT[i][1], EXT[i][2])) for i in ids] +
            ["add " + hx(rules_text(rs).encode()), "getrules"])


EPILOGUE = ["destroyrules", "destroycompiler"]
NOASAN = ("refiberslong", "proc")     # not repeated in the ASan build: 8 scans of 1.1 MB; a scan of the ASan process's own address space


# ---------------------------------------------------------------- history generation
def gen_history(r, inputs, tier, hazard=None):
    """list of ops: dict(m=model token, h=[harness lines], kind=...)"""
    ops = []
    n = r.range(3, 8)
    ids = [1, 2, 3, 4, 5, 7, 8, 9, 4, 1, 12, 13, 12, 14, 15, 16]
    if hazard is None and r.chance(1, 12 if tier == "quick" else 6):
        ids = ids + [6, 6, 6]
    suspended = None
    for step in range(n):
        k = r.below(10)
        if k < 6:
            i = r.choice(ids)
            inp = inputs[i]
            script = []
            if r.chance(1, 2):
                for _ in range(r.range(1, 2)):
                    script.append((r.below(14), r.choice("ae")))
                script = sorted(dict(script).items())
            plan = []
            if inp[0] == "blocks" and r.chance(2, 3):
                nb = nblocks(inp)
                plan = sorted(set(r.range(1, nb) for _ in range(r.range(1, 2))))
            sc = ",".join("%d=%s" % (k2, a) for k2, a in script) or "-"
            fl = 24
            if inp[0] in ("file", "fd"):
                fl = r.choice([24, 8, 16, 1, 26])
                ops.append(dict(kind="set", m="sf:%d" % fl, h=["sflags %d" % fl]))
            ops.append(dict(kind="scan", inp=i, script=script, plan=plan,
                            m="scan:%d:%s:%s" % (i, sc, plan[0] if plan else "-"), h=scan_lines(inp, script, plan, flags=fl)))
            if plan:
                if hazard == "abandon" and r.chance(2, 3):
                    hazard_done = True
                    continue            # the next operation finds the scan suspended
                if hazard == "destroy-suspended" and r.chance(2, 3):
                    break
                for nxt in plan[1:] + [None]:
                    ops.append(dict(kind="resume", m="resume:%s" % (nxt if nxt is not None else "-"), h=["hblocks resume"]))
        elif k == 6:
            f = r.choice([0, 8, 16, 24, 1, 26, 9])
            ops.append(dict(kind="set", m="sf:%d" % f, h=["sflags %d" % f]))
        elif k == 7:
            if r.chance(3, 4):
                t = r.choice([1, 0, 1, 0, 5 * 10 ** 9])
                ops.append(dict(kind="set", m="pt:%d" % t, h=["stimeoutns %d" % t]))
            else:
                t = r.choice([0, 100])
                ops.append(dict(kind="set", m="st:%d" % t, h=["stimeout %d" % t]))
        else:
            x = r.choice([1, 2, 2, 1, 5])
            if x == 1:
                v = r.choice([3, 4, 0])
                ty = r.choice("iib")
                ops.append(dict(kind="set", m="def:1:%s%d" % (ty, v), h=["sdef%s xi %d" % (ty, v)]))
            elif x == 2:
                v = r.choice([b"ab", b"zz", b"", b"xaby"])
                ops.append(dict(kind="set", m="def:2:s%s" % hx(v), h=["sdefs xs " + hx(v)]))
            else:
                ops.append(dict(kind="set", m="def:5:i1", h=["sdefi nosuch 1"]))
    ops.append(dict(kind="destroy", m="destroy", h=["sdestroy"]))
    return ops


KINDS = {"I": "I", "D": "D", "C": "C", "T": "T", "S": "S", "M": "R", "N": "R", "F": "F"}


class Intern:
    def __init__(self):
        self.ids = {}
        self.rev = {}

    def tok(self, t):
        k = KINDS.get(t[0], "R")
        key = (k, t)
        if key not in self.ids:
            self.ids[key] = len(self.ids) + 1
            self.rev[(k, self.ids[key])] = t
        return "%s%d" % (k, self.ids[key])

    def msgs(self, s):
        toks = [t for t in s.split(";") if t]
        return ",".join(self.tok(t) for t in toks) or "-"

    def back(self, s):
        if s == "-":
            return ""
        return "".join(self.rev[(t[0], int(t[1:]))] + ";" for t in s.split(","))


def parse_scan(line):
    m = re.match(r"scan msgs=(.*) rc=(-?\d+)", line)
    return (m.group(1), int(m.group(2))) if m else (None, None)


def parse_ctx(line):
    d = dict(kv.split("=", 1) for kv in line.split()[1:])
    return d


def ctx_canon_impl(d, extnames):
    objs = []
    for it in d["objs"].split(","):
        if it:
            p = it.split(":", 2)
            objs.append((p[0], p[1] + (p[2] if len(p) > 2 else "")))
    fib = d["fibers"].split("/")
    return dict(ep=d["ep"], fs=d["fsize"], fl=d["flags"], to=d["timeout"], nb=d["nb"], le="0" if d.get("lasterr", "-") == "-" else "1",
                d=d["rmf"] + d["nsu"] + d["std"] + d["m"] + d["um"] + d["req"], objs=sorted(objs),
                pool_all_free=(fib[0] == fib[1]), pool=int(fib[1]) + int(d["positions"]), fibers=int(fib[1]), positions=int(d["positions"]))


def ctx_canon_model(s):
    d = dict(kv.split("=", 1) for kv in s.split())
    objs = []
    for it in d["objs"].split(","):
        if it:
            k, v = it.split(":")
            objs.append((EXT[int(k)][0], v[0] + (v[1:] if v[0] != "s" else v[1:])))
    return dict(ep=d["ep"], fs=d["fs"], fl=d["fl"], to=d["to"], nb=d["nb"], le=d.get("le", "0"), d=d["d"], objs=sorted(objs), pool=int(d["pool"]),
                alive=d["alive"], leaked=int(d["leaked"]), live=int(d["live"]), susp=d["susp"])


def run(chk):
    tier = chk.tier
    ok, log, st = vlib.proof_obligations(chk, PROPS)
    if not ok:
        chk.violation("proof", "proof obligations of C10 no longer check: " + log[-1500:], {"log": log[-4000:]}, found_input=False)
    h = hharness()
    model = hist_runner()
    inputs = make_inputs(tier)
    intern = Intern()
    # ---- entry points of the inputs, as the implementation computes them (fresh scanner, both flag settings)
    eps = {}
    cases = []
    for i, inp in inputs.items():
        if inp[0] == "fill":
            eps[i] = ("-", "-")
            continue
        for fl in (24, 26):
            cases.append(("ep%d_%d" % (i, fl), prologue(False) + ["scanner 0", "sflags %d" % fl] + scan_lines(inp, [], [], flags=fl) + ["ctx", "sdestroy"] + EPILOGUE))
    out, _ = vlib.run_cases(h, cases)
    for i, inp in inputs.items():
        if inp[0] != "fill":
            v = []
            for fl in (24, 26):
                cl = [l for l in out["ep%d_%d" % (i, fl)] if l.startswith("ctx ")]
                v.append(parse_ctx(cl[0])["ep"] if cl else "-")
            eps[i] = tuple(v)
    chk.note(entry_points={str(k): v for k, v in eps.items()})
    in_tokens = " ".join("%d=%s/%s/%s/%d" % (i, eps[i][0], eps[i][1], "-" if fsize(inp) is None else fsize(inp), nblocks(inp)) for i, inp in inputs.items())

    # ---- histories
    nh = 40 if tier == "quick" else 400
    hists = []
    for j in range(nh):
        hists.append(("h%d" % j, gen_history(chk.rng.fork(), inputs, tier), False))
    for hz in ("abandon", "destroy-suspended"):
        for j in range(4 if tier == "quick" else 20):
            hists.append(("%s%d" % (hz, j), gen_history(chk.rng.fork(), inputs, tier, hazard=hz), False))
    # the two notebook hazards, deterministically: suspend, then (a) scan something else, (b) destroy
    def sc(i, plan=()):
        return dict(kind="scan", inp=i, script=[], plan=list(plan), m="scan:%d:-:%s" % (i, plan[0] if plan else "-"), h=scan_lines(inputs[i], [], list(plan)))
    hists.append(("abandonfix0", [sc(7, [1]), sc(5), sc(5), dict(kind="destroy", m="destroy", h=["sdestroy"])], False))
    hists.append(("destroy-suspendedfix0", [sc(4), sc(7, [1]), dict(kind="destroy", m="destroy", h=["sdestroy"])], False))
    # too many matches, deterministically: the disabled-string bitmap must be clean for the next scan
    ops = [dict(kind="scan", inp=i, script=sc, plan=[], m="scan:%d:%s:-" % (i, ",".join("%d=%s" % x for x in sc) or "-"), h=scan_lines(inputs[i], sc, []))
           for i, sc in ((6, []), (6, []), (4, []), (6, [(0, "a")]), (4, []))]
    ops.append(dict(kind="destroy", m="destroy", h=["sdestroy"]))
    hists.append(("toomany0", ops, False))
    # file_size: a scan whose size is known (scan_mem, scan_file, scan_fd, iterator with file_size) followed by a
    # yr_scanner_scan_mem_blocks scan whose iterator has NO file_size function: filesize must be undefined again
    def scf(i, fl=24):
        return [dict(kind="set", m="sf:%d" % fl, h=["sflags %d" % fl]),
                dict(kind="scan", inp=i, script=[], plan=[], m="scan:%d:-:-" % i, h=scan_lines(inputs[i], [], [], flags=fl))]
    def res():
        return dict(kind="resume", m="resume:-", h=["hblocks resume"])
    dst = dict(kind="destroy", m="destroy", h=["sdestroy"])
    fam = [("fsize0", [sc(12), sc(4), sc(12), sc(1), sc(13), sc(5), sc(12), dst]),
           ("fsize1", scf(14) + [sc(12)] + scf(15) + [sc(13, [1]), res(), sc(7), sc(12), dst]),
           ("fsize2", [sc(8), sc(13), sc(7, [1]), res(), sc(12)] + scf(16, 16) + [sc(12), sc(13, [2]), res(), dst])]
    if tier != "quick":
        fam += [("fsize3", [sc(6), sc(12), sc(10), sc(13), dst]),
                ("fsize4", scf(15, 26) + [sc(12)] + scf(14, 1) + [sc(13), sc(12), dst]),
                ("fsize5", [sc(9), sc(12), sc(3), sc(13, [1]), sc(4), sc(12), dst])]
    for hid, ops in fam:
        hists.append((hid, ops, False))
    # strings_temp_disabled must be cleared for EVERY string: a string with a high global index (beyond the first
    # byte / the first 64-bit word / the first num_rules bits of the bitmap) hits YR_MAX_STRING_MATCHES with the
    # callback continuing, then the same scanner scans a small buffer that contains it
    many = [("many", 7, 10, 69), ("many", 7, 10, 20), ("many", 2, 6, 9)]
    if tier != "quick":
        many += [("many", 1, 70, 69), ("many", 1, 70, 64), ("many", 7, 10, 63), ("many", 7, 10, 64), ("many", 7, 10, 16),
                 ("many", 7, 10, 8), ("many", 2, 6, 8), ("many", 2, 6, 11), ("many", 9, 8, 71), ("many", 1, 130, 129)]
    for j, rs in enumerate(many):
        ops = [sc(11), sc(10), sc(11), dict(kind="scan", inp=10, script=[(0, "a")], plan=[], m="scan:10:0=a:-", h=scan_lines(inputs[10], [(0, "a")], [])),
               sc(11), sc(10), sc(5), sc(11), dict(kind="destroy", m="destroy", h=["sdestroy"])]
        hists.append(("many%d_%dx%d_hot%d" % (j, rs[1], rs[2], rs[3]), ops, rs))
    # yr_scanner_scan_proc (own pid) sets SCAN_FLAGS_PROCESS_MEMORY for the duration of the scan: whatever way the
    # process scan ends, the flag must be gone and later scans of a DLL / a shared object must equal their fresh twins.
    # What the process scan itself reports depends on the process image and is not compared.
    def proc(script="-"):
        return dict(kind="proc", m="resume:-", h=["strings 0", "script " + script, "scanproc", "strings 1"])     # (a no-op for the model)
    def st(tok, line):
        return dict(kind="set", m=tok, h=[line])
    pf = [("proc0", [sc(30), proc("0:2"), sc(30), sc(3), sc(1), dst]),
          ("proc1", [sc(3), st("pt:1", "stimeoutns 1"), proc(), st("pt:0", "stimeoutns 0"), sc(30), sc(3), dst]),
          ("proc2", [proc(), sc(30), proc("10:1"), sc(30), sc(3), st("sf:26", "sflags 26"), proc("3:2"), sc(30), st("sf:8", "sflags 8"), sc(30), dst])]
    if tier != "quick":
        pf += [("proc%d" % (3 + k), [sc(30), proc("%d:2" % k), sc(30), sc(3), proc("%d:1" % (k + 8)), sc(30), dst]) for k in range(1, 12)]
    for hid, ops in pf:
        hists.append((hid, ops, False))
    # the regexp fiber pool lives across scans: every fiber must be back after a scan that was cut short by the
    # match limit inside a backward regexp execution; after several such scans a fiber-hungry regexp must still match
    noisy_ids = [20] if tier == "quick" else [20, 23, 24]
    for j, ni in enumerate(noisy_ids):
        ops = [sc(22), sc(21)] + [sc(ni) for _ in range(6)] + [sc(21), sc(22)]
        ops += [dict(kind="scan", inp=ni, script=[(0, "a")], plan=[], m="scan:%d:0=a:-" % ni, h=scan_lines(inputs[ni], [(0, "a")], [])), sc(21), dst]
        hists.append(("refiberslong%d_in%d" % (j, ni), ops, ("re",)))          # (not repeated under ASan: 8 scans of 1.1 MB)
        hists.append(("refibers%d_in%d" % (j, ni), [sc(22), sc(ni), sc(21), dst], ("re",)))
    # a scan that ends with ERROR_TOO_MANY_RE_FIBERS leaves the pool full (fiber_count == RE_MAX_FIBERS, all free): every
    # later scan must still be able to run its regexps; likewise after a scan that came within 3 fibers of the limit
    hists.append(("refiberlimit0", [sc(27), sc(25), sc(27), sc(22), sc(21), sc(25), sc(25), sc(27), sc(26), dst], ("re", "limit")))
    hists.append(("refiberlimit1", [sc(26), sc(27), sc(26), sc(21), sc(27), sc(25), sc(26), dst], ("re", "limit")))
    # the fast-exec position pool: lists handed back to the pool must keep the pool's old contents reachable
    ab = lambda i, k, a: dict(kind="scan", inp=i, script=[(k, a)], plan=[], m="scan:%d:%d=%s:-" % (i, k, a), h=scan_lines(inputs[i], [(k, a)], []))
    hists.append(("fastexec0", [sc(28), sc(29), sc(28), dst], ("re", "limit")))
    hists.append(("fastexec1", [sc(28), ab(29, 5, "a"), sc(27), ab(28, 6, "e"), sc(29), sc(28), dst], ("re", "limit")))
    hists.append(("fastexec2", [sc(29), dst], ("re", "limit")))
    if tier != "quick":
        for j in range(6):
            hists.append(("fastexec%d" % (3 + j), [sc(28)] * (j + 1) + [ab(29, j, "ae"[j % 2]), sc(29), dst], ("re", "limit")))
    # external variable named like a module: scan twice
    for j in range(2):
        r = chk.rng.fork()
        ops = [dict(kind="scan", inp=i, script=[], plan=[], m="scan:%d:-:-" % i, h=scan_lines(inputs[i], [], [])) for i in (r.choice([4, 1]), 4, 5)]
        ops.append(dict(kind="destroy", m="destroy", h=["sdestroy"]))
        hists.append(("modname%d" % j, ops, True))

    def hist_case(ops, rs):
        lines = prologue(rs) + ["scanner 0", "hcb", "ctx"]
        for o in ops:
            lines += o["h"]
            if o["kind"] != "destroy":
                lines.append("ctx")
        return lines + EPILOGUE

    hcases = [(hid, hist_case(ops, wt)) for hid, ops, wt in hists]
    out, err = vlib.run_cases(h, hcases, timeout=1500)

    # ---- model, with its oracle measured on fresh scanners (rounds: the model asks, the implementation answers)
    tables = {}       # rule-set family -> {key -> natural string}
    fam_max = {}      # rule-set family -> (most fibers, most fast-exec positions) any single scan needs on a fresh scanner
    dirty_keys = set()

    def model_lines():
        ls = []
        for hid, ops, wt in hists:
            objs = " ".join("%d=%s" % (i, val_m(EXT[i][1], EXT[i][2])) for i in ([1, 2, 3] if wt is True else [1, 2]))
            ls.append("c10 mod %s | obj %s | in %s | or %s | ops %s" % ("3" if wt is True else "", objs, in_tokens,
                      " ".join("%s=%s" % kv for kv in tables.setdefault(family(wt), {}).items()), " ".join(o["m"] for o in ops)))
        return ls

    KEY = re.compile(r"f(\d+)\.t(\d+)\.i(\d+)\.e(-|\d+)\.o(.*)\.r(.*)$")
    mres = None
    for rnd in range(14):
        mres, _ = vlib.run_lines(model, model_lines())
        need = []
        for (hid, ops, wt), l in zip(hists, mres):
            m = re.search(r"need (\S+)", l)
            fam = family(wt)
            if m and m.group(1) not in tables[fam] and (fam, m.group(1)) not in need:
                need.append((fam, m.group(1)))
        if not need:
            break
        qcases = []
        for qi, (fam, key) in enumerate(need):
            m = KEY.match(key)
            flags, tmo, iid, ep, objs, resid = m.groups()
            if resid != "mudgn":
                dirty_keys.add(key)       # data of an abandoned scan lingers: no fresh scanner can show this; answer as if clean
            lines = prologue(True if fam == "std" else fam) + ["scanner 1", "sflags %s" % flags, "stimeoutns %s" % tmo]
            have = set()
            for kv in objs.split(","):
                if kv:
                    k, v = kv.split(":")
                    have.add(int(k))
                    name, ty, _ = EXT[int(k)]
                    lines.append("sdef%s %s %s" % ("i" if v[0] == "i" else "s", name, v[1:] if v[0] == "i" else (v[1:] or "-")))
            lines += ["setep %s" % ep] + scan_lines(inputs[int(iid)], [], [], flags=flags) + ["ctx", "sdestroy"] + EPILOGUE
            qcases.append(("q%d" % qi, lines, (fam, key), fam == "std" and 3 not in have))
        qout, _ = vlib.run_cases(h, [(a, b) for a, b, _, _ in qcases], timeout=1500)
        for qid, lines, (fam, key), notime in qcases:
            table = tables[fam]
            res = qout.get(qid, [])
            sl = [l for l in res if l.startswith("scan msgs=")]
            cl = [l for l in res if l.startswith("ctx ")]
            if not sl or not cl:
                table[key] = "-:0:0:0"
                chk.violation("oracle", "cannot measure a fresh scan for %s: %s" % (key, res[-3:]), {"key": key, "lines": lines}, found_input=False)
                continue
            msgs, rc = parse_scan(sl[0])
            if notime:
                # the measuring rule set has the extra rule 'xm' over the external 'time'; the history's has not
                msgs = ";".join(t for t in msgs.split(";") if t.split(":")[2:3] != ["xm"])
            c = parse_ctx(cl[0])
            fib = c["fibers"].split("/")
            # did the scan get as far as yr_execute_code?  file_size is assigned right before it; when the iterator has no
            # file_size function that field says nothing, but then any message other than T/S, or success, does
            reached = c["fsize"] != "-" or rc == 0 or any(t[:1] in "IDCMNF" for t in msgs.split(";") if t)
            table[key] = "%s:%d:%d:%d" % (intern.msgs(msgs), rc, 1 if reached else 0, int(fib[1]) + int(c["positions"]))
            fm = fam_max.get(fam, (0, 0))
            fam_max[fam] = (max(fm[0], int(fib[1])), max(fm[1], int(c["positions"])))
    chk.note(oracle_entries=sum(len(t) for t in tables.values()), oracle_rounds=rnd + 1)

    # ---- compare model and implementation, operation by operation
    agree = 0
    evals = 0
    nontriv = set()
    fresh_jobs = []      # (hid, op index, lines, expected first-call output)
    leak_expect = {}
    for (hid, ops, wt), ml in zip(hists, mres):
        res = [l for l in out.get(hid, []) if l.startswith(("scan msgs=", "scan skipped", "ctx ", "sdef", "crash"))]
        toks = ml.split(" ; ")
        replay = {"history": hid, "ops": [o["m"] for o in ops], "harness_lines": dict(hcases)[hid], "impl": out.get(hid, [])[-40:],
                  "model": toks, "rules": rules_text(wt),
                  "how": "feed 'case x' + harness_lines + 'endcase' to the h_hist binary (lib/build.py harness('h_hist')); "
                         "inputs: 12/13 block lists without file_size, 14/16 scan_file, 15 scan_fd, 1 tests/data/tiny, 2 tiny-idata-*, 3 elf32_*, 4 text, 5 empty, 6 'a'*1000100, 7/8 block lists, 10 'q'*1100000, 11 small text with qq"}
        if len(toks) != len(ops) or any(t.startswith(("need", "exception", "unknown")) for t in toks):
            chk.violation("model-runner", "model runner failed on %s: %s" % (hid, ml[-300:]), replay, found_input=False)
            continue
        pos = 1     # res[0] is the ctx after creation
        settings = []
        ep_before = "-"
        dead = False
        after_proc = False
        scan_error_seen = False      # a scan failed inside match verification (too many fibers / matches): last_error_string is set
        for oi, (o, mt) in enumerate(zip(ops, toks)):
            evals += 1
            mtrace, mstate = mt.split(" @ ")
            ms = ctx_canon_model(mstate)
            if o["kind"] == "proc":
                if pos >= len(res) or not res[pos].startswith("scan msgs="):
                    chk.violation("crash", "%s: yr_scanner_scan_proc: %s" % (hid, res[pos:pos + 1]), replay)
                    dead = True
                    break
                nontriv.add(("proc", parse_scan(res[pos])[1], o["h"][1]))
                pos += 1
                after_proc = True
            if o["kind"] in ("scan", "resume"):
                if pos >= len(res) or res[pos].startswith("crash"):
                    key = "modname-crash" if wt is True else "crash"
                    chk.violation(key, "%s: the implementation crashes at operation %d (%s): %s%s" % (
                        hid, oi, o["m"], res[pos] if pos < len(res) else "no output",
                        "; an external variable named like a module (time) was removed from objects_table by the previous scan, as the model of the code predicts (objs=%s)" % ms["objs"] if wt is True else ""), replay)
                    dead = True
                    break
                if res[pos] == "scan skipped":      # a resumption of a scan that had already ended (timed out): nothing to do
                    pos += 1
                    if mtrace != "-":
                        chk.violation("corr-trace", "%s op %d: nothing to resume, but the model expects %s" % (hid, oi, mtrace), replay, found_input=False)
                    pos += 1                         # its ctx
                    continue
                msgs, rc = parse_scan(res[pos])
                pos += 1
                if rc not in (0, 26, 28, 61) and not any(t[:1] in "IDCMNF" for t in msgs.split(";") if t):
                    scan_error_seen = True
                want = "T%s:%d" % (intern.msgs(msgs), rc)
                is_dirty = False
                if o["kind"] == "scan":
                    # which oracle entry did the model use? (a lingering-data key means: the model cannot predict the trace)
                    pass
                if mtrace != want:
                    got_h = msgs
                    exp_h = intern.back(mtrace[1:].rsplit(":", 1)[0]) if mtrace.startswith("T") else mtrace
                    chk.violation("corr-trace", "%s op %d (%s): implementation reports [%s] rc=%d, model predicts [%s] rc=%s" % (
                        hid, oi, o["m"], got_h[:300], rc, exp_h[:300], mtrace.rsplit(":", 1)[-1]), replay, found_input=False)
                else:
                    agree += 1
                nontriv.add(("scan", o.get("inp"), rc, bool(o.get("script")), bool(o.get("plan")), ms["ep"] != "-"))
                if o["kind"] == "scan":
                    # the property itself: the same scan on a freshly created scanner with the same settings
                    fl = prologue(wt) + ["scanner 0", "hcb"] + settings + o["h"]
                    fresh_jobs.append((hid, oi, fl, res[pos - 1], o, replay, dict(ms, ep_before=ep_before), prologue(wt) + ["scanner 0", "hcb"] + settings + ["setep " + ep_before] + o["h"]))
            elif o["kind"] == "set":
                settings += o["h"]
                if o["m"].startswith("def:"):
                    m = re.search(r"rc=(-?\d+)", res[pos]) if pos < len(res) else None
                    rc = int(m.group(1)) if m else None
                    pos += 1
                    want = {"Rok": 0}.get(mtrace, int(mtrace[4:]) if mtrace.startswith("Rerr") else None)
                    if rc != want:
                        chk.violation("corr-define", "%s op %d (%s): rc=%s, model %s" % (hid, oi, o["m"], rc, mtrace), replay, found_input=False)
                    else:
                        agree += 1
                nontriv.add(("set", o["m"].split(":")[0], o["m"].split(":")[-1][:6]))
            if o["kind"] == "destroy":
                leak_expect[hid] = (int(mtrace[1:]), replay)
                continue
            # state fields after the operation
            if pos >= len(res) or not res[pos].startswith("ctx "):
                chk.violation("crash", "%s: no state dump after operation %d (%s): %s" % (hid, oi, o["m"], res[pos:pos + 2]), replay)
                dead = True
                break
            ic = ctx_canon_impl(parse_ctx(res[pos]), None)
            pos += 1
            diffs = [k for k in ("ep", "fs", "fl", "to", "nb", "le", "d", "objs") if ic[k] != ms[k] and not (k == "d" and ms["susp"] == "1")
                     # (the model does not follow the process scan itself: entry point, file size, pool and last error it leaves are not predicted)
                     and not (after_proc and k in ("ep", "fs", "le"))
                     # (the model sets last_error only for a scan stopped at the too-many-matches message; the code also
                     #  sets it when match verification itself fails, e.g. ERROR_TOO_MANY_RE_FIBERS: allowed once such a scan was seen)
                     and not (k == "le" and ic["le"] == "1" and scan_error_seen)]
            # the two pools (regexp fibers, fast-exec positions) hold what the hungriest scan so far needed of each: at least
            # the model's figure (the largest single-scan total), at most the largest per-pool need any single scan of this
            # rule set has on a fresh scanner -- never more with a longer history
            fmax, pmax = fam_max.get(family(wt), (0, 0))
            if ms["susp"] == "0" and not hid.startswith("abandon") and not after_proc and (
                    ic["pool"] < ms["pool"] or ic["fibers"] > fmax or ic["positions"] > pmax):
                diffs.append("pool")
                ic = dict(ic, pool="fibers %d positions %d (fresh-scanner maxima %d / %d)" % (ic["fibers"], ic["positions"], fmax, pmax))
            if not ic["pool_all_free"]:
                chk.violation("pool", "%s op %d: fibers not returned to the pool between scans" % (hid, oi), replay)
            ep_before = ic["ep"]
            if diffs:
                chk.violation("corr-state", "%s op %d (%s): YR_SCAN_CONTEXT fields differ from the model in %s: impl %s / model %s" % (
                    hid, oi, o["m"], diffs, {k: ic[k] for k in diffs}, {k: ms[k] for k in diffs}), replay, found_input=False)
            else:
                agree += 1

    # ---- every scan again on a fresh scanner with the same settings (model-independent statement of C10)
    fcases = [("f%d" % i, j[2] + ["sdestroy"] + EPILOGUE) for i, j in enumerate(fresh_jobs)]
    fout, _ = vlib.run_cases(h, fcases, timeout=1500)
    # ... and on a fresh scanner whose entry_point field is poked to the value the reused scanner held
    # (history_independent_partial: that field is the only channel)
    def first_scan(lines):
        sl = [l for l in lines if l.startswith("scan msgs=")]
        return sl[0] if sl else None
    differing = [i for i, j in enumerate(fresh_jobs) if first_scan(fout.get("f%d" % i, [])) not in (None, j[3])]
    gout, _ = vlib.run_cases(h, [("g%d" % i, fresh_jobs[i][7] + ["sdestroy"] + EPILOGUE) for i in differing], timeout=1500)
    fresh_same = 0
    for (fid, fl), (hid, oi, _, reused_line, o, replay, ms, _g) in zip(fcases, fresh_jobs):
        gl = [l for l in gout.get("g" + fid[1:], []) if l.startswith("scan msgs=")]
        sl = [l for l in fout.get(fid, []) if l.startswith("scan msgs=")]
        evals += 1
        if not sl:
            chk.violation("fresh-run", "fresh-scanner run failed for %s op %d: %s" % (hid, oi, fout.get(fid, [])[-2:]), replay, found_input=False)
            continue
        if sl[0] != reused_line:
            r2 = dict(replay, fresh_scanner_lines=fl, reused=reused_line, fresh=sl[0], op_index=oi)
            a, b = parse_scan(reused_line)[0].split(";"), parse_scan(sl[0])[0].split(";")
            diff = sorted(set(a) ^ set(b))
            if ms["ep_before"] != "-" and gl and gl[0] == reused_line:
                key = "entry-point-stale"
                what = ("%s: after the history %s the scan '%s' reports %s; a freshly created scanner with the same settings reports %s "
                        "(scanner->entry_point still holds %s from an earlier file: scanner.c sets it only when undefined and never resets it; "
                        "a fresh scanner with that value poked into entry_point reports the same as the reused one)" % (
                            hid, [x["m"] for x in ops_of(hists, hid)[:oi]], o["m"], [t for t in a if t.startswith(("M:default:ep", "N:default:ep"))],
                            [t for t in b if t.startswith(("M:default:ep", "N:default:ep"))], ms["ep_before"]))
            elif hid.startswith("abandon"):
                key = "abandoned-suspension-leaks-matches"
                what = "%s: a scan left at ERROR_BLOCK_NOT_READY and not resumed leaks its matches into the next scan: reused %s / fresh %s" % (hid, diff[:6], sl[0][:200])
            else:
                key = "history-dependent"
                what = "%s op %d (%s): reused scanner reports %s, fresh scanner %s" % (hid, oi, o["m"], reused_line[:300], sl[0][:300])
            chk.violation(key, what, r2)
        else:
            fresh_same += 1

    # ---- destroy after the prefix: nothing may stay allocated (ASan build)
    ha = hharness("asan")
    aout, aerr = vlib.run_cases(ha, [c for c in hcases if not c[0].startswith(NOASAN)], timeout=1500)
    leak_ok = 0
    for hid, ops, wt in hists:
        if hid not in leak_expect or hid.startswith(NOASAN):
            continue
        exp, replay = leak_expect[hid]
        lc = [l for l in aout.get(hid, []) if l.startswith("leakcheck")]
        evals += 1
        if not lc:
            if not any(l.startswith("crash") for l in out.get(hid, [])):
                chk.violation("asan-crash", "%s: ASan run did not finish: %s" % (hid, aout.get(hid, [])[-2:]), replay)
            continue
        leaked = int(lc[0].split()[1]) != 0
        if leaked and not exp:
            # whose leak is it?  run the history alone and read the LeakSanitizer stacks
            _, e1 = vlib.run_cases(ha, [(hid, dict(hcases)[hid])], timeout=600)
            stacks = [b for b in e1.split("\n\n") if "leak of" in b]
            if stacks and all("elf__load" in b for b in stacks):
                chk.violation("elf-load-leaks-per-block", "%s: import \"elf\" leaks one ELF structure (32 bytes) per additional memory block of a scan: "
                              "elf__load allocates it inside foreach_memory_block and overwrites module_object->data (modules/elf/elf.c ~1126); "
                              "not a scanner-state leak, the scanner model predicts none" % hid, dict(replay, lsan=e1[-1500:]))
                leak_ok += 1
                continue
        if leaked:
            kind = ("destroy-while-suspended-leaks-notebook" if hid.startswith("destroy-susp") else
                    "abandoned-suspension-leaks-notebook" if hid.startswith("abandon") else "leak")
            chk.violation(kind, "%s: memory still allocated after yr_scanner_destroy + yr_rules_destroy (LeakSanitizer); the model of the code %s" % (
                hid, "predicts %d lost block(s): matches_notebook is neither released by yr_scanner_destroy nor before being overwritten by a new scan" % exp
                if exp else "predicts none"), replay)
            if exp:
                leak_ok += 1
        elif exp:
            chk.add("lsan_missed_predicted_leak")    # LeakSanitizer scans conservatively (a stale pointer on the stack hides a block); the plain run's state dump (nb=1 before destroy) is the tie
        else:
            leak_ok += 1
    chk.note(evaluations=evals, distinct_nontrivial=len(nontriv), traces_validated_against_impl=agree, fresh_scanner_comparisons=len(fresh_jobs),
             fresh_scanner_same=fresh_same, histories=len(hists), asan_histories_agreeing_with_model=leak_ok,
             rule="random histories of 3-8 operations on one scanner over a rule set exposing entrypoint, filesize, pe/elf/math values, "
                  "string matches, console.log, externals, a private rule; inputs PE (tiny, tiny-idata), ELF, text, empty, 1000100 x 'a' "
                  "(too many matches), two block lists; an aimed family of many-string rule sets (7x10, 2x6, in thorough also 1x70, 9x8, "
                  "1x130 strings) in which the string with a chosen high global index (69, 20, 9, ...) reaches YR_MAX_STRING_MATCHES on "
                  "1.1 MB of 'q' and a small buffer containing it is scanned before and after; yr_scanner_scan_proc(getpid()) ending normally / by CALLBACK_ERROR / CALLBACK_ABORT / time-out, followed by scans of a PE DLL and an ELF shared object; a regexp family (greedy / ungreedy repeats and a "
                  "hex string with alternation, all with backward code) that reaches the match limit mid-run 6 times on one scanner, "
                  "then a regexp needing 800 of the 1024 pool fibers; callback abort/error scripts, 1 ns time-outs, not-ready blocks; hazard "
                  "histories (abandoned suspension, destroy while suspended, external named like a module). distinct = (input, rc, "
                  "scripted, suspended, stale entry point present) and setting kinds")
    for hid, ops, wt in hists[:3]:
        chk.sample({"history": hid, "ops": [o["m"] for o in ops]})
    chk.assumptions += ["what one scan reports (the oracle) is measured on fresh scanners, not modelled; module internals are oracles",
                        "errors of the block-scanning phase (1 ns time-out) strike in the first block",
                        "not-ready answers are never given for the first block (resuming there calls next(), a different question: C13)",
                        "the fiber pool cannot affect results as long as every fiber is back in the pool between scans (checked on every state dump)"]


def ops_of(hists, hid):
    for a, b, c in hists:
        if a == hid:
            return b
    return []
