"""C17: incomplete or damaged compiled-rule files are rejected, never half-loaded."""
import os, sys, json, re
import vlib, build, rulegen
from vlib import hx, unhx

PROPS = "Props/Properties_C17.v"


def gen_images(chk, hscan, n):
    cases = []
    descs = {}
    for i in range(n):
        r = chk.rng.fork()
        cmds, d = rulegen.rand_ruleset(r, nrules=r.range(1, 3) if i else 1)
        cases.append(("img%d" % i, cmds + ["getrules", "save"]))
        descs["img%d" % i] = d
    out, err = vlib.run_cases(hscan, cases, jobs=16)
    imgs = []
    for cid, lines in out.items():
        for l in lines:
            if l.startswith("save rc=0 image="):
                imgs.append((cid, unhx(l.split("image=")[1]), descs[cid]))
    return imgs


def run_sharded(binary, lines, jobs=16, timeout=1800):
    """run_lines over `jobs` processes (one command per line, one result block per command, order kept)"""
    from concurrent.futures import ThreadPoolExecutor
    n = len(lines)
    if n < 64:
        return vlib.run_lines(binary, lines, timeout=timeout)[0]
    # round-robin so that the cases of a large image are spread over all processes
    chunks = [lines[k::jobs] for k in range(jobs)]
    with ThreadPoolExecutor(max_workers=jobs) as ex:
        outs = list(ex.map(lambda c: vlib.run_lines(binary, c, timeout=timeout)[0] if c else [], chunks))
    if binary.endswith("h_load") or "h_load" in os.path.basename(binary):
        # one "case ... end" block per command
        blocks = []
        for o in outs:
            cur, bl = None, []
            for l in o:
                if l == "case":
                    cur = [l]
                elif cur is not None:
                    cur.append(l)
                    if l == "end":
                        bl.append(cur)
                        cur = None
            blocks.append(bl)
    else:
        blocks = [[[l] for l in o if l != ""] for o in outs]
    res = []
    for idx in range(n):
        k, j = idx % jobs, idx // jobs
        if j >= len(blocks[k]):
            raise RuntimeError("C17: shard %d of %s returned %d results for %d commands" % (k, os.path.basename(binary), len(blocks[k]), len(chunks[k])))
        res.extend(blocks[k][j])
    return res


def sections(img):
    nb = img[5]
    pos = 6 + 12 * nb
    bounds = [0, 4, 5, 6, pos]
    for i in range(nb):
        sz = int.from_bytes(img[6 + 12 * i + 8:6 + 12 * i + 12], "little")
        pos += sz
        bounds.append(pos)
    bounds.append(len(img))
    return sorted(set(bounds))


def corruptions(img):
    """single-field corruptions of header and buffer table: (label, bytes)"""
    nb = img[5]
    out = []
    for i in range(4):
        out.append(("magic[%d]^1" % i, img[:i] + bytes([img[i] ^ 1]) + img[i + 1:]))
    for v in (img[4] - 1, img[4] + 1, 0, 255):
        out.append(("version=%d" % (v & 255), img[:4] + bytes([v & 255]) + img[5:]))
    for v in list(range(0, 18)) + [32, 255]:
        if v != nb:
            out.append(("num_buffers=%d" % v, img[:5] + bytes([v]) + img[6:]))
    for i in range(nb):
        base = 6 + 12 * i
        off = int.from_bytes(img[base:base + 8], "little")
        sz = int.from_bytes(img[base + 8:base + 12], "little")
        for d in (1, -1, 8, -8, 12, 4096):
            if off + d >= 0:
                out.append(("buffer[%d].offset%+d" % (i, d), img[:base] + (off + d).to_bytes(8, "little") + img[base + 8:]))
        for v in {sz + 1, sz - 1, sz + 8, sz - 8, sz + 16, sz - 16, 0, sz + 40, sz - 40, sz * 2, 2 ** 31, 2 ** 32 - 1, 7, 8}:
            if 0 <= v < 2 ** 32 and v != sz:
                out.append(("buffer[%d].size=%d(was %d)" % (i, v, sz), img[:base + 8] + v.to_bytes(4, "little") + img[base + 12:]))
    return out


def run(chk):
    tier = chk.tier
    ok, log, st = vlib.proof_obligations(chk, PROPS)
    if not ok:
        chk.violation("proof", "proof obligations of C17 no longer check: " + log[-1500:], {"theorems": PROPS, "log": log[-4000:]},
                      found_input=False)
    hscan = build.harness("h_scan")
    hload = build.harness("h_load")
    model = vlib.build_model()
    nimg = 3 if tier == "quick" else 8
    imgs = gen_images(chk, hscan, nimg)
    chk.note(images=len(imgs))
    cases = []   # (label, bytes, kind, origin)
    for cid, img, d in imgs:
        cases.append((cid + ":full", img, "full", cid))
        b = sections(img)
        cuts = set()
        # exhaustive over the cut points of the first image (two in thorough) when it is small; otherwise boundaries + a sample + all of the
        # relocation section (the model loader re-parses every prefix: the cost is quadratic in the image size)
        if (tier == "quick" and cid != "img0") or (tier != "quick" and cid not in ("img0", "img1")) or len(img) > 9000:
            for x in b:
                for dd in (-9, -8, -7, -1, 0, 1, 7, 8, 9):
                    if 0 <= x + dd < len(img):
                        cuts.add(x + dd)
            big = len(img) > 9000          # the model loader's cost per case grows with the square of the number of relocations
            for _ in range(150 if big else 300 if tier == "quick" else 800):
                cuts.add(chk.rng.below(len(img)))
            # the relocation section is where a cut is hardest to see: all of it when it is short, else every entry boundary +-1 of a sample
            # of entries and a sample of interior points (the model loader is quadratic in the number of relocations)
            rel = range(b[-2], len(img))
            if len(rel) <= (1200 if tier == "quick" else 2400) and not big:
                cuts.update(rel)
            else:
                for _ in range(100 if big else 400 if tier == "quick" else 800):
                    e = b[-2] + 8 * chk.rng.below(len(rel) // 8 + 1)
                    for dd in (-1, 0, 1, 4):
                        if b[-2] <= e + dd < len(img):
                            cuts.add(e + dd)
                cuts.update(range(len(img) - 24, len(img)))
                cuts.update(range(b[-2], b[-2] + 24))
        else:
            cuts = set(range(len(img)))   # exhaustive
        for n in sorted(cuts):
            cases.append(("%s:cut%d" % (cid, n), img[:n], "cut", cid))
        for lab, bs in corruptions(img):
            cases.append(("%s:%s" % (cid, lab), bs, "corrupt", cid))
    # malformed stream: random bytes and random byte flips in the relocation section
    small = [x for x in imgs if len(x[1]) <= 9000] or imgs
    for i in range(50 if tier == "quick" else 400):
        cid, img, d = chk.rng.choice(small)
        if chk.rng.chance(1, 3):
            cases.append(("rand%d" % i, b"YARA" + bytes([img[4]]) + chk.rng.bytes(chk.rng.below(80)), "random", cid))
        else:
            b = bytearray(img)
            lo = sections(img)[-2]
            for _ in range(chk.rng.range(1, 3)):
                pos = chk.rng.range(lo, len(b) - 1) if len(b) > lo and chk.rng.chance(2, 3) else chk.rng.below(len(b))
                b[pos] = chk.rng.below(256)
            cases.append(("flip%d" % i, bytes(b), "flip", cid))
    # implementation
    lines = run_sharded(hload, ["load " + hx(bs) for _, bs, _, _ in cases])
    impl = []
    cur = None
    for l in lines:
        if l == "case":
            cur = {}
        elif l == "end":
            impl.append(cur)
            cur = None
        elif cur is not None:
            if l.startswith("rc="):
                cur["rc"] = int(l[3:])
            elif l.startswith("resave_rc="):
                cur["resave"] = l.split("resave=")[1]
            elif l.startswith("smoke="):
                cur["smoke"] = int(l[6:])
            elif l.startswith("filerc="):
                cur["filerc"] = l
            elif l.startswith("crash"):
                cur["crash"] = l
    # model
    mlines = run_sharded(model, ["load current " + hx(bs) for _, bs, _, _ in cases])
    K = vlib.consts()
    RC = {"invalid_file": K["ERROR_INVALID_FILE"], "unsupported_version": K["ERROR_UNSUPPORTED_FILE_VERSION"],
          "corrupt_file": K["ERROR_CORRUPT_FILE"], "no_memory": K["ERROR_INSUFFICIENT_MEMORY"]}
    kinds = {}
    nontriv = set()
    agree = 0
    mlines = [l for l in mlines if l != ""]
    if len(impl) != len(cases) or len(mlines) != len(cases):
        raise RuntimeError("C17: %d cases but %d implementation results and %d model results" % (len(cases), len(impl), len(mlines)))
    for (label, bs, kind, origin), im, mo in zip(cases, impl, mlines):
        kinds[kind] = kinds.get(kind, 0) + 1
        im = im or {}
        crashed = "crash" in im
        accepted = im.get("rc") == 0
        replay = {"input_hex": hx(bs), "label": label, "impl": im, "model": mo,
                  "how": "echo 'load <input_hex>' | h_load   (bin/check C17 --replay <this file>)"}
        # --- the property itself, on the implementation
        if kind == "cut" and (accepted or crashed):
            chk.violation("truncated-accepted" if accepted else "truncated-crash",
                          "truncated file (%s, %d of %d bytes) %s" % (label, len(bs), len([i for c, i, _ in imgs if c == origin][0]),
                                                                       "loads successfully" if accepted else "crashes the loader: " + im["crash"]), replay)
        elif kind == "corrupt" and crashed:
            chk.violation("corrupt-crash:" + label.split(":")[1].split("=")[0].split("+")[0].split("-")[0].rstrip("0123456789[]."),
                          "corrupted header/table (%s) crashes: %s" % (label, im["crash"]), replay)
        elif kind == "corrupt" and accepted and im.get("resave") != hx([i for c, i, _ in imgs if c == origin][0]):
            # accepted with a different content than the original: half-loaded
            if not ("offset" in label and im.get("resave") is not None):
                chk.violation("corrupt-accepted:" + label.split(":")[1].split("=")[0],
                              "corrupted header/table (%s) loads successfully with different content" % label, replay)
        elif kind in ("random", "flip") and crashed:
            chk.violation("malformed-crash", "malformed file (%s) crashes: %s" % (label, im["crash"]), replay)
        # the path entry point yr_rules_load must give the stream entry point's verdict and keep nothing: no descriptor stays open
        fr = im.get("filerc", "")
        mfr = re.match(r"filerc=(-?\d+) fds=(\d+)/(\d+)", fr)
        if mfr and not crashed:
            if int(mfr.group(1)) != im.get("rc"):
                chk.violation("file-entry-rc", "yr_rules_load on a file with these bytes returns %s, yr_rules_load_stream %s (%s)" % (mfr.group(1), im.get("rc"), label), replay)
            elif mfr.group(2) != mfr.group(3):
                chk.violation("file-entry-descriptor", "yr_rules_load (%s, rc=%s) leaves %d descriptor(s) open: a rejected file must leave nothing behind"
                              % (label, mfr.group(1), int(mfr.group(3)) - int(mfr.group(2))), replay)
            else:
                chk.add("file_entry_agrees")
        # theorem accepted_file_is_saved_image, on the implementation: an accepted file is the written image of what was loaded (+ unread tail)
        if accepted and not crashed and im.get("resave") is not None and not mo.startswith("bad") and not hx(bs).startswith(im["resave"]):
            chk.violation("accepted-not-saved-image", "file accepted (%s) but it is not the image the saver writes for the loaded rules (+ unread tail): "
                          "header/table/sections of the input differ from the re-saved bytes" % label, replay)
        if accepted and im.get("smoke", 0) not in (0,) and not crashed:
            chk.violation("smoke", "loaded rules fail a scan (%s): rc=%s" % (label, im.get("smoke")), replay)
        # --- correspondence model <-> implementation
        if mo.startswith("ok"):
            m_res = mo.split("resave=")[1]
            if not accepted or im.get("resave") != m_res:
                chk.violation("corr", "model accepts but implementation differs on %s: impl=%s" % (label, str(im)[:200]), replay,
                              found_input=False)
            else:
                agree += 1
                if kind == "full" and "wf=true" not in mo:
                    chk.violation("wf", "image produced by the compiler is not wf_arena (%s)" % label, replay, found_input=False)
        elif mo.startswith("err"):
            want = RC[mo.split()[1]]
            if crashed or im.get("rc") != want:
                chk.violation("corr", "model says error %s but implementation differs on %s: %s" % (mo, label, str(im)[:200]), replay,
                              found_input=False)
            else:
                agree += 1
        elif mo.startswith("bad"):
            # model: the C code misbehaves here (assert / out of bounds / address dependent)
            if mo.split()[1] == "addrdep":
                chk.add("model_undetermined")    # a slot relocated twice: outcome depends on addresses; property checked on impl above
            elif kind in ("cut", "corrupt"):
                chk.violation("model-bad:" + mo.split()[1] + ":" + kind, "model predicts %s for %s; implementation: %s" % (mo, label, str(im)[:200]), replay)
            agree += 1
        else:
            chk.violation("corr", "model runner failed on %s: %s" % (label, mo), replay, found_input=False)
        nontriv.add((kind, " ".join(mo.split()[:2]) if not mo.startswith("ok") else "ok", len(bs) % 8 if kind == "cut" else label.split(":")[-1][:12]))
    # the command-line consumer of the loader: `yara -C <file> <target>` must refuse every cut file with an error message and exit status 1,
    # and accept the complete one
    import subprocess, tempfile
    try:
        yara_cli = build.harness("h_c18_yara", link_cli=["yara", "args", "common", "threading"])
    except Exception as e:      # the CLI harness belongs to C18; without it this part is skipped and says so
        yara_cli = None
        chk.note(cli_part="skipped: %s" % str(e)[:100])
    if yara_cli:
        cid0, img0, _ = imgs[0]
        b0 = sections(img0)
        cutpoints = sorted(set([0, 1, 4, 5, 6, 7, 17, 18, len(img0) - 1, len(img0) - 8, len(img0) - 9] + [x + dd for x in b0 for dd in (-1, 0, 1) if 0 <= x + dd < len(img0)]
                               + [chk.rng.below(len(img0)) for _ in range(10 if tier == "quick" else 60)]))
        cli_ok = 0
        with tempfile.TemporaryDirectory(dir="/dev/shm") as td:
            tgt = os.path.join(td, "target.bin")
            open(tgt, "wb").write(b"hello world abc 1234567890 abcabc")
            for n in cutpoints + [len(img0)]:
                fp = os.path.join(td, "r.yarc")
                open(fp, "wb").write(img0[:n])
                try:
                    p_ = subprocess.run([yara_cli, "-C", fp, tgt], stdout=subprocess.PIPE, stderr=subprocess.PIPE, timeout=30)
                    rc_, err_ = p_.returncode, p_.stderr.decode("latin-1")
                except subprocess.TimeoutExpired:
                    rc_, err_ = "timeout", ""
                rp = {"input_hex": hx(img0[:n]), "how": "write the bytes to r.yarc; yara -C r.yarc <any file>", "exit_status": rc_, "stderr": err_[:300]}
                if n < len(img0) and (rc_ != 1 or not err_.strip()):
                    chk.violation("cli-truncated", "`yara -C` on a compiled-rules file cut at %d of %d bytes: exit status %s, stderr %r (expected an error message and status 1)"
                                  % (n, len(img0), rc_, err_[:120]), rp)
                    break
                if n == len(img0) and rc_ != 0:
                    chk.violation("cli-complete", "`yara -C` refuses the complete compiled-rules file: exit status %s, stderr %r" % (rc_, err_[:120]), rp)
                    break
                cli_ok += 1
        chk.note(cli_files=cli_ok)
    chk.note(evaluations=len(cases), distinct_nontrivial=len(nontriv), input_kinds=kinds, traces_validated_against_impl=agree,
             exhaustive=False,
             rule="images compiled from generated rule sets; every prefix (exhaustive for img0 / for two images in thorough, sampled around section boundaries and all of the relocation section for the others), "
                  "section boundaries +-9, all of the relocation section; single-field corruptions of magic, version, "
                  "num_buffers, every buffer offset/size; random and byte-flipped files. distinct = (kind, model verdict, "
                  "cut position mod 8 or corrupted field)")
    for label, bs, kind, origin in cases[:2] + cases[len(cases) // 2:len(cases) // 2 + 2]:
        chk.sample({"label": label, "len": len(bs), "kind": kind})
    chk.sample({"rules_of_img0": imgs[0][2]["sources"]})
    chk.assumptions += ["malloc succeeds; streams deliver fread semantics", "LBad outcomes of the model (assert/oob/address-dependent) are compared only as 'implementation may do anything'"]
