"""C12: shortcuts and compile-time evaluation never change a verdict."""
import os, sys, json, re
import vlib, build, rulegen, image
from vlib import hx, unhx

PROPS = "Props/Properties_C12.v"
MIN, MAX = -2 ** 63, 2 ** 63 - 1
OPS = {"add": "+", "sub": "-", "mul": "*", "div": "\\", "mod": "%", "bxor": "^", "band": "&", "bor": "|",
       "shl": "<<", "shr": ">>"}


def lit(v):
    if v == MIN:
        return "(-9223372036854775807 - 1)"
    return "(%d)" % v if v < 0 else "%d" % v


def operand_pairs(rng, n):
    B = [0, 1, -1, 2, 3, 7, 8, 62, 63, 64, 65, -63, -64, 255, 256, 2 ** 31, 2 ** 32, MAX, MAX - 1, MIN, MIN + 1,
         MAX // 2, MAX // 2 + 1, -(2 ** 62), 3037000499, 3037000500, -1483400188077313]
    out = [(a, b) for a in (0, 1, -1, 8, MAX, MIN, MIN + 1) for b in (0, 1, -1, 2, 63, 64, MAX, MIN)]
    while len(out) < n:
        k = rng.below(3)
        a = rng.choice(B) if k < 2 else rng.range(MIN, MAX)
        b = rng.choice(B) if k != 1 else rng.range(-70, 70)
        out.append((a, b))
    return out


def model_fold(model, cases):
    lines, _ = vlib.run_lines(model, ["fold %s %d %d" % c for c in cases])
    return lines


def run(chk):
    tier = chk.tier
    ok, log, st = vlib.proof_obligations(chk, PROPS)
    if not ok:
        err = [v for v in st.values() if v.startswith("error")]
        chk.violation("proof", "C12 obligations over the regenerated fold/VM model no longer check: " + (err[0] if err else log[-1200:]),
                      {"theorems": PROPS, "log": log[-4000:], "generated": st}, found_input=False)
    hscan = build.harness("h_scan")
    model = vlib.build_model()
    K = vlib.consts()
    npairs = 40 if tier == "quick" else 400
    cases = []
    for op in OPS:
        for a, b in operand_pairs(chk.rng.fork(), npairs):
            cases.append((op, a, b))
    mres = model_fold(model, cases)
    hc = []
    for i, (op, a, b) in enumerate(cases):
        expr = "%s %s %s" % (lit(a), OPS[op], lit(b))
        src_c = 'rule c { strings: $a = "zq" condition: $a at (%s) }' % expr
        hc.append(("c%d" % i, ["newcompiler", "add " + hx(src_c.encode()), "getrules", "save"]))
        src_r = "rule r1 { condition: (ea %s eb) == (ec) }\nrule r2 { condition: defined (ea %s eb) }" % (OPS[op], OPS[op])
        hc.append(("r%d" % i, ["newcompiler", "defi ea %d" % a, "defi eb %d" % b, "defi ec 0", "add " + hx(src_r.encode()),
                               "getrules", "scanner 0", "RUNTIME"]))
    # the runtime expectation needs the model's vm value: fill in now
    agree = 0
    nontriv = set()
    final = []
    for i, (op, a, b) in enumerate(cases):
        m = mres[i].split()   # fold=<Folded v|Reject c|FTrap|FNoValue> vm=<v|undef|trap> spec=<v|undef>
        d = dict(x.split("=", 1) for x in m)
        cid, cmds = hc[2 * i]
        final.append((cid, cmds))
        cid, cmds = hc[2 * i + 1]
        vmv = d["vm"]
        cmds = cmds[:-1] + (["sdefi ec %s" % vmv] if vmv not in ("undef", "trap") else []) + ["scan " + hx(b"x")]
        final.append((cid, cmds))
    out, err = vlib.run_cases(hscan, final, timeout=1800, jobs=16)
    for i, (op, a, b) in enumerate(cases):
        d = dict(x.split("=", 1) for x in mres[i].split())
        expr = "%s %s %s" % (lit(a), OPS[op], lit(b))
        oc = out.get("c%d" % i, [])
        orr = out.get("r%d" % i, [])
        replay = {"op": op, "a": a, "b": b, "expr": expr, "model": mres[i], "impl_const": oc[:6], "impl_runtime": orr[:8]}
        nontriv.add((op, d["fold"].split(":")[0], d["vm"] == "undef"))
        # ---- compile-time side
        crashed = any(l.startswith("crash") for l in oc)
        errs = [l for l in oc if l.startswith("add errors=")]
        nerr = int(errs[0].split("=")[1]) if errs else -1
        f = d["fold"]
        okc = True
        if crashed:
            chk.violation("fold-crash:" + op, "compiling the constant expression %s crashes the compiler: %s" % (expr, oc[-2:]), replay)
            continue
        if f.startswith("Reject"):
            okc = nerr > 0
        elif f.startswith("Folded"):
            v = int(f.split(":")[1])
            img = [l for l in oc if l.startswith("save rc=0 image=")]
            if nerr != 0 or not img:
                okc = False
            else:
                s = image.Image(unhx(img[0].split("image=")[1])).strings()[0]
                fixed = s["flags"] & K["STRING_FLAGS_FIXED_OFFSET"]
                if v == K["YR_UNDEFINED"]:
                    okc = not fixed or s["fixed_offset"] == v
                else:
                    okc = bool(fixed) and s["fixed_offset"] == v
                replay["impl_fixed_offset"] = s["fixed_offset"]
        else:
            okc = False   # FTrap / FNoValue predicted: the model itself says the compiler misbehaves
            chk.violation("fold-trap:" + op, "model of grammar.y predicts %s for %s" % (f, expr), replay)
        if not okc:
            # which side is right? the spec decides: compile-time value must equal the run-time value
            sp = d["spec"]
            chk.violation("fold:" + op, "compile-time evaluation of %s: implementation %s, generated model says %s, documented value %s"
                          % (expr, replay.get("impl_fixed_offset", "errors=%d" % nerr), f, sp), replay,
                          found_input=("impl_fixed_offset" in replay and sp not in ("undef",) and str(replay["impl_fixed_offset"]) != sp))
        elif f.startswith("Folded") and d["spec"] != "undef" and f.split(":")[1] != d["spec"] and f.split(":")[1] != str(K["YR_UNDEFINED"]):
            chk.violation("fold:" + op, "constant expression %s is folded to %s at compile time but its documented (and run-time) value is %s"
                          % (expr, f.split(":")[1], d["spec"]), replay)
        else:
            agree += 1
        # ---- run-time side: (ea op eb) == vm value, defined iff vm value defined
        sc = [l for l in orr if l.startswith("scan msgs=")]
        if not sc:
            chk.violation("vm:" + op, "run-time evaluation of ea %s eb with ea=%d eb=%d did not run: %s" % (OPS[op], a, b, orr[-3:]), replay)
            continue
        m1 = "M:default:r1" in sc[0]
        m2 = "M:default:r2" in sc[0]
        if d["vm"] == "undef":
            good = (not m1) and (not m2)
        elif d["vm"] == "trap":
            good = False
        else:
            good = m1 and m2
        if d["vm"] != ("undef" if d["spec"] == "undef" else d["spec"]):
            good = False
        UNDEF = -1483400188077313          # YR_UNDEFINED = 0xFFFABADAFABADAFF read as int64
        if not good and UNDEF in (a, b) and (not m1) and (not m2):
            chk.violation("undefined-sentinel-value", "an integer external holding the value 0xFFFABADAFABADAFF (-1483400188077313) is treated as undefined: "
                          "%d %s %d is undefined at run time" % (a, OPS[op], b), replay)
            continue
        if not good:
            chk.violation("vm:" + op, "run-time value of %d %s %d: implementation eq=%s defined=%s, generated VM model %s, documented %s"
                          % (a, OPS[op], b, m1, m2, d["vm"], d["spec"]), replay)
        else:
            agree += 1
    chk.note(evaluations=2 * len(cases), distinct_nontrivial=len(nontriv), traces_validated_against_impl=agree,
             rule="per operator: boundary pairs (0, +-1, 63, 64, 65, INT64_MIN/MAX, sqrt(2^63), the undefined pattern) and random pairs; "
                  "constant form observed through the fixed offset stored in the saved image, run-time form through "
                  "externals; distinct = (operator, fold outcome class, vm undefined?)")
    chk.sample({"case": cases[0], "model": mres[0]})
    chk.sample({"case": cases[len(cases) // 2], "model": mres[len(cases) // 2]})
    twins(chk, hscan, K)
    atomq_part(chk, hscan, K)


def twins(chk, hscan, K):
    """metamorphic twins: fast mode, forced evaluation, external redefinition (rules and scanner level)."""
    n = 30 if chk.tier == "quick" else 300
    cases = []
    meta = {}
    for i in range(n):
        r = chk.rng.fork()
        text = rulegen.rand_text(r, 3, 8).replace(b"\0", b"a")
        off = r.below(12)
        other = r.below(12)
        buf = bytearray(r.bytes(40))
        buf[off:off + len(text)] = text
        o2 = off + len(text) + r.range(0, 3)
        if r.chance(1, 4):
            o2 = 0 if off >= 5 else o2
        buf[o2:o2 + 5] = b"S1S1#"
        buf = bytes(buf)
        n_of = r.below(3)
        src = ('rule at_ext { strings: $a = "%s" condition: $a at ext }\n'
               'rule in_ext { strings: $a = "%s" condition: $a in (ext..ext+2) }\n'
               'rule of_ext { strings: $a = "%s" $b = "qqqqzz" condition: nof of them }\n'
               'rule ar_ext { condition: ext + 1 > %d }\n'
               'rule forced { strings: $a = "%s" condition: $a at %d or filesize < 0 }\n'
               'rule plain { strings: $a = "%s" condition: $a at %d }\n'
               # the required-strings analysis: none of these strings is in the data; a quantifier that is not a constant may be 0
               'rule of_none { strings: $x = "zzqqzzqq1" $y = "qqzzqqzz2" condition: nof of them }\n'
               'rule of_none_c { strings: $x = "zzqqzzqq1" $y = "qqzzqqzz2" condition: %d of them }\n'
               'rule of_none_e { strings: $x = "zzqqzzqq1" $y = "qqzzqqzz2" condition: (filesize - filesize + %d) of them }\n'
               'rule ofin_none { strings: $x = "zzqqzzqq1" $y = "qqzzqqzz2" condition: nof of them in (0..9) }\n'
               'rule ofin_none_c { strings: $x = "zzqqzzqq1" $y = "qqzzqqzz2" condition: %d of them in (0..9) }\n'
               'rule ofat_none { strings: $x = "zzqqzzqq1" $y = "qqzzqqzz2" condition: nof of them at 0 }\n'
               'rule ofat_none_c { strings: $x = "zzqqzzqq1" $y = "qqzzqqzz2" condition: %d of them at 0 }\n') % (
            rulegen.yara_escape(text), rulegen.yara_escape(text), rulegen.yara_escape(text), other,
            rulegen.yara_escape(text), off, rulegen.yara_escape(text), off, n_of, n_of, n_of, n_of)
        # a literal must be the number it spells, whatever instruction the compiler picks to push it: literal == external holding the same value
        bigs = [2 ** 31 - 1, 2 ** 31, 2 ** 32 - 1, 2 ** 32, 2 ** 32 + 1, 2 ** 33 + 5, 2 ** 36 - 1, 2 ** 36, 2 ** 40 + 3, 2 ** 62, 2 ** 63 - 1, 255, 256, 65535, 65536]
        bv = r.choice(bigs) + r.choice([0, 0, 1, -1]) if r.chance(3, 4) else r.below(2 ** 40)
        bv = max(0, min(bv, 2 ** 63 - 1))
        src += ('rule big_eq { condition: big == %d }\nrule big_le { condition: big <= %d and %d <= big }\n'
                'rule big_shr { condition: (%d >> 32) == (big >> 32) and (%d & 0xFFFFFFFF) == (big & 0xFFFFFFFF) }\n') % (bv, bv, bv, bv, bv)
        # a string pinned with `at <constant>` and, later in the same condition, the anonymous `$ at <other offset>` of a loop over a set that
        # does not contain it: literal offsets vs externals vs swapped operands vs forced evaluation (all hold on this buffer)
        et = rulegen.yara_escape(text)
        src += ('rule fixat_lit { strings: $hdr = "%s" $s1 = "S1S1#" $s2 = "nope77" condition: $hdr at %d and for any of ($s*) : ($ at %d) }\n'
                'rule fixat_ext { strings: $hdr = "%s" $s1 = "S1S1#" $s2 = "nope77" condition: $hdr at ext and for any of ($s*) : ($ at ext2) }\n'
                'rule fixat_swap { strings: $hdr = "%s" $s1 = "S1S1#" $s2 = "nope77" condition: for any of ($s*) : ($ at %d) and $hdr at %d }\n'
                'rule fixat_forced { strings: $hdr = "%s" $s1 = "S1S1#" $s2 = "nope77" condition: ($hdr at %d and for any of ($s*) : ($ at %d)) or filesize < 0 }\n'
                'rule fixat_expr { strings: $hdr = "%s" $s1 = "S1S1#" $s2 = "nope77" condition: $hdr at %d and for any of ($s*) : ($ at (filesize - filesize + %d)) }\n'
                ) % (et, off, o2, et, et, o2, off, et, off, o2, et, off, o2)
        # size suffixes: a literal spelled with KB / MB is the number it spells, up to the largest value that fits (LLONG_MAX / 1024,
        # LLONG_MAX / 1048576) -- equal to the plain literal and to the product written out
        kmax, mmax = (2 ** 63 - 1) // 1024, (2 ** 63 - 1) // 1048576
        kv = r.choice([kmax, kmax - 1, 1, 0, 4194303, 4194304, 2 ** 31, r.below(kmax)])
        mv = r.choice([mmax, mmax - 1, 1, 0, 4095, 4096, 2 ** 31, r.below(mmax)])
        src += ('rule kb_eq { condition: %dKB == %d and %dKB == %d * 1024 and bigk < %dKB + 1 }\n'
                'rule mb_eq { condition: %dMB == %d and %dMB == %d * 1048576 and bigm < %dMB + 1 }\n'
                ) % (kv, kv * 1024, kv, kv, kv, mv, mv * 1048576, mv, mv, mv) if (kv * 1024 + 1 < 2 ** 63 and mv * 1048576 + 1 < 2 ** 63) else (
                'rule kb_eq { condition: %dKB == %d and %dKB == %d * 1024 and bigk <= %dKB }\n'
                'rule mb_eq { condition: %dMB == %d and %dMB == %d * 1048576 and bigm <= %dMB }\n'
                ) % (kv, kv * 1024, kv, kv, kv, mv, mv * 1048576, mv, mv, mv)
        s = hx(src.encode())
        # A: compiled with the final values
        cases.append(("A%d" % i, ["newcompiler", "defi ext %d" % off, "defi nof %d" % n_of, "defi big %d" % bv, "defi ext2 %d" % o2, "defi bigk %d" % (kv * 1024), "defi bigm %d" % (mv * 1048576), "add " + s, "getrules",
                                  "scanner 0", "scan " + hx(buf), "sflags %d" % K["SCAN_FLAGS_FAST_MODE"], "scan " + hx(buf)]))
        # B: compiled with other values, redefined at rules level
        cases.append(("B%d" % i, ["newcompiler", "defi ext %d" % other, "defi nof %d" % ((n_of + 1) % 3), "defi big 7", "defi ext2 %d" % ((o2 + 1) % 30), "defi bigk 3", "defi bigm 5", "add " + s, "getrules",
                                  "rdefi bigk %d" % (kv * 1024), "rdefi bigm %d" % (mv * 1048576),
                                  "rdefi ext2 %d" % o2, "rdefi ext %d" % off, "rdefi nof %d" % n_of, "rdefi big %d" % bv, "scanner 0", "scan " + hx(buf)]))
        # C: redefined at scanner level, after a save/load round trip
        cases.append(("C%d" % i, ["newcompiler", "defi ext %d" % other, "defi nof %d" % ((n_of + 2) % 3), "defi big 9", "defi ext2 %d" % ((o2 + 2) % 30), "defi bigk 4", "defi bigm 6", "add " + s, "getrules",
                                  "reload", "use loaded", "scanner 0", "sdefi bigk %d" % (kv * 1024), "sdefi bigm %d" % (mv * 1048576), "sdefi ext2 %d" % o2, "sdefi ext %d" % off, "sdefi nof %d" % n_of, "sdefi big %d" % bv, "scan " + hx(buf)]))
        meta[i] = {"text": text.hex(), "off": off, "other": other, "nof": n_of, "buf": buf.hex(), "rules": src, "big": bv, "o2": o2, "kv": kv, "mv": mv}
    out, err = vlib.run_cases(hscan, cases, timeout=1800, jobs=16)

    def verdicts(line):
        return sorted(re.findall(r"M:default:(\w+)", line))
    ok = 0
    for i in range(n):
        a = [l for l in out.get("A%d" % i, []) if l.startswith("scan msgs=")]
        b = [l for l in out.get("B%d" % i, []) if l.startswith("scan msgs=")]
        c = [l for l in out.get("C%d" % i, []) if l.startswith("scan msgs=")]
        rep = dict(meta[i], A=a, B=b, C=c)
        if len(a) != 2 or len(b) != 1 or len(c) != 1:
            chk.violation("twin-run", "twin scenario did not run: %s" % str(out.get("A%d" % i))[:300], rep, found_input=False)
            continue
        va = verdicts(a[0])
        if verdicts(a[1]) != va:
            chk.violation("fast-mode", "fast mode changes verdicts: %s vs %s" % (va, verdicts(a[1])), rep)
        elif verdicts(b[0]) != va:
            chk.violation("rules-redefine", "external redefined at rules level is not honoured: compiled-with-value %s vs redefined %s"
                          % (va, verdicts(b[0])), rep)
        elif verdicts(c[0]) != va:
            chk.violation("scanner-redefine", "external redefined at scanner level is not honoured: %s vs %s" % (va, verdicts(c[0])), rep)
        elif ("forced" in va) != ("plain" in va):
            chk.violation("forced-eval", "forcing evaluation changes the verdict: %s" % va, rep)
        elif not all(x in va for x in ("big_eq", "big_le", "big_shr")):
            chk.violation("literal-value", "a literal does not equal an external holding the same value %d: %s" % (meta[i]["big"], [x for x in va if x.startswith("big")]), rep)
        elif ("ofin_none" in va) != ("ofin_none_c" in va) or ("ofat_none" in va) != ("ofat_none_c" in va):
            chk.violation("required-strings", "`N of them in (..)` / `N of them at ..` with N = %d given as an external vs a literal, none of the strings in the "
                          "data: verdicts differ: %s" % (meta[i]["nof"], [x for x in va if x.startswith("of")]), rep)
        elif len(set(x in va for x in ("of_none", "of_none_c", "of_none_e"))) != 1:
            chk.violation("required-strings", "`N of them` with N = %d given as an external / an expression / a literal, none of the strings in the data: "
                          "verdicts differ: %s" % (meta[i]["nof"], [x for x in ("of_none", "of_none_c", "of_none_e") if x in va]), rep)
        elif "kb_eq" not in va or "mb_eq" not in va:
            chk.violation("size-suffix-literal", "a literal with a KB / MB suffix is not the number it spells (%dKB, %dMB): rules matching %s; compile output %s"
                          % (meta[i]["kv"], meta[i]["mv"], [x for x in va if x.endswith("_eq")], [l[:160] for l in out.get("A%d" % i, []) if l.startswith("cb level=e")][:2]), rep)
        elif not all(x in va for x in ("fixat_lit", "fixat_ext", "fixat_swap", "fixat_forced", "fixat_expr")):
            chk.violation("fixed-offset-overwritten", "`$hdr at %d and for any of ($s*) : ($ at %d)` holds on the data, but of its five spellings (literal, externals, "
                          "swapped operands, forced evaluation, expression offset) only %s match" % (meta[i]["off"], meta[i]["o2"], [x for x in va if x.startswith("fixat")]), rep)
        elif "at_ext" not in va or "plain" not in va:
            chk.violation("twin-expect", "planted string at offset ext not reported: %s" % va, rep)
        else:
            ok += 1
    chk.add("evaluations", 3 * n)
    chk.add("traces_validated_against_impl", ok)
    chk.note(twin_scenarios=n)
    chk.sample({"twin": meta[0]})
    fastmode_trees(chk, hscan, K)


def fastmode_trees(chk, hscan, K):
    """fast-scan mode must not change any verdict: random condition trees (all string operators incl. `N of set in/at`,
    counts, offsets, loops) over buffers with SEVERAL occurrences of every string, scanned with and without the flag"""
    import condgen
    n = 150 if chk.tier == "quick" else 2500
    cases, meta = [], {}
    for i in range(n):
        r = chk.rng.fork()
        strs = [bytes(r.choice(b"abcxyz019") for _ in range(r.range(1, 3))) for _ in range(condgen.NSTR)]
        names = ["r0", "r1"]
        trees = [condgen.Gen(r.fork(), k, 3).bexpr(r.range(1, 4)) for k in range(2)]
        decl = " ".join('$%s = "%s"' % (condgen.sid(j), strs[j].decode()) for j in range(condgen.NSTR))
        src = "".join("rule %s { strings: %s condition: %s }\n" % (names[k], decl, condgen.Printer(names).raw(t)) for k, t in enumerate(trees))
        # aimed at the SINGLE_MATCH shortcut: strings referenced ONLY through one operator, whose first occurrence
        # lies outside the tested range / offset and a later one inside
        lo = r.range(4, 10)
        aimed = r.choice(["any of them in (%d..%d)" % (lo, lo + 6), "1 of ($_s0,$_s2) in (%d..%d)" % (lo, lo + 8),
                          "any of them at %d" % lo, "$_s0 in (%d..%d)" % (lo, lo + 6), "$_s01 at %d" % lo,
                          "for any of them : ( $ in (%d..%d) )" % (lo, lo + 6), "#_s0 == 2", "@_s01[2] == %d" % lo,
                          "all of them in (%d..%d)" % (lo, lo + 12)])
        src += "rule aimed { strings: %s condition: %s }\n" % (decl, aimed)
        # a string split into chained pieces, used only as `$c`: a head (or middle piece) that is never completed precedes the real occurrence
        gap = r.choice([201, 250, 300])
        src += "rule chain2 { strings: $c = { 51 52 53 54 [0-%d] 55 56 57 58 } condition: $c }\n" % gap
        src += "rule chain3 { strings: $c = { 51 52 53 54 [0-%d] 61 62 63 64 [0-%d] 55 56 57 58 } condition: $c }\n" % (gap, gap)
        size = r.choice([12, 24, 40])
        buf = bytearray(r.choice(b" .-") for _ in range(size))
        for s_ in strs:
            buf[0:len(s_)] = s_ if r.chance(1, 2) else buf[0:len(s_)]       # an early occurrence before the range
            if lo + len(s_) <= size and r.chance(2, 3):
                buf[lo:lo + len(s_)] = s_
        for s_ in strs:
            for _ in range(r.range(0, 4)):        # several occurrences: the first one is often outside a tested range
                p_ = r.below(size - len(s_) + 1)
                buf[p_:p_ + len(s_)] = s_
        if r.chance(1, 2):
            decoy = b"QRST" + (b"abcd" if r.chance(1, 2) else b"")
            buf += b"~" + decoy + b"." * (gap + r.choice([5, 200])) + b"QRST" + b"." * r.below(9) + b"abcd" + b"." * r.below(9) + b"UVWX" + b"~"
        buf = bytes(buf)
        cases.append(("f%d" % i, ["newcompiler"] + ["defi ext%d %d" % (j, r.range(-2, 12)) for j in range(3)] +
                      ["add " + hx(src.encode()), "getrules", "scanner 0", "scan " + hx(buf),
                       "sflags %d" % K["SCAN_FLAGS_FAST_MODE"], "scan " + hx(buf)]))
        meta["f%d" % i] = (src, buf)
    out, err = vlib.run_cases(hscan, cases, timeout=3000, args=["60"], jobs=16)
    okn = 0
    for cid, _ in cases:
        sc = [l for l in out.get(cid, []) if l.startswith("scan msgs=")]
        if len(sc) != 2:
            continue          # rejected at compile time
        v0 = sorted(re.findall(r"M:default:(\w+)", sc[0]))
        v1 = sorted(re.findall(r"M:default:(\w+)", sc[1]))
        if v0 != v1:
            src, buf = meta[cid]
            chk.violation("fast-mode", "fast mode changes verdicts: normal %s, fast %s" % (v0, v1),
                          {"rules": src, "buffer_hex": hx(buf), "normal": sc[0], "fast": sc[1],
                           "how": "h_scan: newcompiler; defi ext0..2; add <rules>; getrules; scanner 0; scan <buf>; sflags FAST_MODE; scan <buf>"})
        else:
            okn += 1
    chk.add("evaluations", n)
    chk.add("traces_validated_against_impl", okn)
    chk.note(fastmode_condition_trees=n)


def atomq_part(chk, hscan, K):
    """atom quality tables: the same string compiled without a table and with tables that make every window of the string in turn the best
    atom (all other literal windows get quality 1, windows not in the table have the maximum quality) must report the same matches"""
    n = 25 if chk.tier == "quick" else 250
    alen = int(K.get("YR_MAX_ATOM_LENGTH", 4))
    cases, meta = [], {}
    for i in range(n):
        r = chk.rng.fork()
        L = r.range(5, 10)
        body = [r.choice(b"ABCDEFGHJKLMNPQRSTUVWXYZabcdefghjkmnpqrstuvwxyz0123456789\x00\xff\x20\x90") for _ in range(L)]
        kind = r.choice(["text", "text-nocase", "hex", "hex-nibble-lo", "hex-nibble-hi", "hex-any", "regexp-dot"])
        wpos = r.range(1, L - 2)
        toks = ["%02X" % c for c in body]
        vals = [[c] for c in body]                       # admissible bytes per position
        if kind == "hex-nibble-lo":
            toks[wpos] = "%X?" % (body[wpos] >> 4)
            vals[wpos] = [(body[wpos] & 0xF0) | x for x in (0, 7, 15)]
        elif kind == "hex-nibble-hi":
            toks[wpos] = "?%X" % (body[wpos] & 15)
            vals[wpos] = [(x << 4) | (body[wpos] & 15) for x in (0, 8, 15)]
        elif kind in ("hex-any", "regexp-dot"):
            toks[wpos] = "??"
            vals[wpos] = [0x00, 0x41, 0xFE, 0xFF] if kind == "hex-any" else [0x00, 0x41, 0xFE, 0xFF]
        if kind.startswith("text"):
            txt = bytes(c if 32 < c < 127 and c not in b'"\\' else 0x61 for c in body)
            body = list(txt)
            vals = [[c] for c in body]
            decl = '$a = "%s"%s' % (txt.decode(), " nocase" if kind == "text-nocase" else "")
        elif kind == "regexp-dot":
            decl = "$a = /%s/s" % "".join("." if k == wpos else "\\x%02x" % c for k, c in enumerate(body))
        else:
            decl = "$a = { %s }" % " ".join(toks)
        cond = r.choice(["$a", "#a == %d", "$a or filesize < 0", "$a"])
        # buffers: every admissible value of the wildcarded position, at the start, in the middle and at the end
        occs = []
        for v in vals[wpos] if len(vals[wpos]) > 1 else [body[wpos]]:
            o = list(body)
            o[wpos] = v
            occs.append(bytes(o))
        buf = b"".join(o + bytes(r.choice(b" .-") for _ in range(r.range(1, 3))) for o in occs) + occs[-1]
        if "%d" in cond:
            cond = cond % (len(occs) + 1)
        src = "rule t { strings: %s condition: %s }" % (decl, cond)
        lit_windows = []
        for p_ in range(0, L - alen + 1):
            if all(len(vals[k]) == 1 for k in range(p_, p_ + alen)):
                lit_windows.append(bytes(body[p_:p_ + alen]))
        tables = [None]
        for fav in range(0, L - alen + 1):
            ent = sorted(set(w for k, w in enumerate(lit_windows) if w != bytes(body[fav:fav + alen]) or not all(len(vals[j]) == 1 for j in range(fav, fav + alen))))
            if kind == "text-nocase":
                ent = sorted(set(ent) | set(w.lower() for w in ent) | set(w.upper() for w in ent))
            tables.append(ent)
        tables.append(sorted(set(lit_windows)))          # every literal window is bad: only windows with the wildcard are left
        for ti, ent in enumerate(tables):
            cmds = ["newcompiler"]
            if ent is not None:
                if not ent:
                    continue
                cmds.append("atomq %d %d %s" % (len(ent), 0, hx(b"".join(w + bytes([1]) for w in ent))))
            cmds += ["add " + hx(src.encode()), "getrules", "scanner 0", "scan " + hx(buf), "sflags %d" % int(K.get("SCAN_FLAGS_FAST_MODE", 1)), "scan " + hx(buf)]
            cases.append(("q%d_%d" % (i, ti), cmds))
        meta[i] = (src, buf, len(tables), kind)
    out, err = vlib.run_cases(hscan, cases, timeout=3000, jobs=16)
    okn = 0
    kinds = {}
    for i in range(n):
        src, buf, nt, kind = meta[i]
        kinds[kind] = kinds.get(kind, 0) + 1
        ref = [l for l in out.get("q%d_0" % i, []) if l.startswith("scan msgs=")]
        if any(l.startswith("crash") for l in out.get("q%d_0" % i, [])) or len(ref) != 2:
            adds = [l for l in out.get("q%d_0" % i, []) if l.startswith("add errors=")]
            if not adds or adds[0] == "add errors=0":
                chk.violation("atomq-run", "atom-table scenario did not run: %s" % out.get("q%d_0" % i, [])[-3:], {"rule": src}, found_input=False)
            continue
        bad = False
        for ti in range(1, nt):
            lines = out.get("q%d_%d" % (i, ti))
            if lines is None:
                continue
            sc = [l for l in lines if l.startswith("scan msgs=")]
            if any(l.startswith("crash") for l in lines):
                chk.violation("atomq-crash", "compiling/scanning with an atom quality table crashes: %s" % src[:200],
                              {"rule": src, "buffer_hex": hx(buf), "commands": dict(cases)["q%d_%d" % (i, ti)][:2], "output": lines[-3:]})
                bad = True
                break
            if len(sc) != 2 or sc[0] != ref[0] or re.findall(r"([MN]):default:t", sc[1]) != re.findall(r"([MN]):default:t", ref[1]):
                chk.violation("atom-quality-table", "`%s`: matches without an atom quality table %s ; with a table that penalises %s: %s"
                              % (src[:200], ref[0][:200], "all literal windows" if ti == nt - 1 else "every literal window but #%d" % (ti - 1), (sc[:1] or lines[-2:])[0][:200]),
                              {"rule": src, "buffer_hex": hx(buf), "table_command": dict(cases)["q%d_%d" % (i, ti)][1][:400], "without_table": ref, "with_table": sc,
                               "how": "h_scan: newcompiler; atomq <entries> 0 <hex of entries: 4 atom bytes + quality byte>; add <rule>; getrules; scanner 0; scan <buffer>"})
                bad = True
                break
        if not bad:
            okn += 1
    chk.add("evaluations", len(cases))
    chk.add("traces_validated_against_impl", okn)
    chk.note(atom_quality_table_strings=n, atom_quality_table_compilations=len(cases), atom_quality_kinds=kinds)

