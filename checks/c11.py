"""C11: the scan callback protocol is exact.
Proof: coq/Props/Properties_C11.v over coq/Model/Report.v.  Tie: the extracted model and the real library
(harness/h_proto.c) run on the same rule sets / buffers / flags / callback scripts; traces, return codes and the
two bitmaps the report loop reads (rule_matches_flags, ns_unsatisfied_flags) must be identical."""
import os, json, itertools
import vlib, build, protolib
from protolib import hexs

PROPS = "Props/Properties_C11.v"
MODULES = ["math", "pe", "elf", "time", "console", "string", "hash"]
_NS3 = ["default", "nsb", "nsc"]
SCALE_BUF = b"..q69z..q64z..q71z..abc.."
SCALE_BUF2 = b"zz"      # no "abc", none of the q-strings, filesize <= 3: the scale rule sets flip most verdicts between the two


def nsname(i):
    return _NS3[i] if i < 3 else "n%d" % i


class _NS:
    def __getitem__(self, i):
        return nsname(i)


NSNAMES = _NS()
BUFS = [b"", b"zz", b"abc", b"xxabcxx"]

# conditions whose truth the generator controls: (source text, needs $a, module, value as function of buffer)
CONDS = [
    ("true", False, None, lambda b: True),
    ("false", False, None, lambda b: False),
    ("filesize > 3", False, None, lambda b: len(b) > 3),
    ("$a", True, None, lambda b: b"abc" in b),
    ("not $a", True, None, lambda b: b"abc" not in b),
    ("math.max(1, 2) == 2", False, "math", lambda b: True),
    ("math.min(1, 2) == 2", False, "math", lambda b: False),
    ("pe.number_of_sections > 1000", False, "pe", lambda b: False),       # undefined on these buffers
    ("not (elf.number_of_sections > 1000)", False, "elf", lambda b: False),  # not undefined = undefined
]


class RuleSet:
    """sources: list of (ns index, [module names imported], [rule dicts]); rule: name, g, p, d, cond index or ('ref', name)"""

    def __init__(self, sources):
        self.sources = sources

    def rules(self):
        return [(ns, r) for ns, _, rs in self.sources for r in rs]

    def ns_order(self):
        order = []
        for ns, _, _ in self.sources:
            if ns not in order:
                order.append(ns)
        return order

    def commands(self):
        cmds = ["newcompiler", "strings 0"]
        for ns, imps, rs in self.sources:
            cmds.append("ns " + ("-" if NSNAMES[ns] == "default" else NSNAMES[ns]))
            src = "".join('import "%s"\n' % m for m in imps)
            for r in rs:
                c = r["cond"]
                strs = ""
                if isinstance(c, tuple):
                    text = c[1]
                    if c[0] == "raw":
                        strs = c[3]
                else:
                    text = CONDS[c][0]
                    strs = 'strings: $a = "abc" ' if CONDS[c][1] else ""
                src += "%s%srule %s { %scondition: %s }\n" % ("global " if r["g"] else "", "private " if r["p"] else "",
                                                           r["name"], strs, text)
            cmds.append("add " + hexs(src))
        cmds += ["getrules", "scanner 0", "pcb"]
        for ns, _, rs in self.sources:
            for r in rs:
                if r["d"]:
                    cmds.append("disable " + r["name"])
        return cmds

    def import_ids(self):
        """module of every OP_IMPORT in code order: one per (namespace, module), first statement wins"""
        seen, out = set(), []
        for ns, imps, _ in self.sources:
            for m in imps:
                if (ns, m) not in seen:
                    seen.add((ns, m))
                    out.append(MODULES.index(m))
        return out

    def model_rules(self, buf):
        order = self.ns_order()
        raw = {}
        out = []
        for ns, r in self.rules():
            c = r["cond"]
            if isinstance(c, tuple) and c[0] == "raw":      # condition text given with its value (constant or function of the buffer)
                v = c[2](buf) if callable(c[2]) else c[2]
            elif isinstance(c, tuple):      # reference to an earlier rule of the same namespace: its raw result bit
                v = raw[c[1]]
            else:
                v = CONDS[c][3](buf)
            raw[r["name"]] = v and not r["d"]
            out.append("%d:%d:%d:%d:%d" % (order.index(ns), r["g"], r["p"], r["d"], v))
        return ",".join(out) or "-"

    def describe(self):
        return [{"ns": NSNAMES[ns], "imports": imps, "rules": [dict(r, cond=(r["cond"][1] if isinstance(r["cond"], tuple) else CONDS[r["cond"]][0])) for r in rs]}
                for ns, imps, rs in self.sources]


def small_rulesets(nrules):
    """every assignment of (namespace in 2, global, private, condition true/false) to nrules rules"""
    opts = list(itertools.product((0, 1), (0, 1), (0, 1), (0, 1)))
    for combo in itertools.product(opts, repeat=nrules):
        if combo[0][0] != 0:
            continue      # the first rule's namespace is called 0 (symmetry)
        sources = []
        for i, (ns, g, p, c) in enumerate(combo):
            r = {"name": "r%d" % i, "g": g, "p": p, "d": 0, "cond": 0 if c else 1}
            if sources and sources[-1][0] == ns:
                sources[-1][2].append(r)
            else:
                sources.append((ns, [], [r]))
        yield RuleSet(sources)


def random_ruleset(r, mods):
    nsrc = r.range(1, 4)
    nns = r.range(1, 3)
    sources = []
    k = 0
    names_in_ns = {}
    for s in range(nsrc):
        ns = r.below(nns) if s else 0
        imps = []
        for _ in range(r.below(3)):
            imps.append(r.choice(mods))
        rs = []
        for _ in range(r.range(0 if s else 1, 4)):
            g = r.chance(1, 3)
            p = r.chance(1, 3)
            d = r.chance(1, 8)
            prev = names_in_ns.get(ns, [])
            if prev and r.chance(1, 5):
                cond = ("ref", r.choice(prev))
            else:
                ok = [i for i, c in enumerate(CONDS) if c[2] is None or c[2] in imps]
                cond = r.choice(ok)
            name = "r%d" % k
            k += 1
            rs.append({"name": name, "g": int(g), "p": int(p), "d": int(d), "cond": cond})
            names_in_ns.setdefault(ns, []).append(name)
        sources.append((ns, imps, rs))
    # namespaces must be numbered in order of first use
    order = []
    for ns, _, _ in sources:
        if ns not in order:
            order.append(ns)
    sources = [(order.index(ns), imps, rs) for ns, imps, rs in sources]
    return RuleSet(sources)


def expected_from_model(mline, rs):
    """model line -> (messages as the harness prints them, rc, rm, ns)"""
    f = dict(x.split("=", 1) for x in mline.split(" "))
    rules = rs.rules()
    msgs = []
    for t in f["msgs"].split(";"):
        if not t:
            continue
        if t[0] in "ID":
            msgs.append((t[0], MODULES[int(t[1:])]))
        elif t[0] in "MN":
            ns, r = rules[int(t[1:])]
            msgs.append((t[0], NSNAMES[ns], r["name"]))
        else:
            msgs.append(("F",))
    return msgs, int(f["rc"]), f["rm"], f["ns"]


def scripts_for(nmsgs, rng, exhaustive):
    """callback scripts: abort / error at every message index (and one past), plus combinations"""
    out = ["-"]
    ks = range(nmsgs + 1) if exhaustive else sorted(set([0, 1, nmsgs - 1, nmsgs] + [rng.below(nmsgs + 1) for _ in range(3)]))
    for k in ks:
        if k < 0:
            continue
        out.append("%d:1" % k)
        out.append("%d:2" % k)
    for _ in range(3):
        a, b = sorted((rng.below(nmsgs + 1), rng.below(nmsgs + 1)))
        if a != b:
            out.append("%d:%d,%d:%d" % (a, rng.choice([1, 3, 7, -1]), b, rng.choice([1, 2])))
    out.append("0:3")     # an answer that is none of the three constants is ignored
    return out

CHAIN_OK = b"..ABCD" + b"." * 350 + b"1234.." + b"WXYZ" + b"-" * 320 + b"5678.."
CHAIN_NO = b"..ABCD" + b"." * 100 + b"1234.." + b"WXYZ" + b"-" * 90 + b"5678.."


def chained_ruleset():
    """rules whose only strings are CHAINED (a jump above 200 bytes splits a hex string / regexp into a chain): global,
    private, ordinary, in two namespaces; twins that also have an ordinary string; a chain that never completes.
    Verdicts do not depend on YR_CONFIG_MAX_MATCH_DATA."""
    hexc = "strings: $h = { 41 42 43 44 [300-400] 31 32 33 34 } "
    rexc = "strings: $r = /WXYZ-{300,400}5678/ "
    never = "strings: $h = { 41 42 43 44 [300-400] 39 39 39 39 } "
    twin = 'strings: $h = { 41 42 43 44 [300-400] 31 32 33 34 } $o = "ABCD" '
    ok = lambda b: b is CHAIN_OK or b == CHAIN_OK
    has = lambda b: b"ABCD" in b

    def r(name, g, p, text, v, decl):
        return {"name": name, "g": g, "p": p, "d": 0, "cond": ("raw", text, v, decl)}
    return RuleSet([
        (0, [], [r("r0", 1, 0, "$h", ok, hexc), r("r1", 0, 0, "$h", ok, hexc), r("r2", 0, 1, "$r", ok, rexc), r("r3", 0, 0, "$r", ok, rexc),
                 r("r4", 0, 0, "#h == 1", ok, hexc), r("r5", 0, 0, "any of them", has, twin), r("r6", 0, 0, "$h", False, never),
                 {"name": "r7", "g": 0, "p": 0, "d": 0, "cond": 0}]),
        (1, [], [r("r8", 1, 1, "$r", ok, rexc), r("r9", 0, 0, "$h and true", ok, hexc), {"name": "r10", "g": 0, "p": 0, "d": 0, "cond": 0}]),
        (2, [], [r("r11", 1, 0, "$h", False, never), {"name": "r12", "g": 0, "p": 0, "d": 0, "cond": 0}])])


BOUNDARY = [31, 32, 33, 63, 64, 65, 127, 128, 129]


def many_namespaces(n, failing, mods):
    """n namespaces, each: a global rule (false iff its namespace is in `failing`), a private rule, a true rule, a
    false rule, every 16th also a global private one; three modules imported in several namespaces"""
    sources = []
    k = 0
    for i in range(n):
        imps = []
        if i == 0:
            imps = [mods[0]]
        elif i == 35:
            imps = [mods[1], mods[0]]
        elif i == 66:
            imps = [mods[2 % len(mods)], mods[1]]
        rs = []
        for role in ("g", "p", "t", "f") + (("gp",) if i % 16 == 5 else ()):
            # verdicts depend on the buffer ("$a" holds on SCALE_BUF, "not $a" on SCALE_BUF2) so that consecutive scans on
            # one scanner differ: whatever a scan leaves behind shows in the next one
            cond = 0
            if role == "g" and i in failing:
                cond = 1 if i % 2 == 0 else 4
            if role == "f":
                cond = 1
            if role == "p" and i % 3 == 0:
                cond = 3
            if role == "t":
                cond = 3 if i % 2 else 4
            if role == "t" and imps and imps[0] == "math":
                cond = 5
            rs.append({"name": "r%d" % k, "g": int(role in ("g", "gp")), "p": int(role in ("p", "gp")), "d": 0, "cond": cond})
            k += 1
        sources.append((i, imps, rs))
    return RuleSet(sources)


def many_rules(n, true_at, glob=None, glob_cond=0):
    """n rules in one namespace; rule k holds on SCALE_BUF iff k in true_at and on SCALE_BUF2 iff not; every 7th private; a few
    disabled; optionally one global"""
    rs = []
    for k in range(n):
        rs.append({"name": "r%d" % k, "g": int(k == glob), "p": int(k % 7 == 3), "d": int(k in (30, 66, 130)),
                   "cond": (glob_cond if k == glob else (3 if k in true_at else 4))})
    return RuleSet([(0, [], rs)])


def many_strings(nstr=72):
    """rules with nstr strings each; SCALE_BUF contains q69z, q64z and q71z only"""
    decl = "strings: " + " ".join('$s%d = "q%02dz"' % (i, i) for i in range(nstr)) + " "
    def pres(b):
        return {i for i in range(nstr) if ("q%02dz" % i).encode() in b}
    conds = [("$s69", lambda b: 69 in pres(b)), ("$s33", lambda b: 33 in pres(b)),
             ("$s64 and not $s31", lambda b: 64 in pres(b) and 31 not in pres(b)),
             ("#s71 == 1", lambda b: b.count(b"q71z") == 1), ("#s70 == 0 and #s63 == 0", lambda b: not ({70, 63} & pres(b))),
             ("any of them", lambda b: len(pres(b)) >= 1), ("all of them", lambda b: len(pres(b)) == nstr),
             ("3 of them", lambda b: len(pres(b)) >= 3), ("4 of them", lambda b: len(pres(b)) >= 4),
             ("$s32 or $s65", lambda b: bool({32, 65} & pres(b)))]
    rs0, rs1 = [], []
    for k, (text, v) in enumerate(conds):
        # "them" makes every string referenced (an unreferenced string is a compile error)
        r = {"name": "r%d" % k, "g": int(k == 4), "p": int(k == 7), "d": 0, "cond": ("raw", "(%s) and (any of them or true)" % text, v, decl)}
        (rs0 if k % 2 == 0 else rs1).append(r)
    return RuleSet([(0, [], rs0), (1, [], rs1)])


def scale_rulesets(mods, quick):
    out = []
    for n in (70, 130):
        b = [x for x in BOUNDARY if x < n]
        fails = [{x} for x in b] + [set(b[1::3]), set(range(n)) - set(b[1::3]), set()]
        if quick and n == 70:
            fails = [{32}, {33}, {63, 65}, set(range(n)) - {33, 64}]
        for f in fails:
            out.append(many_namespaces(n, f, mods))
    tb = set(BOUNDARY) - {32, 64, 128}
    out.append(many_rules(140, tb))
    out.append(many_rules(140, set(range(140)) - tb))
    out.append(many_rules(140, set(range(0, 140, 2)), glob=128, glob_cond=0))
    out.append(many_rules(140, set(range(1, 140, 2)), glob=64, glob_cond=1))
    out.append(many_strings(72))
    return out


def run(chk):
    ok, log, st = vlib.proof_obligations(chk, PROPS)
    if not ok:
        chk.violation("proof", "obligations of C11 no longer check: " + log[-1200:], {"log": log[-4000:]}, found_input=False)
    h = build.harness("h_proto", extra_flags=protolib.hscan_flag())
    model = protolib.private_model()
    quick = chk.tier == "quick"
    if not quick:
        # independent re-check of the compiled proofs of C11 and C13 (and everything they depend on) with coqchk
        import subprocess
        lock = vlib.coq_lock()
        try:
            vlib.coq_make(["Props/Properties_C13.vo"])
            p = subprocess.run(["coqchk", "-silent", "-o", "-R", ".", "YV", "YV.Props.Properties_C11", "YV.Props.Properties_C13"],
                               cwd=vlib.COQ, stdout=subprocess.PIPE, stderr=subprocess.STDOUT, text=True, timeout=1500)
        finally:
            lock.close()
        import re as _re
        summary = _re.sub(r"\s+", " ", p.stdout[-700:])
        chk.note(coqchk=summary)
        if p.returncode != 0 or "Axioms: <none>" not in summary:
            chk.violation("coqchk", "coqchk does not accept the compiled proofs or finds axioms: " + summary, {"out": p.stdout[-3000:]}, found_input=False)
    K = vlib.consts()
    FLAGS = [0, K["SCAN_FLAGS_REPORT_RULES_MATCHING"], K["SCAN_FLAGS_REPORT_RULES_NOT_MATCHING"],
             K["SCAN_FLAGS_REPORT_RULES_MATCHING"] | K["SCAN_FLAGS_REPORT_RULES_NOT_MATCHING"]]

    # which modules does this build have?
    out, _ = vlib.run_cases(h, [("m" + m, ["newcompiler", "add " + hexs('import "%s"' % m), "getrules"]) for m in MODULES])
    mods = [m for m in MODULES if any(l == "add errors=0" for l in out.get("m" + m, []))]
    chk.note(modules_available=mods)

    rulesets = []
    for n in ((1, 2) if quick else (1, 2, 3)):
        for rs in small_rulesets(n):
            rulesets.append(("small", rs))
    g = chk.rng.fork()
    for _ in range(40 if quick else 300):
        rulesets.append(("random", random_ruleset(g.fork(), mods)))
    # hand-made: a module imported in two namespaces, globals defined after the rules they veto, interleaved namespaces
    rulesets.append(("hand", RuleSet([
        (0, [mods[0]], [{"name": "r0", "g": 0, "p": 0, "d": 0, "cond": 0}, {"name": "r1", "g": 1, "p": 0, "d": 0, "cond": 2}]),
        (1, [mods[-1], mods[0]], [{"name": "r2", "g": 0, "p": 1, "d": 0, "cond": 0}, {"name": "r3", "g": 1, "p": 1, "d": 0, "cond": 3}]),
        (0, [mods[0]], [{"name": "r4", "g": 0, "p": 0, "d": 0, "cond": ("ref", "r0")}, {"name": "r5", "g": 1, "p": 0, "d": 1, "cond": 0}]),
        (1, [], [{"name": "r6", "g": 0, "p": 0, "d": 0, "cond": 0}])])))

    # every dimension past one byte / 32 bits / one 64-bit word: 70 and 130 namespaces (a failing global rule in the
    # namespaces around 32, 64, 128), 140 rules in one namespace, rules with 72 strings, 3 modules over several namespaces
    for rs in scale_rulesets(mods, quick):
        rulesets.append(("scale", rs))

    # the configuration dimension: YR_CONFIG_MAX_MATCH_DATA in {0, 1, default}; rules whose only strings are chained
    for mmd in (0, 1, 512):
        rulesets.append(("chain:%d" % mmd, chained_ruleset()))

    cases, plan = [], []     # plan: per case the list of (flags, script, buf, entry)
    sg = chk.rng.fork()
    for ci, (kind, rs) in enumerate(rulesets):
        cmds = rs.commands()
        if kind.startswith("chain:"):
            cmds.append("config maxmatchdata " + kind.split(":")[1])
        scans = []
        nmsgs = 2 * len(set(rs.import_ids())) + len(rs.rules()) + 1
        bufs = [BUFS[3]] if kind == "small" else [SCALE_BUF] if kind == "scale" else [CHAIN_OK, CHAIN_NO, CHAIN_OK] if kind.startswith("chain:") \
            else [sg.choice(BUFS), BUFS[3]]
        alt = 0
        for buf0 in bufs:
            for f in FLAGS:
                exhaustive = nmsgs <= 12 and (kind != "random" or not quick or f == 0)
                scs = scripts_for(nmsgs, sg, exhaustive)
                if kind == "scale":       # sampled: around the message positions of rules 32/64/128 as well
                    scs = scs[:1] + ["%d:%d" % (k, a) for k in sorted(set(sg.below(nmsgs + 1) for _ in range(3)) | {sg.choice([31, 32, 33, 64, 65, 128, 129]) % (nmsgs + 1)})
                                     for a in (1, 2)] + scs[-1:]
                for sc in scs:
                    buf = buf0
                    if kind == "scale":      # consecutive scans on the one scanner alternate between the two buffers
                        buf = (SCALE_BUF, SCALE_BUF2)[alt % 2]
                        alt += 1
                    entry = "scan" if sg.chance(4, 5) else "rscan"
                    scans.append((f, sc, buf, entry))
                    cmds.append("script " + sc)
                    if entry == "scan":
                        cmds += ["sflags %d" % f, "scan " + vlib.hx(buf), "pbits"]
                    else:
                        cmds += ["rscan %d 0 %s" % (f, vlib.hx(buf))]
        cases.append(("c%d" % ci, cmds))
        plan.append(scans)

    out, err = vlib.run_cases(h, cases, timeout=1500)
    mcmds = []
    for (kind, rs), scans in zip(rulesets, plan):
        imps = ",".join(map(str, rs.import_ids())) or "-"
        nns = len(rs.ns_order())
        for f, sc, buf, entry in scans:
            mcmds.append("c11 %s %s %d %s %d" % (imps, rs.model_rules(buf), f, sc, nns))
    mlines, _ = vlib.run_lines(model, mcmds, timeout=1500)

    n_eval = n_stop = n_bits = 0
    distinct = set()
    mi = 0
    for ci, ((kind, rs), scans) in enumerate(zip(rulesets, plan)):
        lines = out.get("c%d" % ci, [])
        crash = [l for l in lines if l.startswith("crash")]
        scanlines = [l for l in lines if l.startswith("scan msgs=") or l.startswith("bits ")]
        if not any(l == "getrules rc=0" for l in lines):
            chk.violation("generator", "generated rule set does not compile: %s" % lines[:6], {"rules": rs.describe(), "out": lines[:10]}, found_input=False)
            mi += len(scans)
            continue
        li = 0
        for f, sc, buf, entry in scans:
            mline = mlines[mi]
            mi += 1
            n_eval += 1
            got = protolib.parse_scan(scanlines[li]) if li < len(scanlines) else None
            li += 1
            bits = None
            if entry == "scan":
                bits = scanlines[li] if li < len(scanlines) else None
                li += 1
            exp_msgs, exp_rc, exp_rm, exp_ns = expected_from_model(mline, rs)
            replay = {"rules": rs.describe(), "harness_commands": rs.commands() + ["script " + sc, "sflags %d" % f, "scan " + vlib.hx(buf), "pbits"],
                      "model_command": mcmds[mi - 1], "flags": f, "script": sc, "buffer_hex": vlib.hx(buf), "entry": entry,
                      "model": mline, "impl": scanlines[li - (2 if entry == "scan" else 1):li],
                      "how": "feed harness_commands between 'case x' / 'endcase' to h_proto; model_command to the model runner"}
            if crash or got is None:
                chk.violation("crash", "scan crashed or printed nothing: %s" % (crash or lines[-3:]), replay)
                break
            got_msgs = [m[:3] if m[0] in "MN" else m for m in got[0]]
            if got_msgs != exp_msgs or got[1] != exp_rc:
                d = next((i for i, (a, b) in enumerate(zip(got_msgs, exp_msgs)) if a != b), min(len(got_msgs), len(exp_msgs)))
                lo = max(0, d - 2)
                chk.violation("trace:" + kind, "callback trace differs from the model (%d rules, %d namespaces) at message %d: flags=%d script=%s "
                              "impl[%d:]=%s (%d messages) rc=%d model[%d:]=%s (%d messages) rc=%d"
                              % (len(rs.rules()), len(rs.ns_order()), d, f, sc, lo, got_msgs[lo:d + 4], len(got_msgs), got[1],
                                 lo, exp_msgs[lo:d + 4], len(exp_msgs), exp_rc), replay)
                continue
            if bits and bits.startswith("bits rm="):
                n_bits += 1
                b = dict(x.split("=") for x in bits.split(" ")[1:])
                if b["rm"] != exp_rm or b["ns"] != exp_ns:
                    def fd(a, c):
                        return next((i for i, (x, y) in enumerate(zip(a, c)) if x != y), min(len(a), len(c)))
                    drm, dns = fd(b["rm"], exp_rm), fd(b["ns"], exp_ns)
                    chk.violation("bitmaps", "the bitmaps the report loop reads differ from the model (%d rules, %d namespaces, flags=%d script=%s): "
                                  "%s" % (len(rs.rules()), len(rs.ns_order()), f, sc,
                                          ("rule_matches_flags first differs at rule %d: impl ..%s model ..%s; " % (drm, b["rm"][max(0, drm - 3):drm + 4], exp_rm[max(0, drm - 3):drm + 4]) if b["rm"] != exp_rm else "") +
                                          ("ns_unsatisfied_flags first differs at namespace %d: impl ..%s model ..%s" % (dns, b["ns"][max(0, dns - 3):dns + 4], exp_ns[max(0, dns - 3):dns + 4]) if b["ns"] != exp_ns else "")), replay)
                    continue
            stopped = ("F",) not in exp_msgs
            n_stop += stopped
            shape = (tuple((ns, r["g"], r["p"], r["d"]) for ns, r in rs.rules()), tuple(rs.import_ids()), rs.model_rules(buf), f, sc)
            if len(exp_msgs) > 1:
                distinct.add(hash(shape))
            if stopped and kind != "small":
                chk.sample({"rules": rs.describe(), "flags": f, "script": sc, "trace": mline})
    chk.note(evaluations=n_eval, distinct_nontrivial=len(distinct), traces_validated_against_impl=n_eval,
             scans_stopped_by_callback=n_stop, bitmap_snapshots_compared=n_bits, rulesets=len(rulesets),
             rule="one evaluation = one scan (rule set, buffer, flags, script) whose full message trace, return code and bitmaps "
                  "equal the model's; distinct = different (rule flags, namespaces, imports, verdicts, flags, script); non-trivial = "
                  "more than the SCAN_FINISHED message")
    chk.assumptions += [
        "model inputs: the per-rule condition verdict is computed by the generator from conditions whose truth it controls "
        "(true/false/filesize/$a/module constants/undefined module fields/rule references)",
        "not modelled and not generated: console.log messages, TOO_MANY_MATCHES, TOO_SLOW_SCANNING, module load() failures, timeouts",
        "an abort answer to IMPORT_MODULE / MODULE_IMPORTED is ignored by the library (modules.c:139,171); the model says so and the "
        "property does not claim otherwise"]


def replay(chk, path):
    r = json.load(open(path))["replay"]
    h = build.harness("h_proto", extra_flags=protolib.hscan_flag())
    model = protolib.private_model()
    out, _ = vlib.run_cases(h, [("replay", r["harness_commands"])])
    ml, _ = vlib.run_lines(model, [r["model_command"]])
    print("impl :", [l for l in out["replay"] if l.startswith("scan") or l.startswith("bits") or l.startswith("crash")])
    print("model:", ml[0])
    return 0
