"""C01: text-string matches are exactly the documented occurrences."""
import re
import vlib, build, rulegen
from vlib import hx, unhx

PROPS = "Props/Properties_C01.v"


def variant_bytes(rng, text, m):
    """one concrete byte rendering of the string under its modifiers (used to plant occurrences)"""
    kinds = []
    if m["ascii"] or not m["wide"]:
        kinds.append("a")
    if m["wide"]:
        kinds.append("w")
    kind = rng.choice(kinds)
    k = 0
    if m["xor"] is not None:
        lo, hi = m["xor"]
        k = rng.range(lo, hi) if rng.chance(9, 10) else rng.below(256)     # sometimes a key outside the range
    t = bytearray(text)
    if m["nocase"]:
        for i in range(len(t)):
            if rng.chance(1, 2) and chr(t[i]).isalpha() and t[i] < 128:
                t[i] ^= 0x20
    if kind == "a":
        return bytes(c ^ k for c in t)
    out = bytearray()
    for c in t:
        out += bytes([c ^ k, k])
    return bytes(out)


def make_buffer(rng, strings, size):
    buf = bytearray(rng.bytes(size) if rng.chance(1, 2) else bytes([rng.choice(b" .\0-azAZ09")]) * size)
    nplant = rng.range(1, 6)
    for _ in range(nplant):
        text, m = rng.choice(strings)
        v = variant_bytes(rng, text, m)
        if rng.chance(1, 6) and len(v) > 1:
            v = v[:-1] + bytes([v[-1] ^ 1])        # near miss
        where = rng.below(5)
        if where == 0:
            pos = 0
        elif where == 1:
            pos = max(0, len(buf) - len(v))
        else:
            pos = rng.below(max(1, len(buf) - len(v) + 1))
        buf[pos:pos + len(v)] = v
        if rng.chance(1, 3):
            # neighbours that matter for fullword
            nb = rng.choice([b"a", b"Z", b"0", b" ", b"\0", b"_", b"a\0", b"\0a"])
            if rng.chance(1, 2) and pos >= len(nb):
                buf[pos - len(nb):pos] = nb
            elif pos + len(v) + len(nb) <= len(buf):
                buf[pos + len(v):pos + len(v) + len(nb)] = nb
        if rng.chance(1, 4):
            # an overlapping second copy
            sh = rng.range(1, max(1, len(v) - 1))
            if pos + sh + len(v) <= len(buf):
                buf[pos + sh:pos + sh + len(v)] = v
    return bytes(buf[:size])


def mods_flags(m):
    return "%d%d%d%d" % (m["ascii"], m["wide"], m["nocase"], m["fullword"])


def widen(b):
    return b"".join(bytes([c, 0]) for c in b)


def aimed_xor_buffers(text, m, atoms):
    """buffers on which the verifier may accept a rendering/key that the atom hit does not justify (Model/Verify.v forced_key_ok):
    the rendering r' xored with a key outside the declared range (or a rendering that is not enabled), with the atom's bytes where
    the automaton expects them"""
    lo, hi = m["xor"]
    asc = m["ascii"] or not m["wide"]
    outs = []
    for a, bt in atoms:
        w0 = bt - len(a)
        if w0 < 0:
            continue
        rends = [(text, asc)] + ([(widen(text), True)] if m["wide"] else [])
        for r2, enabled in rends:
            J = [j for j in range(w0, w0 + len(a)) if j < len(r2)]
            if not J:
                ks = [k for k in range(256) if not (enabled and lo <= k <= hi)]
                if not ks:
                    continue
                k = ks[len(ks) // 2]
            else:
                kk = set(r2[j] ^ a[j - w0] for j in J)
                if len(kk) != 1:
                    continue
                k = kk.pop()
                if enabled and lo <= k <= hi:
                    continue
            data = bytearray(c ^ k for c in r2)
            while len(data) < w0 + len(a):
                data.append(0x2e)
            data[w0:w0 + len(a)] = a
            outs.append((b".." + bytes(data) + b"..", 2, len(r2), k))
    return outs[:6]


def verifier_model(chk, model, hscan, cases, meta, out, corder):
    tq, sq = [], []
    for cid in corder:
        src, strings, bufs = meta[cid]
        img = [l for l in out.get(cid, []) if l.startswith("save rc=0 image=")][0].split("image=")[1]
        q = "textcerts " + img
        for text, m in strings:
            lo, hi = m["xor"] if m["xor"] is not None else ("-", "-")
            q += " %s %s %s %s" % (hx(text), mods_flags(m), lo, hi)
        tq.append(q)
        sq.append("scanstr " + img + " " + " ".join(hx(b) if b else "-" for b in bufs))
    tres, _ = vlib.run_lines(model, tq, timeout=3000)
    sres, _ = vlib.run_lines(model, sq, timeout=3000)
    st = {"strings": 0, "sound_cert_true": 0, "complete_cert_true": 0, "outside_completeness_theorem_nul": 0, "fits_in_atom": 0,
          "model_scans_compared": 0, "model_scans_equal": 0, "sound_cert_false_xor": 0, "aimed_buffers": 0, "aimed_reproduce_known_finding": 0}
    aimed = []
    chk.c01_info = {"unsound": set(), "equal": set()}
    for cid, tr, sr in zip(corder, tres, sres):
        src, strings, bufs = meta[cid]
        lines = out.get(cid, [])
        scans = [l for l in lines if l.startswith("scan msgs=")]
        certs = tr.split(" | ")
        for si, (text, m) in enumerate(strings):
            st["strings"] += 1
            c = certs[si] if si < len(certs) else tr
            f = dict(kv.split("=", 1) for kv in c.split() if "=" in kv)
            st["fits_in_atom"] += f.get("fitsflag") == "true"
            atoms = [(vlib.unhx(x.split("/")[0]), int(x.split("/")[1])) for x in f.get("atoms", "").split(",") if "/" in x]
            if f.get("sound") == "true":
                st["sound_cert_true"] += 1
            elif m["xor"] is not None and f.get("xorkeys") == "false" and f.get("agree") == "true":
                st["sound_cert_false_xor"] += 1
                chk.c01_info["unsound"].add((cid, si))
                aimed.append((cid, si, aimed_xor_buffers(text, m, atoms)))
            else:
                chk.violation("cert:sound", "the certificate of scan_text_sound fails for string %d of %s: %s" % (si, src[:160], c[:200]),
                              {"rule": src, "string_index": si, "model": c[:2000]}, found_input=False)
            if f.get("complete") == "true":
                st["complete_cert_true"] += 1
            elif f.get("nonul") == "false":
                st["outside_completeness_theorem_nul"] += 1      # ascii and wide forms of a string with NUL bytes may overlap: correspondence only
            elif "cover=false" not in c:
                chk.violation("cert:complete", "the certificate of scan_text_complete fails for string %d of %s: %s" % (si, src[:160], c[:200]),
                              {"rule": src, "string_index": si, "model": c[:2000]}, found_input=False)
        if len(scans) != len(bufs):
            continue
        mbufs = sr.split(" ; ")
        for bi, b in enumerate(bufs):
            mm = re.search(r"[MN]:default:r:([^;]*);", scans[bi])
            per = {}
            if mm:
                for part in mm.group(1).split("|"):
                    if "=" in part:
                        ident, lst = part.split("=", 1)
                        per[ident] = [tuple(int(x) for x in e.split("/")) for e in lst.split(",") if e]
            mper = dict(x.split("=", 1) for x in (mbufs[bi].split("|") if bi < len(mbufs) else []) if "=" in x)
            for si, (text, m) in enumerate(strings):
                impl = [(e[0], e[1], e[3]) for e in per.get("$s%d" % si, [])]
                mod = [tuple(int(v) for v in e.split("/")) for e in mper.get(str(si), "").split(",") if e]
                st["model_scans_compared"] += 1
                if impl == mod:
                    st["model_scans_equal"] += 1
                    chk.c01_info["equal"].add((cid, bi, si))
                else:
                    chk.violation("scanmodel:" + "+".join(sorted(k for k in ("nocase", "wide", "fullword", "ascii") if m[k]) + (["xor"] if m["xor"] is not None else [])),
                                  "text string %r %s on a %d-byte buffer: implementation records %s, the scan model (stored automaton + literal verifier) %s"
                                  % (text, rulegen.mods_to_words(m), len(b), impl[:6], mod[:6]),
                                  {"rule": src, "string_index": si, "buffer_hex": hx(b), "impl": impl, "model": mod,
                                   "how": "h_scan: newcompiler; add <rule hex>; getrules; save; scanner 0; scan <buffer_hex>   model: scanstr <image> <buffer_hex>"})
    # aimed buffers for strings whose key certificate fails: the model predicts a match that is not an occurrence
    acases, ameta = [], {}
    for n, (cid, si, bl) in enumerate(aimed):
        if not bl:
            src = meta[cid][0]
            st["sound_cert_false_xor_not_reproduced"] = st.get("sound_cert_false_xor_not_reproduced", 0) + 1
            chk.violation("xor-key-outside-range", "the key certificate fails for string %d of %s (no aimed buffer could be built)" % (si, src[:160]),
                          {"rule": src, "string_index": si}, found_input=False)
            continue
        src, strings, _ = meta[cid]
        acases.append(("a%d" % n, ["newcompiler", "add " + hx(src.encode()), "getrules", "save", "scanner 0"] + ["scan " + hx(b[0]) for b in bl]))
        ameta["a%d" % n] = (cid, si, bl)
    if acases:
        aout, _ = vlib.run_cases(hscan, acases, timeout=3000, jobs=16)
        q1, q2, order = [], [], []
        for aid, _ in acases:
            cid, si, bl = ameta[aid]
            src, strings, _ = meta[cid]
            text, m = strings[si]
            img = [l for l in aout.get(aid, []) if l.startswith("save rc=0 image=")]
            if not img:
                continue
            lo, hi = m["xor"]
            for b in bl:
                q1.append("text %s %s %s %s %s" % (hx(text), mods_flags(m), lo, hi, hx(b[0])))
            q2.append("scanstr " + img[0].split("image=")[1] + " " + " ".join(hx(b[0]) for b in bl))
            order.append(aid)
        r1, _ = vlib.run_lines(model, q1, timeout=3000)
        r2, _ = vlib.run_lines(model, q2, timeout=3000)
        pos = 0
        for aid, sr in zip(order, r2):
            cid, si, bl = ameta[aid]
            src, strings, _ = meta[cid]
            text, m = strings[si]
            scans = [l for l in aout.get(aid, []) if l.startswith("scan msgs=")]
            mb = sr.split(" ; ")
            shown = False
            for bi, b in enumerate(bl):
                st["aimed_buffers"] += 1
                spec_offs = set(int(e.split(":")[0]) for e in r1[pos].split(";") if e)
                pos += 1
                if bi >= len(scans):
                    continue
                mm = re.search(r"[MN]:default:r:([^;]*);", scans[bi])
                impl = []
                if mm:
                    for part in mm.group(1).split("|"):
                        if part.startswith("$s%d=" % si):
                            impl = [tuple(int(x) for x in e.split("/")) for e in part.split("=", 1)[1].split(",") if e]
                impl3 = [(e[0], e[1], e[3]) for e in impl]
                mper = dict(x.split("=", 1) for x in (mb[bi].split("|") if bi < len(mb) else []) if "=" in x)
                mod = [tuple(int(v) for v in e.split("/")) for e in mper.get(str(si), "").split(",") if e]
                extra = [e for e in impl3 if e[0] not in spec_offs]
                replay = {"rule": src, "string_index": si, "buffer_hex": hx(b[0]), "impl": impl3, "model": mod, "spec_offsets": sorted(spec_offs),
                          "how": "h_scan: newcompiler; add <rule hex>; getrules; scanner 0; scan <buffer_hex>"}
                if impl3 != mod:
                    chk.violation("scanmodel:aimed", "aimed buffer: implementation records %s, the scan model %s" % (impl3[:6], mod[:6]), replay)
                elif extra:
                    shown = True
                    st["aimed_reproduce_known_finding"] += 1
                    chk.violation("xor-key-outside-range",
                                  "xor text string %r %s: a match is reported at offset %d with length %d and key 0x%02x, which is not an occurrence under the "
                                  "declared modifiers (the verifier recomputes the key and never compares it with the range, and tries the ascii form of "
                                  "wide-only strings; the atom hit only proves another window)" % (text, rulegen.mods_to_words(m), extra[0][0], extra[0][1], extra[0][2]), replay)
                elif set(e[0] for e in impl3) != spec_offs:
                    chk.violation("missed:aimed", "aimed buffer: implementation offsets %s, documented %s" % ([e[0] for e in impl3], sorted(spec_offs)), replay)
            if not shown:
                # the certificate fails for the reason of the known finding (the verifier would accept a rendering / key that this atom does not
                # justify) but other tests of the verifier (fullword, the bytes of the atom itself) keep these particular buffers from matching
                st["sound_cert_false_xor_not_reproduced"] = st.get("sound_cert_false_xor_not_reproduced", 0) + 1
                chk.violation("xor-key-outside-range", "xor text string %r %s: the key certificate of scan_text_sound fails (the verifier recomputes the key / "
                              "tries the ascii form); the aimed buffers do not show a wrong match for this string" % (text, rulegen.mods_to_words(m)),
                              {"rule": src, "string_index": si, "aimed": [hx(b[0]) for b in bl]}, found_input=False)
    return st


B64STD = b"ABCDEFGHIJKLMNOPQRSTUVWXYZabcdefghijklmnopqrstuvwxyz0123456789+/"


def b64enc(alpha, data):
    import base64
    return base64.b64encode(data).translate(bytes.maketrans(B64STD, alpha))


def base64_part(chk, model, hscan):
    """base64 / base64wide strings: the implementation's matches against Spec/Base64Spec.v (the three context-independent forms)"""
    n = 60 if chk.tier == "quick" else 600
    cases, meta = [], {}
    for i in range(n):
        r = chk.rng.fork()
        text = rulegen.rand_text(r, 1, 4) if r.chance(1, 4) else rulegen.rand_text(r, 3, 14)
        plain, wide = r.choice([(1, 0), (1, 0), (0, 1), (1, 1)])
        alpha = B64STD
        if r.chance(1, 3):
            perm = list(B64STD)
            r.shuffle(perm)
            alpha = bytes(perm)
        elif r.chance(1, 3):
            alpha = B64STD[:62] + bytes([r.choice(b"-_.!*"), r.choice(b",;:#@")])
            if r.chance(1, 2):
                alpha = b"./" + B64STD[52:62] + B64STD[:52]        # the crypt / bcrypt style alphabet: `.` stands for 0
        elif r.chance(1, 2):
            # an alphabet with the characters that mean something in a regular expression, and arbitrary bytes
            pool = list(b"\\^$|()[]*?{},.+}-/ \"'#") + [0x0A, 0x0D, 0x09, 0x7F, 0x80, 0xFF, 0x01] + list(range(0x30, 0x7B))
            seen, al = set(), []
            r.shuffle(pool)
            for c in pool:
                if c not in seen:
                    seen.add(c)
                    al.append(c)
            alpha = bytes(al[:64])
        # make sure the encoded form uses an alphabet slot that holds a regexp metacharacter: append a 3-byte group with that sextet twice
        mslots = [k for k, ch in enumerate(alpha) if ch in b".*+?|()[]{}^$\\-"]
        if mslots and r.chance(2, 3):
            k = r.choice(mslots)
            v = (r.below(64) << 18) | (k << 12) | (r.below(64) << 6) | k
            grp = bytes([(v >> 16) & 255, (v >> 8) & 255, v & 255])
            text = (text + grp) if r.chance(1, 2) else (text[:3 * (len(text) // 3)] + grp + text[3 * (len(text) // 3):])
        # ascii / wide act on the plaintext (it is widened BEFORE being encoded), base64 / base64wide on the encoded form
        tw = r.choice(["", "", "wide", "ascii wide"])
        plaintexts = ([text] if tw != "wide" else []) + ([widen(text)] if tw else [])
        mods = [tw] if tw else []
        if plain:
            mods.append("base64" if alpha == B64STD else 'base64("%s")' % rulegen.yara_escape(alpha))
        if wide:
            mods.append("base64wide" if alpha == B64STD else 'base64wide("%s")' % rulegen.yara_escape(alpha))
        src = 'rule r { strings: $a = "%s" %s condition: $a }' % (rulegen.yara_escape(text), " ".join(mods))
        bufs = []
        for _ in range(5):
            pre = r.bytes(r.below(7))
            post = r.bytes(r.below(7))
            pt = r.choice(plaintexts)
            t = pt if r.chance(4, 5) else pt[:-1] + bytes([pt[-1] ^ 1])
            enc = b64enc(alpha, pre + t + post)
            if r.chance(1, 3):
                enc = enc.rstrip(b"=")
            if wide and (not plain or r.chance(1, 2)):
                enc = b"".join(bytes([c, 0]) for c in enc)
            junk = r.bytes(r.below(5))
            bufs.append(junk + enc + r.bytes(r.below(4)))
        # near misses at the positions where the encoded form holds a character that means something in a regular expression (the
        # forms are compiled as a regexp: an alphabet character that is not escaped there acts as an operator, `.` as a wildcard)
        for lead in (b"", b"x", b"xy"):
            enc = b64enc(alpha, lead + plaintexts[0] + b"zz").rstrip(b"=")
            meta_pos = [j for j, ch in enumerate(enc) if ch in b".*+?|()[]{}^$\\-"]
            if meta_pos:
                j = r.choice(meta_pos)
                repl = r.choice([c for c in (list(alpha) + [0x58, 0x00, 0x0A]) if c != enc[j]])
                bufs.append(b"#" + enc + b"#" + enc[:j] + bytes([repl]) + enc[j + 1:] + b"#")
                chk.add("b64_metachar_near_misses")
        bufs.append(b64enc(alpha, plaintexts[0]))
        bufs.append(b64enc(alpha, b"x" + plaintexts[-1]) + b64enc(alpha, b"xy" + plaintexts[0] + b"z"))
        cases.append(("b%d" % i, ["newcompiler", "add " + hx(src.encode()), "getrules", "scanner 0"] + ["scan " + hx(b) for b in bufs]))
        meta["b%d" % i] = (src, plaintexts, alpha, plain, wide, bufs)
    out, err = vlib.run_cases(hscan, cases, timeout=3000, jobs=16)
    q, order = [], []
    for cid, _ in cases:
        src, plaintexts, alpha, plain, wide, bufs = meta[cid]
        for bi, b in enumerate(bufs):
            for pi, pt in enumerate(plaintexts):
                q.append("b64 %s %s %d %d %s" % ("-" if alpha == B64STD else hx(alpha), hx(pt), plain, wide, hx(b)))
                order.append((cid, bi, pi))
    res, _ = vlib.run_lines(model, q, timeout=3000)
    spec1 = dict(zip(order, res))
    spec = {}
    for (cid, bi, pi), v in spec1.items():          # the string occurs where the forms of any of its plaintexts stand
        spec[(cid, bi)] = (spec.get((cid, bi), "") + ";" + v).strip(";")
    st = {"rules": 0, "rejected_at_compile_time": 0, "scans_compared": 0, "scans_equal": 0, "scans_with_matches": 0, "custom_alphabets": 0, "wide": 0}
    for cid, _ in cases:
        src, plaintexts, alpha, plain, wide, bufs = meta[cid]
        lines = out.get(cid, [])
        scans = [l for l in lines if l.startswith("scan msgs=")]
        if any(l.startswith("crash") for l in lines):
            chk.violation("crash:base64", "compiling/scanning %s crashes" % src[:160], {"rule": src, "output": lines[-4:]})
            continue
        if len(scans) != len(bufs):
            adds = [l for l in lines if l.startswith("add errors=")]
            if adds and adds[0] != "add errors=0":
                st["rejected_at_compile_time"] += 1
                continue
            chk.violation("run", "base64 case did not run: %s" % lines[-3:], {"rule": src}, found_input=False)
            continue
        st["rules"] += 1
        st["custom_alphabets"] += alpha != B64STD
        st["wide"] += wide
        for bi, b in enumerate(bufs):
            mm = re.search(r"[MN]:default:r:([^;]*);", scans[bi])
            impl = []
            if mm:
                for part in mm.group(1).split("|"):
                    if part.startswith("$a="):
                        impl += [tuple(int(x) for x in e.split("/")) for e in part[3:].split(",") if e]
            impl.sort()
            sp = {}
            for ent in spec[(cid, bi)].split(";"):
                if ent:
                    o, ls = ent.split(":")
                    sp[int(o)] = sp.get(int(o), []) + [int(x) for x in ls.split(",")]
            st["scans_compared"] += 1
            io = [e[0] for e in impl]
            bad = None
            if io != sorted(set(io)):
                bad = "offsets not strictly ascending: %s" % io
            elif set(io) != set(sp):
                bad = ("missed occurrence(s) at %s " % sorted(set(sp) - set(io))[:4] if set(sp) - set(io) else "") + \
                      ("extra match(es) at %s" % sorted(set(io) - set(sp))[:4] if set(io) - set(sp) else "")
            else:
                for e in impl:
                    if e[1] not in sp[e[0]]:
                        bad = "offset %d reported with length %d, admissible %s" % (e[0], e[1], sp[e[0]])
                        break
            if bad:
                chk.violation("base64:" + ("missed" if "missed" in bad else "extra" if "extra" in bad else "length"),
                              "%s on a %d-byte buffer: %s" % (src[:200], len(b), bad),
                              {"rule": src, "buffer_hex": hx(b), "impl": impl, "spec": spec[(cid, bi)],
                               "how": "h_scan: newcompiler; add <rule hex>; getrules; scanner 0; scan <buffer_hex>   model: b64 <alphabet> <string> <plain> <wide> <buffer>"})
            else:
                st["scans_equal"] += 1
                st["scans_with_matches"] += bool(sp)
    return st


def run(chk):
    tier = chk.tier
    ok, log, st = vlib.proof_obligations(chk, PROPS)
    if not ok:
        chk.violation("proof", "C01 obligations no longer check: " + log[-1200:], {"log": log[-4000:], "generated": st}, found_input=False)
    hscan = build.harness("h_scan")
    model = vlib.build_model()
    nrules = 100 if tier == "quick" else 1000
    nbuf = 6 if tier == "quick" else 12
    cases = []
    meta = {}
    for i in range(nrules):
        r = chk.rng.fork()
        ns = r.range(1, 4)
        strings = []
        decls = []
        related = r.chance(1, 3)
        base_text = rulegen.rand_text(r, 3, 6)
        for j in range(ns):
            text = rulegen.rand_text(r, 1, 10 if r.chance(4, 5) else 24)
            if related and j > 0:
                # strings sharing prefixes, suffixes and infixes with the first one ("date", "data", "ate"): their atoms share automaton states,
                # failure links and match lists
                k = r.below(5)
                text = [base_text[:-1] + bytes([r.choice(b"aeiou")]), base_text[1:], base_text[:max(1, len(base_text) // 2)] + bytes([r.choice(b"xyz")]),
                        bytes([r.choice(b"xyz")]) + base_text[1:], base_text[-3:]][k]
            elif related:
                text = base_text
            m = rulegen.rand_text_mods(r)
            m["private"] = False
            strings.append((text, m))
            decls.append(rulegen.text_string_decl(r, "$s%d" % j, text, m)[0])
        src = "rule r { strings: %s condition: any of them }" % " ".join(decls)
        bufs = [make_buffer(r, strings, r.choice([1, 2, 3, 8, 31, 64, 100, 257]) if r.chance(1, 3) else r.range(20, 200)) for _ in range(nbuf)]
        # boundary buffers aimed at the fullword / start / end case splits
        t0, m0 = r.choice(strings)
        v = variant_bytes(r, t0, m0)
        for pre, post in ((b"a", b""), (b"", b"Z"), (b" ", b" "), (b"a\0", b""), (b"", b"b\0"), (b"0", b"9"), (b"\0", b"\0a")):
            if r.chance(1, 2):
                bufs.append(pre + v + post)
        bufs.append(v)
        # a string with `fullword`: the ends of every alphanumeric range and the bytes just outside them (0 9 A Z a z and / : @ [ ` {) on either
        # side of an occurrence, as a byte for the narrow form and as a 16-bit character for the wide form
        fw = [(t_, m_) for t_, m_ in strings if m_["fullword"]]
        if fw:
            t1, m1 = fw[0]
            for wide_form in ([False] if not m1["wide"] else [True] if not m1["ascii"] else [False, True]):
                occ = t1 if not wide_form else b"".join(bytes([c, 0]) for c in t1)
                if m1["xor"] is not None:
                    continue
                parts = []
                for nbc in b"09AZaz/:@[`{":
                    nbb = bytes([nbc, 0]) if wide_form else bytes([nbc])
                    parts.append(nbb + occ + b"  " + occ + nbb + b"  ")
                bufs.append(b"  " + b"".join(parts[:6]))
                bufs.append(b"  " + b"".join(parts[6:]))
        if i % 10 == 0:
            bufs.append(b"")
        cmds = ["newcompiler", "add " + hx(src.encode()), "getrules", "save", "scanner 0"] + ["scan " + hx(b) for b in bufs]
        cases.append(("t%d" % i, cmds))
        meta["t%d" % i] = (src, strings, bufs)
    out, err = vlib.run_cases(hscan, cases, timeout=3000, jobs=16)
    mq = []
    order = []
    for cid, _ in cases:
        src, strings, bufs = meta[cid]
        for bi, b in enumerate(bufs):
            for si, (text, m) in enumerate(strings):
                lo, hi = m["xor"] if m["xor"] is not None else ("-", "-")
                mq.append("text %s %s %s %s %s" % (hx(text), mods_flags(m), lo, hi, hx(b)))
                order.append((cid, bi, si))
    mres, _ = vlib.run_lines(model, mq, timeout=3000)
    spec = dict(zip(order, mres))
    # certificate: the atoms the real compiler stored for every string cover the string (Model/TextAtoms.v cover_ok)
    cq, corder = [], []
    for cid, _ in cases:
        src, strings, bufs = meta[cid]
        img = [l for l in out.get(cid, []) if l.startswith("save rc=0 image=")]
        if not img:
            continue
        q = "coverall " + img[0].split("image=")[1]
        for si, (text, m) in enumerate(strings):
            lo, hi = m["xor"] if m["xor"] is not None else ("-", "-")
            q += " %s %s %s %s" % (hx(text), mods_flags(m), lo, hi)
        cq.append(q)
        corder.append(cid)
    cres, _ = vlib.run_lines(model, cq, timeout=3000)
    cert_true = 0
    ncert = 0
    for cid, resl in zip(corder, cres):
        src, strings, bufs = meta[cid]
        parts = resl.split(" | ")
        for si, (text, m) in enumerate(strings):
            ncert += 1
            res = parts[si] if si < len(parts) else resl
            if res.startswith("cover=true") and ("stored=" + hx(text)) in res:
                cert_true += 1
            else:
                chk.violation("cert:cover", "the atoms stored in the compiled image for string %d of %s do not cover the string (cover_ok false): %s"
                              % (si, src[:160], res[:300]), {"rule": src, "string_index": si, "model": res[:2000]}, found_input=False)
    # the automaton certificate ac_cert (premise of the scan theorems) on the smallest images (the check is quadratic in the number of
    # states: xor strings with wide key ranges have thousands)
    imgs = []
    for cid in corder:
        im = [l for l in out.get(cid, []) if l.startswith("save rc=0 image=")]
        if im:
            imgs.append((len(im[0]), cid, im[0].split("image=")[1]))
    imgs.sort()
    nac = 25 if tier == "quick" else 150
    ares, _ = vlib.run_lines(model, ["accert " + x[2] for x in imgs[:nac]], timeout=3000)
    ac_true = 0
    for (ln, cid, im), ar in zip(imgs[:nac], ares):
        if ar.startswith("cert=true"):
            ac_true += 1
        else:
            chk.violation("cert:ac", "the stored automaton of %s does not pass ac_cert: %s" % (meta[cid][0][:160], ar[:200]),
                          {"rule": meta[cid][0], "model": ar[:500]}, found_input=False)
    chk.note(images_checked=len(corder), cert_checked=ncert, cert_true=cert_true, ac_cert_checked=min(nac, len(imgs)), ac_cert_true=ac_true)
    nontriv = set()
    agree = 0
    total = 0
    deferred = []
    dist = {"strings": 0, "nocase": 0, "wide": 0, "xor": 0, "fullword": 0, "with_matches": 0, "multi_variant_offsets": 0}
    for cid, _ in cases:
        src, strings, bufs = meta[cid]
        lines = out.get(cid, [])
        scans = [l for l in lines if l.startswith("scan msgs=")]
        if any(l.startswith("crash") for l in lines) or len(scans) != len(bufs):
            chk.violation("run", "compile/scan failed for %s: %s" % (src[:200], lines[-3:]), {"rule": src, "output": lines[-6:]},
                          found_input=any(l.startswith("crash") for l in lines))
            continue
        for si, (text, m) in enumerate(strings):
            dist["strings"] += 1
            for kname in ("nocase", "wide", "fullword"):
                dist[kname] += 1 if m[kname] else 0
            dist["xor"] += 1 if m["xor"] is not None else 0
        for bi, b in enumerate(bufs):
            mm = re.search(r"[MN]:default:r:([^;]*);", scans[bi])
            per = {}
            if mm:
                for part in mm.group(1).split("|"):
                    if "=" in part:
                        ident, lst = part.split("=", 1)
                        per[ident] = [tuple(int(x) for x in e.split("/")) for e in lst.split(",") if e]
            for si, (text, m) in enumerate(strings):
                total += 1
                impl = per.get("$s%d" % si, [])
                sp = {}
                for ent in spec[(cid, bi, si)].split(";"):
                    if ent:
                        o, lks = ent.split(":")
                        sp[int(o)] = [tuple(int(x) for x in lk.split("/")) for lk in lks.split(",")]
                io = [e[0] for e in impl]
                replay = {"rule": src, "string_hex": hx(text), "mods": {k: v for k, v in m.items()}, "buffer_hex": hx(b),
                          "impl": impl, "spec": spec[(cid, bi, si)],
                          "how": "h_scan: newcompiler; add <rule hex>; getrules; scanner 0; scan <buffer_hex>"}
                bad = None
                if io != sorted(set(io)):
                    bad = "matches not strictly ascending: %s" % io
                elif set(io) != set(sp):
                    missing = sorted(set(sp) - set(io))
                    extra = sorted(set(io) - set(sp))
                    bad = ("missed occurrence(s) at %s" % missing[:4] if missing else "") + (" extra match(es) at %s" % extra[:4] if extra else "")
                else:
                    for e in impl:
                        if (e[1], e[3]) not in sp[e[0]]:
                            bad = "offset %d reported with length/key %d/%d, admissible: %s" % (e[0], e[1], e[3], sp[e[0]])
                            break
                if bad:
                    kind = "missed" if "missed" in bad else "extra" if "extra" in bad else "lenkey"
                    key = "%s:%s" % (kind, "+".join(sorted(k for k in ("nocase", "wide", "fullword", "ascii") if m[k]) + (["xor"] if m["xor"] is not None else [])))
                    if kind == "missed" and "extra" not in bad and 0 in text and m["wide"] and m["fullword"] and (m["ascii"] or m["xor"] is not None):
                        # ascii and wide forms of a string with NUL bytes overlapping at one offset: the form tried first decides (known finding)
                        key = "nul-string-ascii-wide-fullword"
                    msg = "text string %r %s on a %d-byte buffer: %s" % (text, rulegen.mods_to_words(m), len(b), bad)
                    if m["xor"] is not None and kind in ("extra", "lenkey"):
                        # decided after the certificates are known: a string whose key certificate fails and whose scan the model predicts
                        # exactly is the known finding xor-key-outside-range
                        deferred.append((cid, bi, si, key, msg, replay))
                    else:
                        chk.violation(key, msg, replay)
                else:
                    agree += 1
                if sp:
                    dist["with_matches"] += 1
                    nontriv.add((mods_flags(m), m["xor"] is not None, min(len(sp), 3), len(text) <= 4, min(sp) == 0, max(sp) + min(x[0] for x in sp[max(sp)]) == len(b)))
                if any(len(v) > 1 for v in sp.values()):
                    dist["multi_variant_offsets"] += 1
    # ---- the verifier / scan model (Model/Verify.v): certificates of scan_text_sound / scan_text_complete on every image string,
    # and the model's match list (offset, length, key) must be EQUAL to the implementation's
    vstat = verifier_model(chk, model, hscan, cases, meta, out, corder)
    info = getattr(chk, "c01_info", {"unsound": set(), "equal": set()})
    for cid, bi, si, key, msg, replay in deferred:
        if (cid, si) in info["unsound"] and (cid, bi, si) in info["equal"]:
            chk.violation("xor-key-outside-range", msg + " (the key certificate of this string fails and the scan model predicts exactly these matches)", replay)
        else:
            chk.violation(key, msg, replay)
    bstat = base64_part(chk, model, hscan)
    chk.note(evaluations=total, distinct_nontrivial=len(nontriv), traces_validated_against_impl=agree, input_distribution=dist,
             verifier_model=vstat, base64=bstat,
             rule="rules with 1-3 text strings (1..24 bytes over all byte values, every legal modifier combination, xor ranges) x buffers with "
                  "planted variants (offset 0, end, overlapping, near misses, alnum / NUL neighbours, keys outside the range); compared per "
                  "(string, buffer): offsets ascending and equal to the spec's, length/key admissible; distinct = (modifier set, #matches class, "
                  "fits-in-atom, match at 0, match at end)")
    c0 = cases[0][0]
    chk.sample({"rule": meta[c0][0], "buffer_hex": hx(meta[c0][2][0]), "spec": spec[(c0, 0, 0)]})
    chk.sample({"rule": meta[cases[-1][0]][0]})
