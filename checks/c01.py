"""C01: text-string matches are exactly the documented occurrences."""
import re
import vlib, build, rulegen
from vlib import hx, unhx

PROPS = "Props/Properties_C01.v"


def variant_bytes(rng, text, m):
    """one concrete byte rendering of the string under its modifiers (used to plant occurrences)"""
    kinds = []
    if m["ascii"] or not m["wide"]:
        kinds.append("a")
    if m["wide"]:
        kinds.append("w")
    kind = rng.choice(kinds)
    k = 0
    if m["xor"] is not None:
        lo, hi = m["xor"]
        k = rng.range(lo, hi) if rng.chance(9, 10) else rng.below(256)     # sometimes a key outside the range
    t = bytearray(text)
    if m["nocase"]:
        for i in range(len(t)):
            if rng.chance(1, 2) and chr(t[i]).isalpha() and t[i] < 128:
                t[i] ^= 0x20
    if kind == "a":
        return bytes(c ^ k for c in t)
    out = bytearray()
    for c in t:
        out += bytes([c ^ k, k])
    return bytes(out)


def make_buffer(rng, strings, size):
    buf = bytearray(rng.bytes(size) if rng.chance(1, 2) else bytes([rng.choice(b" .\0-azAZ09")]) * size)
    nplant = rng.range(1, 6)
    for _ in range(nplant):
        text, m = rng.choice(strings)
        v = variant_bytes(rng, text, m)
        if rng.chance(1, 6) and len(v) > 1:
            v = v[:-1] + bytes([v[-1] ^ 1])        # near miss
        where = rng.below(5)
        if where == 0:
            pos = 0
        elif where == 1:
            pos = max(0, len(buf) - len(v))
        else:
            pos = rng.below(max(1, len(buf) - len(v) + 1))
        buf[pos:pos + len(v)] = v
        if rng.chance(1, 3):
            # neighbours that matter for fullword
            nb = rng.choice([b"a", b"Z", b"0", b" ", b"\0", b"_", b"a\0", b"\0a"])
            if rng.chance(1, 2) and pos >= len(nb):
                buf[pos - len(nb):pos] = nb
            elif pos + len(v) + len(nb) <= len(buf):
                buf[pos + len(v):pos + len(v) + len(nb)] = nb
        if rng.chance(1, 4):
            # an overlapping second copy
            sh = rng.range(1, max(1, len(v) - 1))
            if pos + sh + len(v) <= len(buf):
                buf[pos + sh:pos + sh + len(v)] = v
    return bytes(buf[:size])


def mods_flags(m):
    return "%d%d%d%d" % (m["ascii"], m["wide"], m["nocase"], m["fullword"])


def run(chk):
    tier = chk.tier
    ok, log, st = vlib.proof_obligations(chk, PROPS)
    if not ok:
        chk.violation("proof", "C01 obligations no longer check: " + log[-1200:], {"log": log[-4000:], "generated": st}, found_input=False)
    hscan = build.harness("h_scan")
    model = vlib.build_model()
    nrules = 100 if tier == "quick" else 1000
    nbuf = 6 if tier == "quick" else 12
    cases = []
    meta = {}
    for i in range(nrules):
        r = chk.rng.fork()
        ns = r.range(1, 4)
        strings = []
        decls = []
        for j in range(ns):
            text = rulegen.rand_text(r, 1, 10 if r.chance(4, 5) else 24)
            m = rulegen.rand_text_mods(r)
            m["private"] = False
            strings.append((text, m))
            decls.append(rulegen.text_string_decl(r, "$s%d" % j, text, m)[0])
        src = "rule r { strings: %s condition: any of them }" % " ".join(decls)
        bufs = [make_buffer(r, strings, r.choice([1, 2, 3, 8, 31, 64, 100, 257]) if r.chance(1, 3) else r.range(20, 200)) for _ in range(nbuf)]
        # boundary buffers aimed at the fullword / start / end case splits
        t0, m0 = r.choice(strings)
        v = variant_bytes(r, t0, m0)
        for pre, post in ((b"a", b""), (b"", b"Z"), (b" ", b" "), (b"a\0", b""), (b"", b"b\0"), (b"0", b"9"), (b"\0", b"\0a")):
            if r.chance(1, 2):
                bufs.append(pre + v + post)
        bufs.append(v)
        if i % 10 == 0:
            bufs.append(b"")
        cmds = ["newcompiler", "add " + hx(src.encode()), "getrules", "save", "scanner 0"] + ["scan " + hx(b) for b in bufs]
        cases.append(("t%d" % i, cmds))
        meta["t%d" % i] = (src, strings, bufs)
    out, err = vlib.run_cases(hscan, cases, timeout=3000)
    mq = []
    order = []
    for cid, _ in cases:
        src, strings, bufs = meta[cid]
        for bi, b in enumerate(bufs):
            for si, (text, m) in enumerate(strings):
                lo, hi = m["xor"] if m["xor"] is not None else ("-", "-")
                mq.append("text %s %s %s %s %s" % (hx(text), mods_flags(m), lo, hi, hx(b)))
                order.append((cid, bi, si))
    mres, _ = vlib.run_lines(model, mq, timeout=3000)
    spec = dict(zip(order, mres))
    # certificate: the atoms the real compiler stored for every string cover the string (Model/TextAtoms.v cover_ok)
    cq, corder = [], []
    for cid, _ in cases:
        src, strings, bufs = meta[cid]
        img = [l for l in out.get(cid, []) if l.startswith("save rc=0 image=")]
        if not img:
            continue
        q = "coverall " + img[0].split("image=")[1]
        for si, (text, m) in enumerate(strings):
            lo, hi = m["xor"] if m["xor"] is not None else ("-", "-")
            q += " %s %s %s %s" % (hx(text), mods_flags(m), lo, hi)
        cq.append(q)
        corder.append(cid)
    cres, _ = vlib.run_lines(model, cq, timeout=3000)
    cert_true = 0
    ncert = 0
    for cid, resl in zip(corder, cres):
        src, strings, bufs = meta[cid]
        parts = resl.split(" | ")
        for si, (text, m) in enumerate(strings):
            ncert += 1
            res = parts[si] if si < len(parts) else resl
            if res.startswith("cover=true") and ("stored=" + hx(text)) in res:
                cert_true += 1
            else:
                chk.violation("cert:cover", "the atoms stored in the compiled image for string %d of %s do not cover the string (cover_ok false): %s"
                              % (si, src[:160], res[:300]), {"rule": src, "string_index": si, "model": res[:2000]}, found_input=False)
    chk.note(images_checked=len(corder), cert_checked=ncert, cert_true=cert_true)
    nontriv = set()
    agree = 0
    total = 0
    dist = {"strings": 0, "nocase": 0, "wide": 0, "xor": 0, "fullword": 0, "with_matches": 0, "multi_variant_offsets": 0}
    for cid, _ in cases:
        src, strings, bufs = meta[cid]
        lines = out.get(cid, [])
        scans = [l for l in lines if l.startswith("scan msgs=")]
        if any(l.startswith("crash") for l in lines) or len(scans) != len(bufs):
            chk.violation("run", "compile/scan failed for %s: %s" % (src[:200], lines[-3:]), {"rule": src, "output": lines[-6:]},
                          found_input=any(l.startswith("crash") for l in lines))
            continue
        for si, (text, m) in enumerate(strings):
            dist["strings"] += 1
            for kname in ("nocase", "wide", "fullword"):
                dist[kname] += 1 if m[kname] else 0
            dist["xor"] += 1 if m["xor"] is not None else 0
        for bi, b in enumerate(bufs):
            mm = re.search(r"[MN]:default:r:([^;]*);", scans[bi])
            per = {}
            if mm:
                for part in mm.group(1).split("|"):
                    if "=" in part:
                        ident, lst = part.split("=", 1)
                        per[ident] = [tuple(int(x) for x in e.split("/")) for e in lst.split(",") if e]
            for si, (text, m) in enumerate(strings):
                total += 1
                impl = per.get("$s%d" % si, [])
                sp = {}
                for ent in spec[(cid, bi, si)].split(";"):
                    if ent:
                        o, lks = ent.split(":")
                        sp[int(o)] = [tuple(int(x) for x in lk.split("/")) for lk in lks.split(",")]
                io = [e[0] for e in impl]
                replay = {"rule": src, "string_hex": hx(text), "mods": {k: v for k, v in m.items()}, "buffer_hex": hx(b),
                          "impl": impl, "spec": spec[(cid, bi, si)],
                          "how": "h_scan: newcompiler; add <rule hex>; getrules; scanner 0; scan <buffer_hex>"}
                bad = None
                if io != sorted(set(io)):
                    bad = "matches not strictly ascending: %s" % io
                elif set(io) != set(sp):
                    missing = sorted(set(sp) - set(io))
                    extra = sorted(set(io) - set(sp))
                    bad = ("missed occurrence(s) at %s" % missing[:4] if missing else "") + (" extra match(es) at %s" % extra[:4] if extra else "")
                else:
                    for e in impl:
                        if (e[1], e[3]) not in sp[e[0]]:
                            bad = "offset %d reported with length/key %d/%d, admissible: %s" % (e[0], e[1], e[3], sp[e[0]])
                            break
                if bad:
                    kind = "missed" if "missed" in bad else "extra" if "extra" in bad else "lenkey"
                    chk.violation("%s:%s" % (kind, "+".join(sorted(k for k in ("nocase", "wide", "fullword", "ascii") if m[k]) + (["xor"] if m["xor"] is not None else []))),
                                  "text string %r %s on a %d-byte buffer: %s" % (text, rulegen.mods_to_words(m), len(b), bad), replay)
                else:
                    agree += 1
                if sp:
                    dist["with_matches"] += 1
                    nontriv.add((mods_flags(m), m["xor"] is not None, min(len(sp), 3), len(text) <= 4, min(sp) == 0, max(sp) + min(x[0] for x in sp[max(sp)]) == len(b)))
                if any(len(v) > 1 for v in sp.values()):
                    dist["multi_variant_offsets"] += 1
    chk.note(evaluations=total, distinct_nontrivial=len(nontriv), traces_validated_against_impl=agree, input_distribution=dist,
             rule="rules with 1-3 text strings (1..24 bytes over all byte values, every legal modifier combination, xor ranges) x buffers with "
                  "planted variants (offset 0, end, overlapping, near misses, alnum / NUL neighbours, keys outside the range); compared per "
                  "(string, buffer): offsets ascending and equal to the spec's, length/key admissible; distinct = (modifier set, #matches class, "
                  "fits-in-atom, match at 0, match at end)")
    c0 = cases[0][0]
    chk.sample({"rule": meta[c0][0], "buffer_hex": hx(meta[c0][2][0]), "spec": spec[(c0, 0, 0)]})
    chk.sample({"rule": meta[cases[-1][0]][0]})
