"""C06: parallel-table families.  Aimed at the pattern "table A is bounded by the count of table B": for every
(count field, table pointer) pair of the PE parsers (exports, imports, delayed imports, debug directory, resources,
certificates) and of elf.c (symbol tables, their string tables, the dynamic segment) files are generated in which ONE
table is the last thing in the file -- ending exactly at the end of the data, or 1/2 bytes before or after its declared
extent -- while the counts of its neighbours are larger/smaller, terminators are missing, and strings are unterminated.
Scanned right-aligned against a PROT_NONE page, left-aligned after one, and as an exact-size heap object under ASan.

PEs are synthesised (one section, RVA 0x1000 -> file offset 0x200, so every RVA is under control); ELF tables are copied
to the end of real samples and their headers re-pointed."""
import struct

SEC_RVA, SEC_OFF = 0x1000, 0x200


def w16(v):
    return struct.pack("<H", v & 0xffff)


def w32(v):
    return struct.pack("<I", v & 0xffffffff)


def w64(v):
    return struct.pack("<Q", v & 0xffffffffffffffff)


class Layout:
    """body items laid out in order (the pinned one last); fill callbacks see the final RVAs / offsets"""

    def __init__(self, pe64=False):
        self.items = []
        self.pe64 = pe64
        self.dirs = {}

    def add(self, name, size, fill):
        self.items.append((name, size, fill))

    def build(self, pinned, delta):
        """delta < 0: the file ends -delta bytes before the end of the pinned item; delta > 0: that many 0xCC bytes follow it"""
        items = [i for i in self.items if i[0] != pinned] + [i for i in self.items if i[0] == pinned]
        off, pos = {}, SEC_OFF
        for name, size, _ in items:
            off[name] = pos
            pos += size
        end = pos
        rva = {n: SEC_RVA + o - SEC_OFF for n, o in off.items()}
        body = b""
        for name, size, fill in items:
            b = fill(rva, off)
            assert len(b) == size, (name, len(b), size)
            body += b
        flen = end + delta
        hdr = self.header(flen, rva, off)
        f = hdr + body
        if delta < 0:
            f = f[:flen]
        else:
            f += b"\xcc" * delta
        return f, off, rva

    def header(self, flen, rva, off):
        h = bytearray(SEC_OFF)
        h[0:2] = b"MZ"
        h[0x3c:0x40] = w32(0x40)
        h[0x40:0x44] = b"PE\0\0"
        fh = 0x44
        ohs = 0xF0 if self.pe64 else 0xE0
        h[fh:fh + 2] = w16(0x8664 if self.pe64 else 0x14c)
        h[fh + 2:fh + 4] = w16(1)
        h[fh + 16:fh + 18] = w16(ohs)
        h[fh + 18:fh + 20] = w16(0x2022 if self.pe64 else 0x2102)
        oh = fh + 20
        h[oh:oh + 2] = w16(0x20b if self.pe64 else 0x10b)
        if self.pe64:
            h[oh + 24:oh + 32] = w64(0x180000000)
        else:
            h[oh + 28:oh + 32] = w32(0x10000000)
        h[oh + 32:oh + 36] = w32(0x1000)
        h[oh + 36:oh + 40] = w32(0x200)
        h[oh + 40:oh + 42] = w16(4)
        h[oh + 48:oh + 50] = w16(4)
        h[oh + 56:oh + 60] = w32(0x200000)
        h[oh + 60:oh + 64] = w32(0x200)
        h[oh + 68:oh + 70] = w16(2)
        nrva = oh + (108 if self.pe64 else 92)
        h[nrva:nrva + 4] = w32(16)
        dd = nrva + 4
        for idx, (item, size, as_offset) in self.dirs.items():
            h[dd + 8 * idx:dd + 8 * idx + 4] = w32(off[item] if as_offset else rva[item])
            h[dd + 8 * idx + 4:dd + 8 * idx + 8] = w32(size)
        sh = oh + ohs
        h[sh:sh + 8] = b".data\0\0\0"
        h[sh + 8:sh + 12] = w32(0x100000)
        h[sh + 12:sh + 16] = w32(SEC_RVA)
        h[sh + 16:sh + 20] = w32(max(flen - SEC_OFF, 0) + 0x1000)     # raw size reaches past the end of the file: the file end decides
        h[sh + 20:sh + 24] = w32(SEC_OFF)
        h[sh + 36:sh + 40] = w32(0x40000040)
        return bytes(h)


def cstr(s, terminated=True):
    return s + (b"\0" if terminated else b"")


# ------------------------------------------------------------------ exports
def exports_layout(nfun, nnames, pf, pn, po, term_strings=True):
    """declared counts nfun/nnames; physical entries pf/pn/po in the function / name / ordinal tables"""
    L = Layout()
    nstr = max(min(pn, 8), 1)
    L.add("edir", 40, lambda r, o: w32(0) + w32(0x5f000000) + w32(0) + w32(r["dllname"]) + w32(1) + w32(nfun) + w32(nnames) +
          w32(r["funcs"]) + w32(r["names"]) + w32(r["ords"]))
    L.add("dllname", 9 if term_strings else 8, lambda r, o: cstr(b"demo.dll", term_strings))
    L.add("funcs", 4 * pf, lambda r, o: b"".join(w32(r["dllname"] if i == 1 else 0x2000 + 0x10 * i) for i in range(pf)))
    L.add("names", 4 * pn, lambda r, o: b"".join(w32(r["namestrs"] + 8 * (i % nstr)) for i in range(pn)))
    L.add("ords", 2 * po, lambda r, o: b"".join(w16(i) for i in range(po)))
    L.add("namestrs", 8 * nstr - (0 if term_strings else 1),
          lambda r, o: b"".join(b"fn%05d\0" % i for i in range(nstr))[:8 * nstr - (0 if term_strings else 1)])
    L.dirs[0] = ("edir", 0x1000, False)
    return L


def exports_family():
    out = []
    counts = [(64, 1), (4, 2), (2, 4), (1, 1), (3, 3), (4096, 1), (2000, 2000), (16384, 1), (16385, 2), (0xffffffff, 1), (70000, 3), (5, 0), (0, 5), (300, 299),
              (2, 0xffffffff), (0x80000000, 0x80000000)]
    for nfun, nnames in counts:
        cf, cn = min(nfun, 16384), min(nnames, min(nfun, 16384))
        phys = {"ords": sorted({cn, cf, 1} - {0}), "funcs": sorted({cf, cn, 1} - {0}), "names": sorted({cn, min(nnames, 300), 1} - {0})}
        for pinned in ("ords", "funcs", "names", "namestrs", "dllname", "edir"):
            for pcount in phys.get(pinned, [None]):
                pf, pn, po = min(cf, 600) or 1, min(cn, 300) or 1, min(cf, 600) or 1
                if pinned == "ords":
                    po = pcount
                elif pinned == "funcs":
                    pf = pcount
                elif pinned == "names":
                    pn = pcount
                if max(pf, pn, po) > 4096:
                    continue      # a table that really has 16384 entries makes the parser's quadratic look-up run for seconds under ASan
                for delta in (0, -1, -2, 1, 2, -3, 4):
                    for term in ((True, False) if pinned in ("namestrs", "dllname") else (True,)):
                        L = exports_layout(nfun, nnames, pf, pn, po, term)
                        f, off, rva = L.build(pinned, delta)
                        out.append(("exports", "exports: NumberOfFunctions=%#x NumberOfNames=%#x, physical entries functions=%d names=%d ordinals=%d; "
                                    "%s table is last, file ends %+d bytes after it%s" % (nfun, nnames, pf, pn, po, pinned, delta,
                                                                                       "" if term else ", strings unterminated"), f))
    return out


# ------------------------------------------------------------------ imports / delayed imports
def imports_layout(pe64, delayed, ndesc, nthunk, term_desc, term_thunk, term_str, declared_size=None):
    L = Layout(pe64)
    tw = 8 if pe64 else 4
    tpack = w64 if pe64 else w32
    ordflag = (1 << 63) if pe64 else (1 << 31)
    dsz = 32 if delayed else 20

    def descs(r, o):
        b = b""
        for d in range(ndesc):
            if delayed:
                b += w32(1) + w32(r["dll%d" % d]) + w32(0) + w32(r["iat%d" % d]) + w32(r["ilt%d" % d]) + w32(0) + w32(0) + w32(0)
            else:
                b += w32(r["ilt%d" % d]) + w32(0) + w32(0) + w32(r["dll%d" % d]) + w32(r["iat%d" % d])
        return b + (b"\0" * dsz if term_desc else b"")
    L.add("descs", dsz * (ndesc + (1 if term_desc else 0)), descs)
    for d in range(ndesc):
        L.add("dll%d" % d, 11 + (1 if term_str else 0), (lambda dd: lambda r, o: cstr(b"lib%05d.dl" % dd, term_str))(d))

        def thunks(r, o, dd=d):
            b = b""
            for k in range(nthunk):
                b += tpack(ordflag | (k + 1)) if k % 3 == 1 else tpack(r["hn%d_%d" % (dd, k)])
            return b + (b"\0" * tw if term_thunk else b"")
        L.add("ilt%d" % d, tw * (nthunk + (1 if term_thunk else 0)), thunks)
        L.add("iat%d" % d, tw * (nthunk + (1 if term_thunk else 0)), thunks)
        for k in range(nthunk):
            L.add("hn%d_%d" % (d, k), 2 + 6 + (1 if term_str else 0), (lambda kk: lambda r, o: w16(kk) + cstr(b"F%05d" % kk, term_str))(k))
    L.dirs[13 if delayed else 1] = ("descs", declared_size if declared_size is not None else dsz * (ndesc + 1), False)
    return L


def imports_family():
    out = []
    for delayed in (False, True):
        for pe64 in (False, True):
            for ndesc, nthunk in ((1, 1), (2, 3), (3, 2)):
                last = ndesc - 1
                pins = [("descs", "descriptor array"), ("ilt%d" % last, "name thunk table"), ("iat%d" % last, "address thunk table"),
                        ("dll%d" % last, "dll name"), ("hn%d_%d" % (last, nthunk - 1), "hint/name entry"),
                        ("hn%d_0" % last, "hint/name entry 0")]
                for pinned, pname in pins:
                    for term in (False, True):
                        for delta in (0, -1, -2, 1, 2, -5):
                            if term and delta >= 0 and pinned != "descs":
                                continue      # a terminated table followed by the end of the file is the well-formed case: keep one
                            L = imports_layout(pe64, delayed, ndesc, nthunk, term_desc=term or pinned != "descs",
                                               term_thunk=term or not pinned.startswith(("ilt", "iat")),
                                               term_str=term or not pinned.startswith(("dll", "hn")),
                                               declared_size=0xffff if delta == -5 else None)
                            f, off, rva = L.build(pinned, delta)
                            out.append(("imports", "%s%s: %d descriptor(s) x %d thunks; %s is last%s, file ends %+d bytes after it"
                                        % ("delayed imports" if delayed else "imports", " (PE32+)" if pe64 else "", ndesc, nthunk, pname,
                                           "" if term else " and has no terminator", delta), f))
    return out


# ------------------------------------------------------------------ debug directory
def debug_family():
    out = []
    for kind, cv in (("RSDS", b"RSDS" + bytes(range(16)) + w32(1)), ("NB10", b"NB10" + w32(0) + w32(0x5f000000) + w32(1)), ("MTOC", b"MTOC" + bytes(16))):
        for nent, declared_extra in ((1, 0), (2, 0), (2, 28), (1, 28 * 1000)):
            for pinned in ("dbg", "cv"):
                for term in (False, True):
                    for delta in (0, -1, -2, 1, 2):
                        L = Layout()
                        path = cstr(b"C:\\x\\demo.pdb", term)
                        L.add("dbg", 28 * nent, lambda r, o, n=nent, p=path, c=cv: b"".join(
                            w32(0) + w32(0x5f000000) + w16(0) + w16(0) + w32(2) + w32(len(c) + len(p) + (50 if i else 0)) + w32(r["cv"]) + w32(o["cv"])
                            for i in range(n)))
                        L.add("cv", len(cv) + len(path), lambda r, o, c=cv, p=path: c + p)
                        L.dirs[6] = ("dbg", 28 * nent + declared_extra, False)
                        f, off, rva = L.build(pinned, delta)
                        out.append(("debug", "debug directory: %d entries (declared size %d), %s record, pdb path %s; %s is last, file ends %+d bytes after it"
                                    % (nent, 28 * nent + declared_extra, kind, "terminated" if term else "unterminated",
                                       "directory" if pinned == "dbg" else "CodeView record", delta), f))
    return out


# ------------------------------------------------------------------ resources
def resources_family():
    out = []

    def rdir(named, ids, entries):
        return w32(0) + w32(0) + w16(0) + w16(0) + w16(named) + w16(ids) + b"".join(entries)
    key = "VS_VERSION_INFO".encode("utf-16le") + b"\0\0"
    for extra_named, extra_ids in ((0, 0), (1, 0), (0, 1), (100, 0), (0, 0xffff), (0xffff, 0xffff)):
        for name_len_lie in (0, 1, 0x7fff):
            for data_size_lie in (0, 1, 0x10000, 0xffffffff):
                if (extra_named or extra_ids) and (name_len_lie or data_size_lie):
                    continue
                for pinned in ("root", "typedir", "namedir", "langdir", "dentry", "namestr", "data"):
                    if name_len_lie and pinned != "namestr":
                        continue
                    if data_size_lie and pinned not in ("data", "dentry"):
                        continue
                    for delta in (0, -1, -2, 1, 2):
                        L = Layout()
                        base = lambda r: r["root"]
                        ename = "RESNAME".encode("utf-16le")
                        vdata = w16(92) + w16(52) + w16(0) + key + b"\0\0" + w32(0xfeef04bd) + b"\0" * 48
                        L.add("root", 16 + 16, lambda r, o: rdir(1 + extra_named, 1 + extra_ids, [
                            w32(0x80000000 | (r["namestr"] - base(r))) + w32(0x80000000 | (r["typedir"] - base(r))),
                            w32(16) + w32(0x80000000 | (r["typedir"] - base(r)))]))
                        L.add("typedir", 16 + 8, lambda r, o: rdir(extra_named, 1 + extra_ids, [w32(1) + w32(0x80000000 | (r["namedir"] - base(r)))]))
                        L.add("namedir", 16 + 8, lambda r, o: rdir(extra_named, 1 + extra_ids, [w32(0x409) + w32(0x80000000 | (r["langdir"] - base(r)))]))
                        L.add("langdir", 16 + 8, lambda r, o: rdir(extra_named, 1 + extra_ids, [w32(0x409) + w32(r["dentry"] - base(r))]))
                        L.add("dentry", 16, lambda r, o: w32(r["data"]) + w32(len(vdata) + data_size_lie) + w32(0) + w32(0))
                        L.add("namestr", 2 + len(ename), lambda r, o: w16(len(ename) // 2 + name_len_lie) + ename)
                        L.add("data", len(vdata), lambda r, o: vdata)
                        L.dirs[2] = ("root", 0x1000, False)
                        f, off, rva = L.build(pinned, delta)
                        out.append(("resources", "resources: directory counts +%d named +%d id beyond the physical entries, name length +%d, data size +%#x; "
                                    "%s is last, file ends %+d bytes after it" % (extra_named, extra_ids, name_len_lie, data_size_lie, pinned, delta), f))
    return out


def resource_loops_family():
    """resource directory trees whose sub-directory offsets point back to a parent, to themselves or at each other"""
    out = []

    def rdir(named, ids, entries):
        return w32(0) + w32(0) + w16(0) + w16(0) + w16(named) + w16(ids) + b"".join(entries)
    targets = {"root": "root", "typedir": "typedir", "namedir": "namedir", "langdir": "langdir"}
    for t_type in ("typedir", "root", "namedir"):
        for t_name in ("namedir", "root", "typedir", "langdir"):
            for t_lang in ("dentry", "root", "typedir", "namedir", "langdir"):
                if (t_type, t_name, t_lang) == ("typedir", "namedir", "dentry"):
                    continue
                for width in (1, 40):
                    L = Layout()
                    base = lambda r: r["root"]
                    sub = lambda r, n: w32(0x80000000 | (r[n] - base(r)))
                    L.add("root", 16 + 8 * width, lambda r, o, a=t_type, w=width: rdir(0, w, [w32(16 + i) + sub(r, a) for i in range(w)]))
                    L.add("typedir", 16 + 8 * width, lambda r, o, a=t_name, w=width: rdir(0, w, [w32(1 + i) + sub(r, a) for i in range(w)]))
                    L.add("namedir", 16 + 8 * width, lambda r, o, a=t_lang, w=width: rdir(0, w, [
                        w32(0x409) + (w32(r["dentry"] - base(r)) if a == "dentry" else sub(r, a)) for i in range(w)]))
                    L.add("langdir", 16 + 8, lambda r, o: rdir(0, 1, [w32(0x409) + sub(r, "root")]))
                    L.add("dentry", 16, lambda r, o: w32(r["root"]) + w32(64) + w32(0) + w32(0))
                    L.dirs[2] = ("root", 0x1000, False)
                    f, off, rva = L.build("dentry", 8)
                    out.append(("resource-loops", "resources: %d entries per directory; root entries -> %s, type-level entries -> %s, name-level entries -> %s "
                                "(sub-directory offsets that loop back)" % (width, t_type, t_name, t_lang), f))
    return out


# ------------------------------------------------------------------ certificates (security directory: file offset)
def certs_family():
    out = []
    der = bytes.fromhex("3082010a06092a864886f70d010702a081fc3081f9020101310b300906052b0e03021a0500") + bytes(range(200))
    for ncert in (1, 2):
        for len_lie in (0, 1, 7, 8, -1, -8, 0x7fffffff, 0xffffffff - 207):
            for dir_lie in (0, 8, 0x10000, -4):
                if len_lie and dir_lie:
                    continue
                for delta in (0, -1, -2, 1, 8):
                    L = Layout()
                    clen = 8 + len(der)
                    L.add("filler", 64, lambda r, o: b"\x90" * 64)
                    L.add("certs", clen * ncert, lambda r, o: b"".join(
                        w32(clen + (len_lie if i == ncert - 1 else 0)) + w16(0x0200) + w16(2) + der for i in range(ncert)))
                    L.dirs[4] = ("certs", clen * ncert + dir_lie, True)
                    f, off, rva = L.build("certs", delta)
                    out.append(("certificates", "security directory: %d WIN_CERTIFICATE(s), last dwLength %+d, directory size %+d; table is last, "
                                "file ends %+d bytes after it" % (ncert, len_lie, dir_lie, delta), f))
    return out


def base_pe(pe64=False):
    """a well-formed synthetic DLL with exports, imports, delayed imports, debug directory and resources: the base sample"""
    L = exports_layout(6, 4, 6, 4, 4)
    I = imports_layout(pe64, False, 2, 3, True, True, True)
    L.pe64 = pe64
    for name, size, fill in I.items:
        L.add("i_" + name, size, (lambda fl: lambda r, o: fl({k[2:]: v for k, v in r.items() if k.startswith("i_")},
                                                            {k[2:]: v for k, v in o.items() if k.startswith("i_")}))(fill))
    L.dirs[1] = ("i_descs", 60, False)
    f, _, _ = L.build("namestrs", 16)
    return f


# ------------------------------------------------------------------ "minimum size before a header is parsed"
def synth_elf(is64, be, with_tables=True):
    """a minimal ELF: header, one program header, one section header"""
    e = ">" if be else "<"
    ident = b"\x7fELF" + bytes([2 if is64 else 1, 2 if be else 1, 1, 0]) + bytes(8)
    if is64:
        ehs, phs, shs = 64, 56, 64
        hdr = ident + struct.pack(e + "HHIQQQIHHHHHH", 2, 62, 1, 0x400000 + ehs, ehs if with_tables else 0, ehs + phs if with_tables else 0, 0,
                                  ehs, phs, 1 if with_tables else 0, shs, 1 if with_tables else 0, 0)
        ph = struct.pack(e + "IIQQQQQQ", 1, 5, 0, 0x400000, 0x400000, ehs + phs + shs, ehs + phs + shs, 0x1000)
        sh = struct.pack(e + "IIQQQQIIQQ", 0, 3, 0, 0, ehs, 8, 0, 0, 1, 0)
    else:
        ehs, phs, shs = 52, 32, 40
        hdr = ident + struct.pack(e + "HHIIIIIHHHHHH", 2, 3, 1, 0x8048000 + ehs, ehs if with_tables else 0, ehs + phs if with_tables else 0, 0,
                                  ehs, phs, 1 if with_tables else 0, shs, 1 if with_tables else 0, 0)
        ph = struct.pack(e + "IIIIIIII", 1, 0, 0x8048000, 0x8048000, ehs + phs + shs, ehs + phs + shs, 5, 0x1000)
        sh = struct.pack(e + "IIIIIIIIII", 0, 3, 0, 0, ehs, 8, 0, 0, 1, 0)
    return hdr + (ph + sh if with_tables else b"")


def elf_header_cases():
    """every (class, byte order): the minimal file cut at every length from 16 bytes to just past its tables"""
    out = []
    for is64 in (False, True):
        for be in (False, True):
            for tables in (True, False):
                f = synth_elf(is64, be, tables)
                top = len(f) + 2 if tables else 72
                for n in range(16, top + 1):
                    g = f[:n] if n <= len(f) else f + b"\xcc" * (n - len(f))
                    out.append(("elf-headers", "synthetic ELF%d %s-endian %s, %d bytes long (header is %d bytes)"
                                % (64 if is64 else 32, "big" if be else "little", "with one program and one section header" if tables else "header only",
                                   n, 64 if is64 else 52), g))
    return out


def pe_header_cases():
    """the synthetic DLLs cut at every length across the DOS header, the NT headers (32/64) and the section table; and with e_lfanew
    moved so that the NT headers straddle the end of the file"""
    out = []
    for pe64 in (False, True):
        f = base_pe(pe64)
        nt = 0x40
        end = nt + 24 + (0xF0 if pe64 else 0xE0) + 40
        for n in range(56, end + 10):
            out.append(("pe-headers", "synthetic %s cut to %d bytes (DOS header 64, NT headers at 0x40 are %d bytes, section table ends at %d)"
                        % ("PE32+" if pe64 else "PE32", n, 24 + (0xF0 if pe64 else 0xE0), end), f[:n]))
        nth = f[nt:end]
        L = 0x300
        for k in sorted({0, 1, 2, 3, 4, 5, 6, 8, 23, 24, 25, 26, 27, 28, 24 + 95, 24 + 96, 24 + 97, 24 + 111, 24 + 112, 24 + 113, 24 + 0xE0 - 1, 24 + 0xE0, 24 + 0xE0 + 1,
                         24 + 0xF0 - 1, 24 + 0xF0, 24 + 0xF0 + 1, len(nth) - 41, len(nth) - 40, len(nth) - 39, len(nth) - 1, len(nth), len(nth) + 1}):
            g = bytearray(f[:0x40] + b"\0" * (L - 0x40) + nth)
            g[0x3c:0x40] = w32(L - k)
            g[L - k:L - k + len(nth)] = nth
            out.append(("pe-headers", "synthetic %s: e_lfanew = file size - %d (the NT headers straddle the end of the file)" % ("PE32+" if pe64 else "PE32", k), bytes(g[:L])))
        for v, vn in ((0xffffffff, "0xffffffff"), (0x7fffffff, "0x7fffffff"), (len(f), "file size"), (len(f) - 1, "file size - 1"), (0x3c, "0x3c (itself)"), (0, "0")):
            g = bytearray(f)
            g[0x3c:0x40] = w32(v)
            out.append(("pe-headers", "synthetic %s: e_lfanew = %s" % ("PE32+" if pe64 else "PE32", vn), bytes(g)))
    return out


# ------------------------------------------------------------------ count-from-file containers driven past their growth steps
def _vs_string(key, value):
    k = key.encode("utf-16le") + b"\0\0"
    v = value.encode("utf-16le") + b"\0\0"
    body = k
    body += b"\0" * ((-(6 + len(body))) % 4)
    ln = 6 + len(body) + len(v)
    return w16(ln) + w16(len(value) + 1) + w16(1) + body + v + b"\0" * ((-ln) % 4)


def version_info_blob(n):
    strings = b"".join(_vs_string("k%d" % i, "v%d" % i) for i in range(n))
    tkey = "040904b0".encode("utf-16le") + b"\0\0"
    table = w16(6 + len(tkey) + len(strings)) + w16(0) + w16(1) + tkey + strings      # 24-byte header, strings follow aligned
    skey = "StringFileInfo".encode("utf-16le") + b"\0\0"
    sfi = w16(6 + len(skey) + len(table)) + w16(0) + w16(1) + skey + table            # 36-byte header
    rkey = "VS_VERSION_INFO".encode("utf-16le") + b"\0\0"
    fixed = w32(0xfeef04bd) + w32(0x10000) + b"\0" * 44
    root_hdr = w16(0) + w16(52) + w16(0) + rkey + b"\0\0" + fixed                     # 6 + 32 + 2 pad + 52 = 92
    total = len(root_hdr) + len(sfi)
    return w16(min(total, 0xffff)) + root_hdr[2:] + sfi


def _rdir(named, ids, entries):
    return w32(0) + w32(0) + w16(0) + w16(0) + w16(named) + w16(ids) + b"".join(entries)


def growth_cases():
    """[(family, description, file, rule source)]: well-formed files whose counts drive every dictionary / array the modules fill from the
    scanned bytes past its growth steps (64, 128, 256, ...); the rules read the entries around the steps and the last one back"""
    out = []
    steps = (1, 63, 64, 65, 127, 128, 129, 193, 194, 300, 1000)

    def around(n):
        return sorted({i for i in (0, 62, 63, 64, 65, 126, 127, 128, 129, 191, 192, 193, 194, 255, 256, 257, 511, 512, n - 2, n - 1) if 0 <= i < n})
    for n in steps:
        # pe.version_info (dictionary) and pe.version_info_list (array)
        data = version_info_blob(n)
        L = Layout()
        base = lambda r: r["root"]
        L.add("root", 24, lambda r, o: _rdir(0, 1, [w32(16) + w32(0x80000000 | (r["typedir"] - base(r)))]))
        L.add("typedir", 24, lambda r, o: _rdir(0, 1, [w32(1) + w32(0x80000000 | (r["namedir"] - base(r)))]))
        L.add("namedir", 24, lambda r, o: _rdir(0, 1, [w32(0x409) + w32(r["dentry"] - base(r))]))
        L.add("dentry", 16, lambda r, o, d=data: w32(r["data"]) + w32(len(d)) + w32(0) + w32(0))
        L.add("data", len(data), lambda r, o, d=data: d)
        L.dirs[2] = ("root", 0x1000, False)
        f, _, _ = L.build("data", 16)
        conds = ["pe.number_of_version_infos == %d" % n] + \
                ['pe.version_info["k%d"] == "v%d" and pe.version_info_list[%d].key == "k%d" and pe.version_info_list[%d].value == "v%d"' % (i, i, i, i, i, i)
                 for i in around(n)]
        out.append(("growth", "PE32 with a version resource of %d strings k<i>=v<i> (pe.version_info dictionary, pe.version_info_list array)" % n, f,
                    'import "pe"\n' + "\n".join("rule g%d { condition: %s }" % (j, c) for j, c in enumerate(conds))))
        # pe.export_details
        L = exports_layout(n, n, n, n, n)
        f, _, _ = L.build("namestrs", 16)
        nstr = max(min(n, 8), 1)
        conds = ["pe.number_of_exports == %d" % n] + ['pe.export_details[%d].ordinal == %d and pe.export_details[%d].name == "fn%05d"' % (i, i + 1, i, i % nstr)
                                                       for i in around(n) if i != 1]
        out.append(("growth", "PE32 with %d named exports (pe.export_details array)" % n, f,
                    'import "pe"\n' + "\n".join("rule g%d { condition: %s }" % (j, c) for j, c in enumerate(conds))))
        # pe.import_details[0].functions
        L = imports_layout(False, False, 1, n, True, True, True)
        f, _, _ = L.build("descs", 16)
        conds = ["pe.number_of_imports == 1 and pe.import_details[0].number_of_functions == %d" % n] + \
                [('pe.import_details[0].functions[%d].ordinal == %d' % (i, i + 1)) if i % 3 == 1 else ('pe.import_details[0].functions[%d].name == "F%05d"' % (i, i))
                 for i in around(n)]
        out.append(("growth", "PE32 importing %d functions from one library (import_details[0].functions array)" % n, f,
                    'import "pe"\n' + "\n".join("rule g%d { condition: %s }" % (j, c) for j, c in enumerate(conds))))
        # pe.resources
        L = Layout()
        L.add("root", 24, lambda r, o: _rdir(0, 1, [w32(10) + w32(0x80000000 | (r["typedir"] - r["root"]))]))
        L.add("typedir", 16 + 8 * n, lambda r, o, n=n: _rdir(0, n, [w32(i + 1) + w32(0x80000000 | (r["langs"] + 24 * i - r["root"])) for i in range(n)]))
        L.add("langs", 24 * n, lambda r, o, n=n: b"".join(_rdir(0, 1, [w32(0x409) + w32(r["dentries"] + 16 * i - r["root"])]) for i in range(n)))
        L.add("dentries", 16 * n, lambda r, o, n=n: b"".join(w32(r["payload"]) + w32(4 + i % 5) + w32(0) + w32(0) for i in range(n)))
        L.add("payload", 16, lambda r, o: b"PAYLOADPAYLOAD\0\0")
        L.dirs[2] = ("root", 0x100000, False)
        f, _, _ = L.build("payload", 16)
        conds = ["pe.number_of_resources == %d" % n] + ["pe.resources[%d].id == %d and pe.resources[%d].length == %d and pe.resources[%d].type == 10" % (i, i + 1, i, 4 + i % 5, i)
                                                        for i in around(n)]
        out.append(("growth", "PE32 with %d resources of one type (pe.resources array)" % n, f,
                    'import "pe"\n' + "\n".join("rule g%d { condition: %s }" % (j, c) for j, c in enumerate(conds))))
    # ELF64 little-endian with n sections and n symbols
    for n in (65, 129, 300, 1000):
        names = b"\0.shstrtab\0.symtab\0.strtab\0sec\0"
        symnames = b"\0" + b"".join(b"s%05d\0" % i for i in range(n))
        ehs, shs = 64, 64
        shoff = ehs
        strtab_off = shoff + shs * n
        symtab_off = strtab_off + len(names)
        symstr_off = symtab_off + 24 * n
        hdr = b"\x7fELF" + bytes([2, 1, 1, 0]) + bytes(8) + struct.pack("<HHIQQQIHHHHHH", 2, 62, 1, 0x400000, 0, shoff, 0, ehs, 56, 0, shs, n, 1)

        def sh(name, ty, off, size, link=0, entsize=0):
            return struct.pack("<IIQQQQIIQQ", name, ty, 0, 0x400000 + off, off, size, link, 0, 1, entsize)
        shdrs = sh(0, 0, 0, 0) + sh(1, 3, strtab_off, len(names)) + sh(11, 2, symtab_off, 24 * n, 3, 24) + sh(19, 3, symstr_off, len(symnames))
        shdrs += b"".join(sh(27, 1, ehs, 4 + i) for i in range(4, n))
        syms = b"".join(struct.pack("<IBBHQQ", 1 + 7 * i, 0x12, 0, 1, 0x400000 + i, 8) for i in range(n))
        f = hdr + shdrs + names + syms + symnames
        conds = ["elf.number_of_sections == %d and elf.symtab_entries == %d" % (n, n)] + \
                ['elf.symtab[%d].name == "s%05d" and elf.symtab[%d].value == %d' % (i, i, i, 0x400000 + i) for i in around(n)] + \
                ['elf.sections[%d].size == %d' % (i, 4 + i) for i in around(n) if i >= 4]
        out.append(("growth", "ELF64 with %d sections and %d symbols (elf.sections, elf.symtab arrays)" % (n, n), f,
                    'import "elf"\n' + "\n".join("rule g%d { condition: %s }" % (j, c) for j, c in enumerate(conds))))
    return out


def pe_cases(rng, quick):
    """[(family, description, file bytes)] ; the quick tier keeps every export case and a stratified part of the others"""
    ex = exports_family()
    rest = []
    for fam in (imports_family, debug_family, resources_family, resource_loops_family, certs_family):
        cases = fam()
        if quick:
            rng.shuffle(cases)
            cases = cases[:170]
        rest += cases
    if quick and len(ex) > 520:
        # always: the ordinal/function/name tables at every delta for the asymmetric counts; the rest sampled
        keep = [c for c in ex if (" table is last" in c[1] and ("ords table" in c[1] or "funcs table" in c[1] or "names table" in c[1])
                                  and ("ends +0 " in c[1] or "ends -1 " in c[1] or "ends -2 " in c[1] or "ends +1 " in c[1]))]
        other = [c for c in ex if c not in keep]
        rng.shuffle(other)
        ex = keep + other[:max(0, 520 - len(keep))]
    return ex + rest + pe_header_cases()


# ------------------------------------------------------------------ ELF: tables copied to the end of a real sample
def elf_cases(name, b, rng, quick):
    """[(description, commands)] for one little-endian ELF sample"""
    if b[:4] != b"\x7fELF" or b[5] != 1:
        return []
    is64 = b[4] == 2
    F = len(b)
    out = []
    if is64:
        shoff, shnum, shs = struct.unpack_from("<Q", b, 40)[0], struct.unpack_from("<H", b, 60)[0], 64
        phoff, phnum, phs = struct.unpack_from("<Q", b, 32)[0], struct.unpack_from("<H", b, 56)[0], 56
    else:
        shoff, shnum, shs = struct.unpack_from("<I", b, 32)[0], struct.unpack_from("<H", b, 48)[0], 40
        phoff, phnum, phs = struct.unpack_from("<I", b, 28)[0], struct.unpack_from("<H", b, 44)[0], 32
    W = 8 if is64 else 4
    pk = w64 if is64 else w32

    def sec(i):
        o = shoff + shs * i
        if o + shs > F:
            return None
        ty = struct.unpack_from("<I", b, o + 4)[0]
        if is64:
            so, ssz = struct.unpack_from("<QQ", b, o + 24)
            link = struct.unpack_from("<I", b, o + 40)[0]
            return dict(hdr=o, type=ty, off=so, size=ssz, link=link, f_off=o + 24, f_size=o + 32)
        so, ssz = struct.unpack_from("<II", b, o + 16)
        link = struct.unpack_from("<I", b, o + 24)[0]
        return dict(hdr=o, type=ty, off=so, size=ssz, link=link, f_off=o + 16, f_size=o + 20)
    symsz = 24 if is64 else 16
    dynsz = 16 if is64 else 8
    for i in range(min(shnum, 64)):
        s = sec(i)
        if not s or s["off"] + s["size"] > F or s["size"] == 0:
            continue
        if s["type"] in (2, 11):      # SYMTAB / DYNSYM
            n = min(s["size"] // symsz, 6)
            tab = b[s["off"]:s["off"] + n * symsz]
            for claim in (n * symsz, (n + 1) * symsz, n * symsz + 1, n * symsz - 1, (n + 64) * symsz, 0xffffffff):
                out.append(("elf section %d (type %d): first %d symbols copied to the end of the file, sh_size := %#x (physical %#x)"
                            % (i, s["type"], n, claim, n * symsz),
                            ["append " + tab.hex(), "patch %d %s" % (s["f_off"], pk(F).hex()), "patch %d %s" % (s["f_size"], pk(claim).hex())]))
            st = sec(s["link"]) if s["link"] < shnum else None
            if st and st["type"] == 3 and st["off"] + st["size"] <= F and st["size"] > 2:
                strs = b[st["off"]:st["off"] + st["size"]].rstrip(b"\0")      # no terminating NUL at the end of the file
                for claim in (len(strs), len(strs) + 1, len(strs) + 2, 0xffff):
                    for nameoff in (None, len(strs) - 1, len(strs), len(strs) + 1):
                        cmds = ["append " + strs.hex(), "patch %d %s" % (st["f_off"], pk(F).hex()), "patch %d %s" % (st["f_size"], pk(claim).hex())]
                        if nameoff is not None and s["size"] >= 2 * symsz:
                            cmds.append("patch %d %s" % (s["off"] + symsz, w32(nameoff).hex()))       # st_name of symbol 1
                        out.append(("elf section %d (string table of section %d): copied to the end of the file without its final NUL, "
                                    "sh_size := %#x (physical %#x)%s" % (s["link"], i, claim, len(strs),
                                                                          "" if nameoff is None else ", st_name of symbol 1 := %#x" % nameoff), cmds))
    # sh_link of the symbol tables: to itself, to the other symbol table, to section 0, one past the last section, 0xffff
    symsecs = [i for i in range(min(shnum, 64)) if sec(i) and sec(i)["type"] in (2, 11)]
    for i in symsecs:
        s = sec(i)
        lo = s["hdr"] + (40 if is64 else 24)
        for tgt, tname in [(i, "itself")] + [(j, "symbol table %d" % j) for j in symsecs if j != i] + [(0, "section 0"), (shnum, "one past the last section"),
                                                                                                    (0xffff, "0xffff"), (max(shnum - 1, 0), "the last section")]:
            out.append(("elf section %d (type %d): sh_link := %s" % (i, s["type"], tname), ["patch %d %s" % (lo, w32(tgt).hex())]))
    # the section-name string table index
    for v, vn in ((0, "0"), (shnum, "e_shnum"), (0xffff, "0xffff")) + tuple((i, "symbol table %d" % i) for i in symsecs[:1]):
        out.append(("elf e_shstrndx := %s" % vn, ["patch %d %s" % (62 if is64 else 50, w16(v).hex())]))
    for i in range(min(phnum, 32)):
        o = phoff + phs * i
        if o + phs > F or struct.unpack_from("<I", b, o)[0] != 2:      # PT_DYNAMIC
            continue
        if is64:
            po, psz = struct.unpack_from("<Q", b, o + 8)[0], struct.unpack_from("<Q", b, o + 32)[0]
            f_off, f_sz = o + 8, o + 32
        else:
            po, psz = struct.unpack_from("<I", b, o + 4)[0], struct.unpack_from("<I", b, o + 16)[0]
            f_off, f_sz = o + 4, o + 16
        if po + psz > F or psz < dynsz:
            continue
        ents = []
        for k in range(psz // dynsz):
            tag = struct.unpack_from("<Q" if is64 else "<I", b, po + k * dynsz)[0]
            if tag == 0:
                break
            ents.append(b[po + k * dynsz:po + (k + 1) * dynsz])
        tab = b"".join(ents[:8])      # no DT_NULL
        for claim in (len(tab), len(tab) + dynsz, len(tab) + 1, len(tab) - 1, len(tab) + 100 * dynsz, 0xffffffff):
            for cut in (0, 1, W):
                cmds = ["append " + tab[:len(tab) - cut].hex(), "patch %d %s" % (f_off, pk(F).hex()), "patch %d %s" % (f_sz, pk(claim).hex())]
                out.append(("elf PT_DYNAMIC (segment %d): %d entries without DT_NULL copied to the end of the file (last entry cut by %d), "
                            "p_filesz := %#x" % (i, len(ents[:8]), cut, claim), cmds))
    if quick and len(out) > 110:
        rng.shuffle(out)
        out = out[:110]
    return out
