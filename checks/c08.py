"""C08: saved rules behave identically once loaded."""
import re
import vlib, build, rulegen
from vlib import hx, unhx

PROPS = "Props/Properties_C08.v"


def strip_rc(l):
    return l


def run(chk):
    tier = chk.tier
    ok, log, st = vlib.proof_obligations(chk, PROPS)
    if not ok:
        chk.violation("proof", "C08 obligations no longer check: " + log[-1200:], {"log": log[-4000:], "generated": st}, found_input=False)
    hscan = build.harness("h_scan")
    model = vlib.build_model()
    n = 40 if tier == "quick" else 400
    cases, meta = [], {}
    for i in range(n):
        r = chk.rng.fork()
        cmds, d = rulegen.rand_ruleset(r, nrules=r.range(1, 5))
        texts = re.findall(r'= "((?:[^"\\]|\\.)*)"', "".join(s for _, s in d["sources"]))
        bufs = []
        for _ in range(3):
            size = r.range(0, 160)
            buf = bytearray(r.bytes(size) if r.chance(1, 2) else bytes(r.choice(b"abcxyz 019") for _ in range(size)))
            for t in texts[:4]:
                try:
                    v = bytes(t, "latin-1").decode("unicode_escape").encode("latin-1")
                except Exception:
                    v = b"abc"
                if r.chance(2, 3) and 0 < len(v) <= size:
                    p = r.below(size - len(v) + 1)
                    buf[p:p + len(v)] = v
            bufs.append(bytes(buf))
        scans = ["scan " + hx(b) for b in bufs]
        # original: scan, save, scan again (still usable), dump; loaded copy: dump, scan
        cases.append(("a%d" % i, cmds + ["getrules", "dump", "scanner 0"] + scans + ["save"] + scans +
                      ["reload", "use loaded", "dump", "scanner 1"] + scans))
        # a second process state: different heap layout before compiling
        cases.append(("b%d" % i, ["junk %d %d" % (r.range(1, 50), r.choice([24, 100, 4096, 70000]))] + cmds + ["getrules", "save"]))
        meta[i] = (d, bufs)
    # dense automata: a state with children for the extreme byte values (00, FF) declared first, then k one-byte strings that fill the
    # packed transition table; sweeping k moves that state over every slot position relative to the end of the table (what is written
    # to the spare capacity of a buffer is not saved)
    dense = []
    for step in ((2,) if tier == "quick" else (1, 2, 3)):
        for k in range(1, 254 // step):
            vals = [0xfe - step * j for j in range(k)]
            pfx = 1 if tier == "quick" else chk.rng.choice([1, 0x41])
            src = ("rule dense { strings: $x0 = { %02X 00 } $x1 = { %02X FF } %s condition: any of them }\n"
                   % (pfx, pfx, " ".join("$l%02x = { %02X }" % (v, v) for v in vals)))
            buf = bytes([0x20, pfx, 0x00, 0x20, pfx, 0xFF, 0x20]) + bytes(vals[:3]) + bytes([vals[-1]])
            dense.append((src, buf))
            cases.append(("d%d" % (len(dense) - 1), ["newcompiler", "add " + hx(src.encode()), "getrules", "scanner 0", "scan " + hx(buf), "save", "reload",
                                                     "use loaded", "scanner 1", "scan " + hx(buf)]))
    out, err = vlib.run_cases(hscan, cases, timeout=3000, jobs=16)
    dense_ok = 0
    for j, (src, buf) in enumerate(dense):
        ld = out.get("d%d" % j, [])
        sc = [l for l in ld if l.startswith("scan msgs=")]
        replay = {"sources": [src], "buffer_hex": hx(buf), "output_tail": [l[:300] for l in ld[-4:]],
                  "how": "h_scan: newcompiler; add <source>; getrules; scanner 0; scan <buffer>; save; reload; use loaded; scanner 1; scan <buffer>"}
        if any(l.startswith("crash") for l in ld):
            chk.violation("crash", "save/load/scan of a dense rule set crashes: %s" % [l for l in ld if l.startswith("crash")][:1], replay)
        elif len(sc) != 2 or "reload rc=0" not in ld:
            chk.violation("norun", "dense scenario did not run to the end: %s" % ld[-3:], replay, found_input=False)
        elif sc[0] != sc[1]:
            chk.violation("loaded-scan", "loaded rules report differently (rule with %d one-byte strings after two strings with 00/FF edges): original %s ; loaded %s"
                          % (src.count("$l"), sc[0][:200], sc[1][:200]), replay)
        elif "$x0=1/2/2/0,|" not in sc[0] or "$x1=4/2/2/0,|" not in sc[0]:
            chk.violation("dense-reference", "the strings with 00/FF edges are not both found exactly once by the original rules: %s" % sc[0][:300], replay)
        else:
            dense_ok += 1
    chk.note(dense_automata=len(dense), dense_agree=dense_ok)
    certq, certid = [], []
    agree = 0
    nontriv = set()
    rejected = 0
    for i in range(n):
        d, bufs = meta[i]
        la = out.get("a%d" % i, [])
        lb = out.get("b%d" % i, [])
        replay = {"sources": d["sources"], "externals": d["externals"], "buffers_hex": [hx(b) for b in bufs], "output_tail": la[-4:]}
        if any(l.startswith("crash") for l in la + lb):
            chk.violation("crash", "save/load/scan crashes: %s" % [l for l in la + lb if l.startswith("crash")][:2], replay)
            continue
        if any(l.startswith("getrules skipped") for l in la):
            rejected += 1
            continue
        sc = [l for l in la if l.startswith("scan msgs=")]
        dumps = [l for l in la if l.startswith("dump ")]
        imgs_a = [l for l in la if l.startswith("save rc=0 image=")]
        imgs_b = [l for l in lb if l.startswith("save rc=0 image=")]
        k = len(bufs)
        if len(sc) != 3 * k or len(dumps) != 2 or not imgs_a or not imgs_b or "reload rc=0" not in la:
            chk.violation("norun", "scenario did not run to the end: %s" % la[-4:], replay, found_input=False)
            continue
        before, after, loaded = sc[:k], sc[k:2 * k], sc[2 * k:]
        if before != after:
            j = next(x for x in range(k) if before[x] != after[x])
            chk.violation("original-after-save", "the original rules behave differently after being saved: %s vs %s" % (before[j][:200], after[j][:200]),
                          dict(replay, buffer_hex=hx(bufs[j])))
            continue
        if loaded != before:
            j = next(x for x in range(k) if before[x] != loaded[x])
            chk.violation("loaded-scan", "loaded rules report differently: original %s ; loaded %s" % (before[j][:300], loaded[j][:300]),
                          dict(replay, buffer_hex=hx(bufs[j])))
            continue
        if dumps[0] != dumps[1]:
            chk.violation("loaded-metadata", "tags/metas/externals differ after load: %s vs %s" % (dumps[0][:300], dumps[1][:300]), replay)
            continue
        ia, ib = imgs_a[0].split("image=")[1], imgs_b[0].split("image=")[1]
        if ia != ib:
            chk.violation("address-dependent-bytes", "the same rules saved from two different heap layouts give different bytes (%d vs %d bytes)"
                          % (len(ia) // 2, len(ib) // 2), dict(replay, image_a=ia[:4000], image_b=ib[:4000]))
            continue
        agree += 1
        nontriv.add((len(d["sources"]), len(d["externals"]), any("M:" in l for l in before)))
        if (len(ia) // 2) <= 60000:       # the model loader's overlap test is quadratic in the number of relocations
            certq.append("imgcert " + ia)
            certid.append(i)
        else:
            chk.add("cert_skipped_large_images")
    cres, _ = vlib.run_lines(model, certq, timeout=3000)
    cert_true = 0
    for i, r_ in zip(certid, cres):
        if r_ == "load=ok wf=true layout=true roundtrip=true":
            cert_true += 1
        else:
            chk.violation("cert:image", "saved image fails the certificate (model loader / wf_arena / layout_cert / model save): %s" % r_,
                          {"sources": meta[i][0]["sources"], "model": r_}, found_input=False)
    chk.note(evaluations=2 * n, distinct_nontrivial=len(nontriv), traces_validated_against_impl=agree, images_checked=len(certq), cert_true=cert_true,
             rejected_at_compile_time=rejected,
             rule="generated rule sets (text/hex/regex strings, chained strings, several namespaces, externals of every type, imports, tags, metas, "
                  "private/global rules): scan 3 buffers, save, scan again, reload from the saved bytes, compare dump and scans of the loaded copy; "
                  "the same rules compiled after shifting the heap must save byte-identical images; every image must load in the model, be "
                  "wf_arena, pass layout_cert and be reproduced byte for byte by the model's save; distinct = (#sources, #externals, any match)")
    chk.sample({"sources": meta[0][0]["sources"], "externals": meta[0][0]["externals"]})
