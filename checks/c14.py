"""C14: hash, math and string module functions compute their definitions.

Proof part: Props/Properties_C14.v (range walker, cache transparency, crc32 table = bitwise, checksum32,
distribution/count/mode, unsigned min/max, abs, string.to_int round trip) over Model/ModRange.v.
Tie: the extracted model predicts, for every (presentation of a buffer as memory blocks, offset, length),
what each of the ten copies of the range loop returns; rules `hash.crc32(OFF, LEN) == <model value>` /
`not defined hash.md5(OFF, LEN)` ... are compiled in batches and scanned by the real library; every rule must match.
MD5/SHA1/SHA256 of the addressed bytes come from Python's hashlib (libcrypto is trusted by the theorems, tested here).
The float statistics are TESTS (reference = the mathematical definition evaluated in Python on the addressed bytes,
compared within a tolerance), not theorems."""
import os, re, math, hashlib, zlib, subprocess, shutil, tempfile, fcntl
import vlib, build
from vlib import hx

PROPS = "Props/Properties_C14.v"
IMPORTS = 'import "hash"\nimport "math"\nimport "string"\n'
MIN, MAX = -2 ** 63, 2 ** 63 - 1
UNDEF = -1483400188077313          # (int64) YR_UNDEFINED
ALGS = ["md5", "sha1", "sha256"]
# one entry per copy of the loop in the sources (math.entropy/mean/deviation/count/percentage/mode share get_distribution)
LOOPS = ["md5", "sha1", "sha256", "crc32", "checksum32", "distribution", "serial_correlation", "monte_carlo_pi"]
PROBE = {"md5": "hash.md5(3,0)", "sha1": "hash.sha1(3,0)", "sha256": "hash.sha256(3,0)", "crc32": "hash.crc32(3,0)",
         "checksum32": "hash.checksum32(3,0)", "distribution": "math.mode(3,0)",
         "serial_correlation": "math.serial_correlation(3,0)"}


# ------------------------------------------------------------------ private model runner (only this property's part)
def model_runner():
    coq = vlib.COQ
    part = os.path.join(coq, "Extract", "parts", "40_modrange.txt")
    names, reqs = [], []
    for line in open(part):
        if line.startswith("names:"):
            names += line[6:].split()
        elif line.startswith("require:"):
            reqs += line[8:].split()
    od = os.path.join(vlib.VERIF, "ocaml")
    frags = [os.path.join(od, "prelude.ml"), os.path.join(od, "cmds", "40_modrange.ml"), os.path.join(od, "main.ml")]
    h = hashlib.sha256()
    for f in [part, os.path.join(coq, "Model", "ModRange.v"), os.path.join(coq, "Model", "ModRangeExtract.v"),
              os.path.join(coq, "Base", "Bytes.v"), os.path.join(coq, "Base", "CSem.v"),
              os.path.join(coq, "gen", "GenConsts.v")] + frags:
        h.update(open(f, "rb").read())
    d = os.path.join(build.CACHE, "c14model-" + h.hexdigest()[:16])
    out = os.path.join(d, "model_runner")
    if os.path.exists(out):
        return out
    scratch = tempfile.mkdtemp(prefix="verif-c14m.", dir=build.scratch_root())
    lock = vlib.coq_lock()
    try:
        v = ("Require Extraction.\nRequire Import ExtrOcamlBasic.\nFrom YV Require Import %s.\n"
             "Extraction \"model.ml\" %s.\n" % (" ".join(reqs), " ".join(names)))
        open(os.path.join(scratch, "X.v"), "w").write(v)
        p = subprocess.run(["coqc", "-R", coq, "YV", "-w", "-all", "X.v"], cwd=scratch, stdout=subprocess.PIPE,
                           stderr=subprocess.STDOUT, text=True, timeout=600)
        if p.returncode != 0:
            raise vlib.CoqError("C14 extraction failed:\n" + p.stdout[-3000:])
    finally:
        fcntl.flock(lock, fcntl.LOCK_UN)
        lock.close()
    try:
        open(os.path.join(scratch, "driver.ml"), "w").write("open Model\n" + "\n".join(open(f).read() for f in frags))
        p = subprocess.run(["ocamlfind", "ocamlopt", "-inline", "50", "-w", "-a", "-o", "model_runner", "model.mli",
                            "model.ml", "driver.ml"], cwd=scratch, stdout=subprocess.PIPE, stderr=subprocess.STDOUT, text=True)
        if p.returncode != 0:
            raise vlib.CoqError("C14 ocaml build failed:\n" + p.stdout[-3000:])
        os.makedirs(d, exist_ok=True)
        shutil.copy2(os.path.join(scratch, "model_runner"), out + ".tmp%d" % os.getpid())
        os.rename(out + ".tmp%d" % os.getpid(), out)
    finally:
        shutil.rmtree(scratch, ignore_errors=True)
    return out


# ------------------------------------------------------------------ helpers
def lit(v):
    if v == MIN:
        return "(-9223372036854775807 - 1)"
    return "(%d)" % v if v < 0 else "%d" % v


def ystr(b):
    return '"' + "".join("\\x%02x" % c for c in b) + '"'


def flit(x):
    s = "%.12f" % abs(x)
    return "(-%s)" % s if x < 0 else s


def blocks_arg(blocks):
    return ",".join("%d:%s" % (b, hx(d)) for b, d in blocks) if blocks else "-"


def kv(line):
    return dict(x.split("=", 1) for x in line.split())


def parse_dist(s):
    if s == "undef":
        return None
    d = {}
    if s != "0":
        for t in s.strip(",").split(","):
            a, b = t.split(":")
            d[int(a)] = int(b)
    return d


# reference definitions of the float statistics (unsigned bytes, the addressed range as ONE sequence)
def ref_entropy(b):
    if not b:
        return 0.0
    e = 0.0
    for c in set(b):
        p = b.count(c) / len(b)
        e -= p * math.log2(p)
    return e


def ref_mean(b):
    return sum(b) / len(b) if b else None


def ref_deviation(b, mean):
    return sum(abs(x - mean) for x in b) / len(b) if b else None


def ref_serial(b):
    n = len(b)
    t1 = sum(b[i] * b[(i + 1) % n] for i in range(n)) if n else 0
    t2 = sum(b) ** 2
    t3 = sum(x * x for x in b)
    scc = n * t3 - t2
    return -100000.0 if scc == 0 else (n * t1 - t2) / scc


def ref_monte(b):
    m = len(b) // 6
    if m == 0:
        return None
    inc = 0
    for k in range(m):
        g = b[6 * k:6 * k + 6]
        x = (g[0] << 16) | (g[1] << 8) | g[2]
        y = (g[3] << 16) | (g[4] << 8) | g[5]
        if x * x + y * y <= (256 ** 3 - 1) ** 2:
            inc += 1
    return abs((4.0 * inc / m - math.pi) / math.pi)


def monte_value(counts):
    """fabs((4.0 * inmont / mcount - PI) / PI) from the model's integer core "mcount/inmont"; None = undefined"""
    m, i = (int(x) for x in counts.split("/"))
    return None if m == 0 else abs((4.0 * (i / m) - math.pi) / math.pi)


def py_counts(b):
    m = len(b) // 6
    inc = 0
    for k in range(m):
        g = b[6 * k:6 * k + 6]
        x = (g[0] << 16) | (g[1] << 8) | g[2]
        y = (g[3] << 16) | (g[4] << 8) | g[5]
        inc += x * x + y * y <= (256 ** 3 - 1) ** 2
    return "%d/%d" % (m, inc)


def float_rule(expr, ref, rel=1e-9):
    if ref is None:
        return "not defined %s" % expr
    tol = rel * max(1.0, abs(ref)) + 1e-11
    return "(%s >= %s and %s <= %s)" % (expr, flit(ref - tol), expr, flit(ref + tol))


class Batch:
    """rules of one compile+scan; every rule is expected to match."""

    def __init__(self, cid, scan_cmds):
        self.cid, self.scan_cmds, self.rules = cid, scan_cmds, []

    def add(self, cond, key, info):
        self.rules.append((cond, key, info))

    def case(self):
        src = IMPORTS + "\n".join("rule r%d { condition: %s }" % (i, c) for i, (c, _, _) in enumerate(self.rules))
        return (self.cid, ["newcompiler", "strings 0", "add " + hx(src.encode()), "getrules", "scanner 0"] + self.scan_cmds)


def run_batches(chk, hscan, batches, stats):
    batches = [b for b in batches if b.rules]
    out, err = vlib.run_cases(hscan, [b.case() for b in batches], timeout=1800)
    for b in batches:
        lines = out.get(b.cid, [])
        sc = [l for l in lines if l.startswith("scan msgs=")]
        if not sc or any(l.startswith("crash") for l in lines) or "rc=0" not in sc[0].rsplit(" ", 2)[-2] + sc[0].rsplit(" ", 1)[-1]:
            cbs = [bytes.fromhex(l.split("msg=")[1]).decode("latin-1") for l in lines if l.startswith("cb ") and "msg=" in l and l.split("msg=")[1] != "-"]
            chk.violation("run:" + b.cid.split("-")[0], "batch %s did not compile/scan: %s %s" % (b.cid, lines[-3:], cbs[:2]),
                          {"batch": b.cid, "scan": b.scan_cmds, "first_rules": [r[0] for r in b.rules[:5]], "output": lines[-6:], "compile_messages": cbs[:5]},
                          found_input=any(l.startswith("crash") for l in lines))
            continue
        matched = set(re.findall(r"M:default:r(\d+)", sc[0]))
        for i, (cond, key, info) in enumerate(b.rules):
            stats["evaluations"] += 1
            if str(i) in matched:
                stats["agree"] += 1
            else:
                what = "%s: the rule `%s` predicted by the model/reference does not match on the implementation (%s)" % (key, cond, info.get("why", ""))
                chk.violation(key, what, dict(info, rule=cond, scan=b.scan_cmds, imports=IMPORTS))


# ------------------------------------------------------------------ the check
def run(chk):
    thorough = chk.tier == "thorough"
    ok, log, st = vlib.proof_obligations(chk, PROPS, extra_targets=["Model/ModRangeExtract.vo"])
    if not ok:
        chk.violation("proof", "C14 obligations no longer check: " + log[-1200:], {"theorems": PROPS, "log": log[-4000:]}, found_input=False)
    hscan = build.harness("h_scan")
    model = model_runner()
    stats = {"evaluations": 0, "agree": 0}
    classes = set()
    rng = chk.rng

    def mq(lines):
        res, _ = vlib.run_lines(model, lines, timeout=1800)
        bad = [r for r in res[:len(lines)] if r.startswith(("unknown", "exception", "usage"))]
        if bad:
            raise RuntimeError("model runner: " + bad[0])
        return res[:len(lines)]

    # ---- tie of the crc table: the model's table is the table in hash.c
    src = open(os.path.join(build.REPO, "libyara/modules/hash/hash.c"), encoding="latin-1").read()
    m = re.search(r"crc32_tab\[\]\s*=\s*\{(.*?)\};", src, re.S)
    tab_src = [int(x, 16) for x in re.findall(r"0x[0-9a-fA-F]+", m.group(1))] if m else []
    tab_model = [int(x) for x in mq(["c14tab"])[0].split(",")]
    if tab_src != tab_model:
        diff = [i for i in range(min(len(tab_src), len(tab_model))) if tab_src[i] != tab_model[i]]
        chk.violation("crc-table", "crc32_tab[] in hash.c differs from the table the theorem crc32_table_eq_bitwise is about (entries %s, %d vs %d entries)"
                      % (diff[:4], len(tab_src), len(tab_model)), {"entries": diff[:16]}, found_input=False)

    # ---- the model is the current code (fixd = true: `if (past_first_block && ...) break;`).  The witness of
    # addressed_bytes_exact_refuted (pinned 4.5.2 loop) is replayed on every loop copy: a copy that still behaves
    # like the pinned variant is a violation (and then also disagrees with the model in the grids below).
    two = [(0, b"abc"), (3, b"def")]
    scan2 = ["blocks - " + " ".join("%d:%s" % (b, hx(d)) for b, d in two), "scanblocks"]
    names = list(PROBE)
    psrc = IMPORTS + "\n".join("rule p%d { condition: defined %s }" % (i, PROBE[n]) for i, n in enumerate(names))
    out, _ = vlib.run_cases(hscan, [("probe", ["newcompiler", "strings 0", "add " + hx(psrc.encode()), "getrules", "scanner 0"] + scan2)])
    sc = [l for l in out.get("probe", []) if l.startswith("scan msgs=")]
    fx = {n: True for n in LOOPS}
    got = set(re.findall(r"M:default:p(\d+)", sc[0])) if sc else set()
    old = [n for i, n in enumerate(names) if str(i) not in got]
    stats["evaluations"] += len(names)
    stats["agree"] += len(names) - len(old)
    if old:
        chk.violation("zero-length-at-block-boundary",
                      "a zero-length range starting exactly where a later memory block starts is undefined (%s; blocks 0:'abc', 3:'def': `defined %s` is false) "
                      "while the same bytes scanned as one block give the value for the empty range: the loop behaves like the pinned 4.5.2 variant "
                      "(theorem addressed_bytes_exact_refuted), not like the model of the current code (addressed_bytes_exact_partition)" % (", ".join(old), PROBE[old[0]]),
                      {"blocks": [[0, "616263"], [3, "646566"]], "rules": ["defined " + PROBE[n] for n in old], "single_block_result": "defined"})
    chk.note(loop_variant={n: ("pinned-4.5.2" if n in old else "current") for n in LOOPS})

    def fxs(n):
        return "1" if fx.get(n, False) else "0"

    # ---- per (presentation, off, len): rules for every loop copy
    def range_rules(batch, blocks, off, len_, models, tag, extra_float):
        """models: {loopname: kv dict from c14r with that loop's variant}"""
        a = "%s, %s" % (lit(off), lit(len_))
        info0 = {"blocks": [[b, d.hex()] for b, d in blocks], "off": off, "len": len_, "presentation": tag}
        for alg in ALGS:
            mb = models[alg]["bytes"]
            expr = "hash.%s(%s)" % (alg, a)
            if mb == "undef":
                batch.add("not defined " + expr, "range:" + alg, dict(info0, why="model: undefined"))
            else:
                dg = hashlib.new(alg, vlib.unhx(mb)).hexdigest()
                batch.add('%s == "%s"' % (expr, dg), "range:" + alg, dict(info0, why="model: bytes " + mb))
        for fn, fld in (("crc32", "crc"), ("checksum32", "sum")):
            v = models[fn][fld]
            expr = "hash.%s(%s)" % (fn, a)
            batch.add(("not defined " + expr) if v == "undef" else "%s == %s" % (expr, v), "range:" + fn, dict(info0, why="model: " + v))
        md = models["distribution"]
        dist = parse_dist(md["dist"])
        batch.add(("not defined math.mode(%s)" % a) if dist is None else "math.mode(%s) == %s" % (a, md["mode"]), "range:mode", dict(info0, why="model: " + md["mode"]))
        byte = (max(dist, key=lambda k: (dist[k], k)) if dist else blocks[0][1][0] if blocks and blocks[0][1] else 0)
        batch.add(("not defined math.count(%d, %s)" % (byte, a)) if dist is None else "math.count(%d, %s) == %d" % (byte, a, dist.get(byte, 0)),
                  "range:count", dict(info0, why="model distribution"))
        # float statistics: tests against the definition on the addressed bytes
        for fn in ("serial_correlation", "monte_carlo_pi"):
            mb = models[fn]["bytes"]
            expr = "math.%s(%s)" % (fn, a)
            if mb == "undef":
                r = None
            elif fn == "serial_correlation":
                r = ref_serial(list(vlib.unhx(mb)))
            else:
                r = monte_value(models[fn]["monte"])          # integer core from the model (theorem monte_carlo_data_exact)
                if models[fn]["monte"] != py_counts(vlib.unhx(mb)) or r != ref_monte(list(vlib.unhx(mb))):
                    chk.violation("model-monte", "model monte carlo counts differ from the Python reference on %s" % mb, {"bytes": mb}, found_input=False)
            nb = 0 if mb == "undef" else len(vlib.unhx(mb))
            first = [(b0, d0) for b0, d0 in blocks if b0 <= off < b0 + len(d0)]
            crossing = nb > 0 and bool(first) and off + nb > first[0][0] + len(first[0][1])
            batch.add(float_rule(expr, r), ("float:%s" % fn) + (":multiblock" if crossing else ""), dict(info0, why="reference %r" % r))
        if extra_float:
            mb = md["bytes"]
            bs = None if mb == "undef" else list(vlib.unhx(mb))
            batch.add(float_rule("math.entropy(%s)" % a, None if bs is None else ref_entropy(bs)), "float:entropy", dict(info0, why="reference"))
            batch.add(float_rule("math.mean(%s)" % a, None if bs is None else ref_mean(bs)), "float:mean", dict(info0, why="reference"))
            batch.add(float_rule("math.deviation(%s, 100.5)" % a, None if bs is None else ref_deviation(bs, 100.5)), "float:deviation", dict(info0, why="reference"))
            pr = None if (bs is None or not bs) else bs.count(byte) / len(bs)
            batch.add(float_rule("math.percentage(%d, %s)" % (byte, a), pr, rel=1e-6), "float:percentage", dict(info0, why="reference %r" % pr))

    def classify(blocks, off, len_, mbytes):
        tot0 = blocks[0][0] if blocks else 0
        end = max([b + len(d) for b, d in blocks], default=0)
        if off < 0 or len_ < 0:
            return "negative-argument"
        if mbytes == "undef":
            return "undefined-outside" if (off >= end or off < tot0) else "undefined-gap-or-boundary"
        n = len(vlib.unhx(mbytes))
        k = "empty" if len_ == 0 else "clipped" if n < len_ else "touches-end" if off + len_ == end else "inside"
        return k + ("-multi" if len(blocks) > 1 else "")

    def grid(presentations, offs_lens, prefix, scan_of):
        qs, meta = [], []
        variants = sorted(set(fxs(n) for n in LOOPS))
        for pi, (tag, blocks) in enumerate(presentations):
            for off, len_ in offs_lens(blocks):
                for v in variants:
                    qs.append("c14r %s %s %d %d" % (v, blocks_arg(blocks), off, len_))
                meta.append((pi, off, len_))
        res = mq(qs)
        batches = {}
        k = 0
        for j, (pi, off, len_) in enumerate(meta):
            tag, blocks = presentations[pi]
            byv = {}
            for v in variants:
                byv[v] = kv(res[k])
                k += 1
            models = {n: byv[fxs(n)] for n in LOOPS}
            mb = models["md5"]["bytes"]
            if mb != "undef" and zlib.crc32(vlib.unhx(mb)) != int(models["md5"]["crc"]):
                chk.violation("model-crc", "model crc32 differs from zlib on %s" % mb, {"bytes": mb}, found_input=False)
            classes.add((tag.split("#")[0], classify(blocks, off, len_, mb)))
            b = batches.setdefault(pi, Batch("%s-%d" % (prefix, pi), scan_of(blocks)))
            range_rules(b, blocks, off, len_, models, tag, extra_float=True)
        run_batches(chk, hscan, list(batches.values()), stats)

    # ---- A. one buffer = one block: exhaustive (offset, length) for every size 0..16
    special = [b"", b"\x00", b"\xff\x80\x00\x7f", bytes(range(250, 256)) + bytes(range(0, 6)), b"aaaaaaaaaaaaaaaa", b"\xff" * 13]
    bufs = {len(s): s for s in special}
    single = []
    for n in range(0, 17):
        single.append(("single#%d" % n, [(0, bufs.get(n) if (n in bufs and not thorough) else rng.bytes(n))]))
    if thorough:
        single += [("single#s%d" % i, [(0, s)]) for i, s in enumerate(special)]
        single += [("single#r%d" % i, [(0, rng.bytes(rng.range(1, 16)))]) for i in range(40)]

    def ol_single(blocks):
        n = len(blocks[0][1])
        lens = list(range(-2, n + 4)) + [2 ** 31, 2 ** 32 + 1, MAX]
        return [(o, l) for o in list(range(-2, n + 3)) + [2 ** 32, MAX] for l in lens]
    grid(single, ol_single, "A", lambda blocks: ["scan " + hx(blocks[0][1])])

    # ---- B. multi-block presentations (contiguous, based, gaps, empty block, unordered, overlapping)
    pres = []
    nmb = 14 if not thorough else 120
    for i in range(nmb):
        r = rng.fork()
        n = r.range(2, 12)
        data = r.bytes(n)
        k = r.range(2, min(4, n))
        cuts = sorted(set(r.range(1, n - 1) for _ in range(k - 1)))
        parts = [data[a:b] for a, b in zip([0] + cuts, cuts + [n])]
        kind = ["contig0", "contigB", "gap", "gap", "emptyblock", "unordered", "overlap"][i % 7]
        base = 0 if kind in ("contig0", "gap", "emptyblock") and r.chance(2, 3) else r.choice([1, 7, 100, 4096])
        blocks, pos = [], base
        for j, p in enumerate(parts):
            if kind == "gap" and j > 0 and (j == 1 or r.chance(1, 2)):
                pos += r.range(1, 3)
            blocks.append((pos, p))
            pos += len(p)
        if kind == "emptyblock":
            j = r.range(0, len(blocks))
            blocks.insert(j, (blocks[j][0] if j < len(blocks) else pos, b""))
        elif kind == "unordered":
            blocks[0], blocks[-1] = blocks[-1], blocks[0]
        elif kind == "overlap" and len(blocks) > 1:
            b1, d1 = blocks[1]
            blocks[1] = (b1 - 1, data[(b1 - 1 - base):(b1 - 1 - base) + len(d1) + 1] if b1 - 1 >= base else d1)
        pres.append(("%s#%d" % (kind, i), blocks))

    def ol_multi(blocks):
        lo = min(b for b, _ in blocks)
        hi = max(b + len(d) for b, d in blocks)
        return [(o, l) for o in range(max(lo - 2, -1), hi + 2) for l in list(range(-1, hi - lo + 3)) + [MAX]]
    grid(pres, ol_multi, "B", lambda blocks: ["blocks - " + " ".join("%d:%s" % (b, hx(d)) for b, d in blocks), "scanblocks"])

    # global forms (math.count(b), math.mode(), math.percentage(b)) on every presentation
    allp = single + pres
    gres = mq(["c14g %s" % blocks_arg(bl) for _, bl in allp])
    gb = []
    for (tag, blocks), line in zip(allp, gres):
        g = kv(line)
        dist = parse_dist(g["dist"])
        sc = ["scan " + hx(blocks[0][1])] if tag.startswith("single") else ["blocks - " + " ".join("%d:%s" % (b, hx(d)) for b, d in blocks), "scanblocks"]
        b = Batch("G-%s" % tag.replace("#", "_"), sc)
        info = {"blocks": [[x, d.hex()] for x, d in blocks], "presentation": tag}
        b.add("not defined math.mode()" if dist is None else "math.mode() == %s" % g["mode"], "global:mode", dict(info, why=g["mode"]))
        for byte in sorted(set([0, 255, 256, -1] + ([max(dist, key=lambda k: dist[k])] if dist else []))):
            okb = 0 <= byte <= 255
            tot = sum(dist.values()) if dist else 0
            b.add(("not defined math.count(%s)" % lit(byte)) if (dist is None or not okb) else "math.count(%d) == %d" % (byte, dist.get(byte, 0)),
                  "global:count", dict(info, why="model"))
            pr = None if (dist is None or not okb or tot == 0) else dist.get(byte, 0) / tot
            b.add(float_rule("math.percentage(%s)" % lit(byte), pr, rel=1e-6), "global:percentage", dict(info, why="reference %r" % pr))
        classes.add(("global", "undefined" if dist is None else "defined"))
        gb.append(b)
    run_batches(chk, hscan, gb, stats)

    # ---- C. the digest cache: repeated / interleaved calls, all orders of small sets
    cb = []
    ncache = 30 if not thorough else 300
    for i in range(ncache):
        r = rng.fork()
        multi = i % 3 == 2
        if multi:
            tag, blocks = pres[r.below(len(pres))]
        else:
            blocks = [(0, r.bytes(r.range(1, 10)))]
        lo = min(b for b, _ in blocks)
        hi = max(b + len(d) for b, d in blocks)
        pool = [(r.below(3), r.range(lo - 1, hi), r.range(-1, hi - lo + 1)) for _ in range(3)]
        a0, o0, l0 = pool[0]
        pool += [((a0 + 1) % 3, o0, l0), (a0, o0, l0 + 1), (a0, o0 + 1, l0), (a0, o0, max(l0 - 1, 0)), ((a0 + 2) % 3, o0, l0 + 1)]
        calls = [r.choice(pool) for _ in range(r.range(4, 14))] + [pool[0], pool[4], pool[0]]
        if i % 5 == 0:      # every order of three calls that differ in one key component each
            import itertools
            orders = list(itertools.permutations([pool[0], pool[4], pool[3]]))
        else:
            orders = [calls]
        for oi, order in enumerate(orders):
            line = mq(["c14c %s %s %s" % (fxs("md5"), blocks_arg(blocks), ",".join("%d:%d:%d" % c for c in order))])[0]
            d = kv(line)
            if d["cached"] != d["uncached"]:
                chk.violation("model-cache", "extracted model: cached run differs from uncached run (contradicts cache_transparent)", {"line": line}, found_input=False)
            exp = d["cached"].split(",")
            sc = ["scan " + hx(blocks[0][1])] if len(blocks) == 1 and blocks[0][0] == 0 else ["blocks - " + " ".join("%d:%s" % (b, hx(dd)) for b, dd in blocks), "scanblocks"]
            b = Batch("C-%d-%d" % (i, oi), sc)
            conj = []
            for (a, o, l), e in zip(order, exp):
                expr = "hash.%s(%s, %s)" % (ALGS[a], lit(o), lit(l))
                cond = ("not defined " + expr) if e == "u" else '%s == "%s"' % (expr, hashlib.new(ALGS[a], vlib.unhx(e)[1:]).hexdigest())
                b.add(cond, "cache", {"blocks": [[x, dd.hex()] for x, dd in blocks], "calls_in_order": ["%s(%d,%d)" % (ALGS[a2], o2, l2) for a2, o2, l2 in order], "why": "call order"})
                conj.append("(" + cond + ")")
            b.add(" and ".join(conj), "cache", {"blocks": [[x, dd.hex()] for x, dd in blocks], "why": "all calls in one condition"})
            classes.add(("cache", "repeat" if len(set(order)) < len(order) else "distinct", "multi" if multi else "single"))
            cb.append(b)
    run_batches(chk, hscan, cb, stats)

    # ---- D. string arguments (embedded NULs, high bytes): hash.*, string.length/to_int, math.*(string)
    strs = [b"", b"\x00", b"a\x00b", b"\xff", b"\x80\xff\x00\x7f", bytes(range(0xf8, 0x100)) * 2, b"123456789", b"\xff\xff\xff\xff\xff\xff",
            b"abcdefabcdef", b"\x00" * 7]
    strs += [rng.bytes(rng.range(1, 24)) for _ in range(20 if not thorough else 200)]
    sres = mq(["c14s %s" % hx(s) for s in strs])
    sb = Batch("D-0", ["scan " + hx(b"x")])
    for s, line in zip(strs, sres):
        d = kv(line)
        y = ystr(s)
        info = {"string": s.hex()}
        if int(d["crc"]) != zlib.crc32(s) or d["crc"] != d["crcbit"] or int(d["sum"]) != sum(s) % 2 ** 32:
            chk.violation("model-crc", "model crc32/checksum32 differ from zlib / the sum on %s" % s.hex(), {"line": line}, found_input=False)
        for alg in ALGS:
            sb.add('hash.%s(%s) == "%s"' % (alg, y, hashlib.new(alg, s).hexdigest()), "string:" + alg, dict(info, why="hashlib"))
        sb.add("hash.crc32(%s) == %s" % (y, d["crc"]), "string:crc32", dict(info, why="model"))
        sb.add("hash.checksum32(%s) == %s" % (y, d["sum"]), "string:checksum32", dict(info, why="model"))
        sb.add("string.length(%s) == %s" % (y, d["len"]), "string:length", dict(info, why="model"))
        hi = any(c >= 0x80 for c in s)
        key = "string-signed-char" if hi else "float-string"
        bl = list(s)
        sb.add(float_rule("math.entropy(%s)" % y, ref_entropy(bl) if bl else 0.0), "float-string:entropy", dict(info, why="reference"))
        sb.add(float_rule("math.mean(%s)" % y, ref_mean(bl)), key + ":mean", dict(info, why="reference %r (bytes are unsigned)" % ref_mean(bl)))
        sb.add(float_rule("math.deviation(%s, 100.5)" % y, ref_deviation(bl, 100.5)), key + ":deviation", dict(info, why="reference"))
        sb.add(float_rule("math.serial_correlation(%s)" % y, ref_serial(bl)), key + ":serial_correlation", dict(info, why="reference"))
        sb.add(float_rule("math.monte_carlo_pi(%s)" % y, ref_monte(bl)), key + ":monte_carlo_pi", dict(info, why="reference"))
        classes.add(("string", "nul" if 0 in s else "plain", "high" if hi else "ascii"))
    run_batches(chk, hscan, [sb], stats)

    # ---- E. string.to_int: structured numerals around every rejection rule of strtoll
    digs = "0123456789abcdefghijklmnopqrstuvwxyz"

    def to_base(v, b):
        if v == 0:
            return "0"
        s = ""
        while v:
            s = digs[v % b] + s
            v //= b
        return s
    tis = []
    fixed = ["", " ", "-", "+", "0", "-0", "+0", "00", "08", "0x", "0X1f", "0xg", "-0x10", "0x-1", " \t\n\v\f\r12", "12 ", "1 2", "1\x0034", "\x0012",
             "--1", "+-1", "1e3", "1.0", "0b11", "z", "Z", str(MAX), str(MAX + 1), str(MIN), str(MIN - 1), str(UNDEF), "-0x5452505452501", "0x7fffffffffffffff",
             "0x8000000000000000", "-0x8000000000000000", "-0x8000000000000001", "0777", "0o7", "１２", "\xa012", "99999999999999999999999999", "-99999999999999999999999999",
             "000000000000000000000000000000001", "+0x1F", " +0X1f",
             "007", "-007", "0x0", "-0", "0x00000000000000000000007fffffffffffffff", "0xffffffffffffffff", "-0x7fffffffffffffff", "0x7FFFFFFFFFFFFFFF",
             "01000000000000000000000", "0777777777777777777777", "-01000000000000000000000", "-01000000000000000000001", "9223372036854775806", "-9223372036854775807"]
    for f in fixed:
        tis.append((f.encode("latin-1", "replace") if not f.startswith("１") else f.encode("utf-8"), None))
    for base in [0, 2, 8, 10, 16, 36, 7, 1, 37, -1, 2 ** 32 + 10, UNDEF]:
        for v in (0, 5, MAX, MAX + 1, -MAX - 1, -MAX - 2):
            if 2 <= base <= 36:
                t = ("-" if v < 0 else "") + to_base(abs(v), base)
            else:
                t = str(v)
            tis.append((t.encode(), base))
        tis.append((b"0x1f", base))
        tis.append((b"z", base))
        tis.append((b"10", base))
        tis.append((b"0010", base))
        tis.append((b"-0x10", base))
        tis.append((b"+" + (b"1" * 63), base))
        tis.append((b"1" * 64, base))
    for i in range(60 if not thorough else 1500):
        r = rng.fork()
        base = r.choice([None, 0, 10, 16, 8, 2, 36, r.range(2, 36)])
        eb = 10 if base in (None, 0) else base
        v = r.choice([r.range(0, 300), r.range(MAX - 3, MAX + 3), r.range(0, 2 ** 64), r.range(0, 2 ** 70)])
        t = r.choice(["", "", " ", "\t ", "\n"]) + r.choice(["", "", "-", "+"]) + r.choice(["", "", "0x", "0", "0X"]) + to_base(v, eb)
        t = t.upper() if r.chance(1, 5) else t
        t += r.choice(["", "", "", " ", "x", "\x00z", "\xff", "9", "g"])
        tis.append((t.encode("latin-1"), base))
    q = ["c14s %s" % hx(s) if base is None else "c14i %s %d" % (hx(s), base) for s, base in tis]
    tres = mq(q)
    tb = Batch("E-0", ["scan " + hx(b"x")])
    for (s, base), line in zip(tis, tres):
        v = kv(line)["toint"] if base is None else line
        expr = "string.to_int(%s)" % ystr(s) if base is None else "string.to_int(%s, %s)" % (ystr(s), lit(base))
        cond = ("not defined " + expr) if v == "undef" else "%s == %s" % (expr, lit(int(v)))
        tb.add(cond, "to_int", {"string": s.hex(), "base": base, "why": "model (strtoll): " + v})
        classes.add(("to_int", "accept" if v != "undef" else "reject", "base0" if base in (None, 0) else "based"))
    run_batches(chk, hscan, [tb], stats)
    # the value that cannot come back: (int64) YR_UNDEFINED  (theorem to_int_roundtrip_refuted)
    out, _ = vlib.run_cases(hscan, [("sent", Batch("sent", ["scan " + hx(b"x")]).case()[1][:2] + [
        "add " + hx((IMPORTS + 'rule s0 { condition: defined string.to_int("%d") }\nrule s1 { condition: string.to_int("%d") == %d }' % (UNDEF, UNDEF + 1, UNDEF + 1)).encode()),
        "getrules", "scanner 0", "scan " + hx(b"x")])])
    sc = [l for l in out.get("sent", []) if l.startswith("scan msgs=")]
    if sc and "M:default:s1" in sc[0] and "M:default:s0" not in sc[0]:
        chk.violation("to_int-sentinel", 'string.to_int("%d") is undefined although the text is a valid int64 numeral: the value is the bit pattern of YR_UNDEFINED '
                      "(theorem to_int_roundtrip_refuted); every other int64 round-trips (to_int_roundtrip_partial)" % UNDEF,
                      {"rule": 'defined string.to_int("%d")' % UNDEF, "expected": "true", "observed": "false"})

    # ---- F. integer functions of math: min / max / abs / to_string / to_number / in_range
    vals = [0, 1, -1, 2, 255, 256, 2 ** 31, 2 ** 32, MAX, MAX - 1, MIN, MIN + 1, UNDEF, UNDEF + 1, -UNDEF, -5, 1000003]
    qs, exprs = [], []
    for a in vals:
        qs.append("c14m abs %d" % a); exprs.append(("math.abs(%s)" % lit(a), "int", "abs"))
        qs.append("c14m tostr %d" % a); exprs.append(("math.to_string(%s)" % lit(a), "str", "to_string"))
        for base in (8, 10, 16, 2, 0):
            qs.append("c14m tostrb %d %d" % (a, base)); exprs.append(("math.to_string(%s, %d)" % (lit(a), base), "str", "to_string"))
        for b in vals:
            qs.append("c14m min %d %d" % (a, b)); exprs.append(("math.min(%s, %s)" % (lit(a), lit(b)), "int", "min"))
            qs.append("c14m max %d %d" % (a, b)); exprs.append(("math.max(%s, %s)" % (lit(a), lit(b)), "int", "max"))
    for i in range(40):
        t, l, u = (rng.range(-40, 40) for _ in range(3))
        qs.append("c14m inrange %d %d %d" % (t, l, u))
        exprs.append(("math.in_range(%s, %s, %s)" % (flit(t / 8), flit(l / 8), flit(u / 8)), "int", "in_range"))
    fres = mq(qs)
    fb = Batch("F-0", ["scan " + hx(b"x")])
    for (expr, ty, fn), v in zip(exprs, fres):
        if v == "undef":
            cond = "not defined " + expr
        elif ty == "int":
            cond = "%s == %s" % (expr, lit(int(v)))
        else:
            cond = "%s == %s" % (expr, ystr(vlib.unhx(v)))
        fb.add(cond, "intmath:" + fn, {"why": "model: " + v})
        classes.add(("intmath", fn, "undef" if v == "undef" else "value"))
    fb.add("math.to_number(1 == 1) == 1 and math.to_number(1 == 2) == 0 and math.to_number(true) == 1 and math.to_number(false) == 0", "intmath:to_number", {"why": "definition"})
    run_batches(chk, hscan, [fb], stats)
    # abs(INT64_MIN): the witness of abs_pinned_refuted replayed (the current code returns undefined: abs_exact)
    out, _ = vlib.run_cases(hscan, [("abs", Batch("abs", []).case()[1][:2] + [
        "add " + hx((IMPORTS + "rule a0 { condition: math.abs(-9223372036854775807 - 1) < 0 }").encode()), "getrules", "scanner 0", "scan " + hx(b"x")])])
    sc = [l for l in out.get("abs", []) if l.startswith("scan msgs=")]
    if sc and "M:default:a0" in sc[0]:
        chk.violation("abs-int64-min", "math.abs(-9223372036854775807 - 1) is negative: llabs(INT64_MIN) is undefined behaviour in C and returns INT64_MIN here "
                      "(pinned behaviour, theorem abs_pinned_refuted; the model of the current code says undefined, abs_exact)", {"rule": "math.abs(-9223372036854775807 - 1) < 0", "observed": "true"})

    # ---- H. inputs aimed at the comparisons in the definitions, and data-form / string-form twins
    def cuts_of(r, data, base=0, k=None):
        n = len(data)
        if n < 2:
            return [(base, data)]
        k = k or r.range(2, min(4, n))
        cs = sorted(set(r.range(1, n - 1) for _ in range(k - 1)))
        return [(base + a, data[a:b]) for a, b in zip([0] + cs, cs + [n])]

    def scan_cmds(blocks):
        if len(blocks) == 1 and blocks[0][0] == 0:
            return ["scan " + hx(blocks[0][1])]
        return ["blocks - " + " ".join("%d:%s" % (b, hx(d)) for b, d in blocks), "scanblocks"]

    # 24-bit coordinates: on the circle of radius 2^24-1 (axes, 3-4-5 and 8-15-17 points), one step inside / outside
    ON = [("ffffff", "000000"), ("000000", "ffffff"), ("999999", "cccccc"), ("cccccc", "999999"), ("787878", "e1e1e1"), ("e1e1e1", "787878")]
    NEAR = [("fffffe", "000000"), ("ffffff", "000001"), ("000001", "ffffff"), ("999998", "cccccc"), ("99999a", "cccccc"), ("999999", "cccccb"),
            ("999999", "cccccd"), ("cccccc", "99999a"), ("b504f3", "b504f3"), ("b504f4", "b504f3"), ("000000", "000000"), ("ffffff", "ffffff"), ("800000", "800000")]
    G = [bytes.fromhex(x + y) for x, y in ON + NEAR]
    filler = [bytes.fromhex("010203040506"), bytes.fromhex("f0f1f2f3f4f5"), bytes.fromhex("7f7f7f7f7f7f")]
    aimed = []
    for gi, g in enumerate(G):
        f1, f2 = filler[gi % 3], filler[(gi + 1) % 3]
        for pos, body in (("first", g + f1 + f2), ("middle", f1 + g + f2), ("last", f1 + f2 + g), ("only", g)):
            tail = bytes([0xff, 0x00, 0x99, 0xcc, 0xfe][:(gi + len(pos)) % 6])      # 0..5 trailing bytes that must be ignored
            aimed.append(("mc-%s-%s" % (pos, g.hex()), body + tail))
    aimed += [("mc-short-%d" % k, G[0][:k]) for k in range(0, 6)]
    # boundary-aware distribution: every 3-byte coordinate from the boundary set, 6-byte aligned groups
    COORD = [bytes.fromhex(x) for x in ("ffffff", "000000", "999999", "cccccc", "fffffe", "000001", "999998", "99999a", "cccccb", "cccccd", "787878", "e1e1e1")]
    for i in range(12 if not thorough else 150):
        r = rng.fork()
        body = b"".join(r.choice(COORD) + r.choice(COORD) for _ in range(r.range(1, 5))) + r.bytes(r.range(0, 5))
        aimed.append(("mc-dist-%d" % i, body))
    # statistics: single byte, all equal, two values (ties), extremes
    aimed += [("st-%d" % i, d) for i, d in enumerate([b"\x00", b"\xff", b"\x80", b"aaaa", b"\xff" * 7, b"\x00" * 6, b"ab", b"ba", b"abab", b"\xff\x00",
                                                      b"\x00\xff\x00\xff", b"\x01\x02\x03\x03\x02\x01", bytes(range(16)), b"\x7f\x80", b"zzzyyyxxx"])]
    aimed += [("rnd-%d" % i, rng.bytes(rng.range(1, 30))) for i in range(10 if not thorough else 100)]
    DATA_STR = [("hash.md5", "s"), ("hash.sha1", "s"), ("hash.sha256", "s"), ("hash.crc32", "i"), ("hash.checksum32", "i"),
                ("math.entropy", "f"), ("math.mean", "f"), ("math.serial_correlation", "f"), ("math.monte_carlo_pi", "f")]
    hb = []
    qs, meta = [], []
    for tag, data in aimed:
        r = rng.fork()
        plist = [[(0, data)], cuts_of(r, data), cuts_of(r, data, base=r.choice([0, 64]))]
        if len(data) >= 7:
            plist.append([(0, data[:len(data) - 3]), (len(data) - 3, data[len(data) - 3:])])     # a cut inside the last group
        for pi, blocks in enumerate(plist):
            base = blocks[0][0]
            for off, ln in [(0, len(data)), (0, len(data) + 5), (1, len(data)), (6, len(data)), (0, max(len(data) - 1, 0)), (len(data) // 2, 6)]:
                qs.append("c14r 1 %s %d %d" % (blocks_arg(blocks), base + off, ln))
                meta.append((tag, pi, blocks, base + off, ln))
    res = mq(qs)
    batches = {}
    for (tag, pi, blocks, off, ln), line in zip(meta, res):
        d = kv(line)
        b = batches.setdefault((tag, pi), Batch("H-%s-%d" % (tag, pi), scan_cmds(blocks)))
        info = {"blocks": [[x, dd.hex()] for x, dd in blocks], "off": off, "len": ln, "presentation": tag}
        a = "%s, %s" % (lit(off), lit(ln))
        mb = d["bytes"]
        sb_ = None if mb == "undef" else vlib.unhx(mb)
        # the model value (integer core) and the definition
        mv = None if sb_ is None else monte_value(d["monte"])
        b.add(float_rule("math.monte_carlo_pi(%s)" % a, mv), "aimed:monte_carlo_pi", dict(info, why="model counts %s" % d["monte"]))
        if sb_ is not None:
            bl = list(sb_)
            dist = parse_dist(d["dist"])
            b.add("math.mode(%s) == %s" % (a, d["mode"]), "aimed:mode", dict(info, why="smallest of the most frequent bytes (mode_is_least_most_frequent)"))
            top = max(dist.values()) if dist else 0
            for byte in sorted(k for k in dist if dist[k] == top)[:3]:
                b.add("math.count(%d, %s) == %d" % (byte, a, top), "aimed:count", dict(info, why="tie"))
                b.add(float_rule("math.percentage(%d, %s)" % (byte, a), top / len(bl), rel=1e-6), "aimed:percentage", dict(info, why="tie"))
            b.add(float_rule("math.entropy(%s)" % a, ref_entropy(bl)), "aimed:entropy", dict(info, why="reference"))
            b.add(float_rule("math.mean(%s)" % a, ref_mean(bl)), "aimed:mean", dict(info, why="reference"))
            b.add(float_rule("math.deviation(%s, 127.5)" % a, ref_deviation(bl, 127.5)), "aimed:deviation", dict(info, why="reference"))
            b.add(float_rule("math.serial_correlation(%s)" % a, ref_serial(bl)), "aimed:serial_correlation", dict(info, why="reference"))
        # twins: the data form and the string form of one function on the same bytes give IDENTICAL results (exact equality:
        # integer sums, dyadic means and the monte carlo counts are exactly representable doubles)
        y = ystr(sb_ if sb_ is not None else b"")
        for fn, ty in DATA_STR + [("math.deviation", "d")]:
            dexpr = "%s(%s%s)" % (fn, a, ", 127.5" if ty == "d" else "")
            sexpr = "%s(%s%s)" % (fn, y, ", 127.5" if ty == "d" else "")
            if sb_ is None:
                continue                                    # the range is undefined: no string twin
            undefined_both = (fn == "math.monte_carlo_pi" and len(sb_) < 6) or (fn in ("math.mean", "math.deviation") and len(sb_) == 0)
            cond = ("not defined %s and not defined %s" % (dexpr, sexpr)) if undefined_both else "%s == %s" % (dexpr, sexpr)
            b.add(cond, "twin:" + fn.split(".")[1], dict(info, why="data form vs string form on the same bytes", string=sb_.hex()))
        classes.add(("aimed", tag.split("-")[0] + "-" + (tag.split("-")[1] if tag.startswith("mc-") else ""), "multi" if len(blocks) > 1 else "single",
                     "undef" if sb_ is None else "short" if len(sb_) < 6 else "groups"))
    run_batches(chk, hscan, list(batches.values()), stats)

    # in_range: value equal to the lower / upper bound, one step (1/8) either side, empty and inverted intervals
    qs, exprs = [], []
    for l, u in [(-8, 8), (0, 0), (3, 3), (5, 4), (-17, -9), (0, 2 ** 40), (-(2 ** 40), 2 ** 40)]:
        for t in sorted(set([l - 1, l, l + 1, u - 1, u, u + 1])):
            qs.append("c14m inrange %d %d %d" % (t, l, u))
            exprs.append("math.in_range(%s, %s, %s)" % (flit(t / 8), flit(l / 8), flit(u / 8)))
    ib = Batch("H-inrange", ["scan " + hx(b"x")])
    for e, v in zip(exprs, mq(qs)):
        ib.add("%s == %s" % (e, v), "aimed:in_range", {"why": "model: " + v})
        classes.add(("aimed", "in_range", v))
    run_batches(chk, hscan, [ib], stats)

    # ---- G. (thorough) undefined behaviour in the module sources: UBSan build, lengths near INT64_MAX, abs(INT64_MIN)
    if thorough:
        ha = build.harness("h_scan", "asan")
        conds = ["hash.%s(1, 9223372036854775807) == %s" % (f, '"x"' if f in ALGS else "1") for f in ALGS + ["crc32", "checksum32"]]
        conds += ["math.%s(2, 9223372036854775806) == 1.5" % f for f in ("entropy", "serial_correlation", "monte_carlo_pi")]
        conds += ["math.abs(-9223372036854775807 - 1) < 0"]
        srcu = IMPORTS + "\n".join("rule u%d { condition: %s }" % (i, c) for i, c in enumerate(conds))
        outu, erru = vlib.run_cases(ha, [("ub", ["newcompiler", "strings 0", "add " + hx(srcu.encode()), "getrules", "scanner 0", "scan " + hx(b"abcdefgh"),
                                                "sdestroy", "destroyrules", "destroycompiler"])])
        ub = sorted(set(re.sub(r"^.*?/libyara/", "libyara/", l) for l in erru.split("\n") if "runtime error" in l and re.search(r"modules/(hash|math|string)/", l)))
        stats["evaluations"] += len(conds)
        known_ub = [l for l in ub if "signed integer overflow" in l and re.search(r"\d+ \+ \d+ cannot be represented", l)]
        other_ub = [l for l in ub if l not in known_ub]
        # `offset + length` in the break condition overflows int64 for lengths near INT64_MAX: undefined behaviour that the
        # coordinator decided not to repair (the value is only compared, wraps on x86-64): recorded, named in the level note
        chk.note(ubsan_offset_plus_length=known_ub[:12])
        if other_ub:
            chk.violation("ub-module", "UBSan reports in the hash/math/string module sources: " + "; ".join(other_ub)[:600],
                          {"rules": conds + ["math.abs(-9223372036854775807 - 1) < 0"], "buffer": "6162636465666768", "ubsan": other_ub})
        else:
            stats["agree"] += len(conds)

    chk.note(evaluations=stats["evaluations"], traces_validated_against_impl=stats["agree"], distinct_nontrivial=len(classes),
             rule="every evaluation is one rule whose expected verdict comes from the extracted model (integers, byte ranges, cache runs, strtoll) "
                  "or from hashlib / the Python reference definitions (digests, float statistics); exhaustive (offset,length) in [-2,n+2]x[-2,n+3] plus 2^31, 2^32+1, "
                  "INT64_MAX for one buffer of every size 0..16, the same grid over multi-block presentations (contiguous at base 0 / base B, gaps, empty block, "
                  "unordered, overlapping); distinct = (presentation kind, outcome class) / (cache: repeat?, multi?) / (string: NUL?, high byte?) / "
                  "(to_int: accept?, base) / (integer function, defined?)",
             presentations=len(single) + len(pres), classes=sorted("/".join(map(str, c)) for c in classes)[:80])
    chk.sample({"presentation": pres[0][0], "blocks": [[b, d.hex()] for b, d in pres[0][1]]})
    chk.sample({"to_int": [(s.hex(), b, r) for (s, b), r in list(zip(tis, tres))[:6]]})
    chk.assumptions += [
        "MD5/SHA1/SHA256 are libcrypto's: the theorems quantify over every streaming digest (init/update/final with update(update s a) b = update s (a++b)); the check compares with hashlib",
        "float statistics (entropy, mean, deviation, serial_correlation, monte_carlo_pi, percentage) are tests against Python reference definitions within 1e-9 (1e-6 for the float32 percentage), not theorems",
        "memory blocks are readable (yr_fetch_block_data != NULL) and block ends are below 2^63; strtoll is modelled for glibc / ISO C (white space of the C locale, no 0b prefix)",
        "not covered: a block whose fetch_data returns NULL makes hash.* return the digest of the empty string (math.* returns undefined); `offset + length` overflows int64 (UB, UBSan) for lengths near INT64_MAX",
        "in_range is checked on multiples of 1/8 (exactly representable doubles)",
    ]
