"""C16 function level: the functions translated to AllocLang, run in libyara.a (harness/h_alloc.c `fn ...`) and in the
extracted model (`alloc ...`) on the same input with the same failing index: return classes per call, live-allocation
count before and after destroy, and number of allocations requested must agree."""
import re, os, shutil, tempfile, time
import vlib, build, c16
from vlib import hx

FLAG_BITS = [("wide", "STRING_FLAGS_WIDE", 1), ("ascii", "STRING_FLAGS_ASCII", 2), ("nocase", "STRING_FLAGS_NO_CASE", 4),
             ("xor", "STRING_FLAGS_XOR", 8)]


def gen_inputs(rng, tier):
    """list of (function, C args, model args, shape)"""
    T = tier == "thorough"
    out = []
    # arena: create(nbuf, initial) then allocate / zeroed allocate / make_ptr_relocatable
    for _ in range(14 if not T else 80):
        nbuf = rng.range(1, 4)
        initial = rng.choice([16, 64, 100, 4096])
        ops = []
        have = [0] * nbuf
        for _ in range(rng.range(1, 9)):
            b = rng.below(nbuf)
            k = rng.below(10)
            if k < 2 and have[b] >= 32:
                ops.append("r:%d:%d" % (b, rng.range(0, 4)))
            else:
                sz = rng.choice([1, 8, 32, 33, 64, 100, 500, initial, initial + 1, 3 * initial])
                if have[b] == 0:
                    sz = max(sz, 32)
                kind = "z" if have[b] == 0 or rng.chance(1, 2) else "a"
                have[b] += sz
                ops.append("%s:%d:%d" % (kind, b, sz))
        # one request beyond 4 GB: must be refused without allocating
        if rng.chance(1, 5):
            ops.append("a:%d:%d" % (rng.below(nbuf), (1 << 32) + 5))
        a = "%d %d %s" % (nbuf, initial, " ".join(ops))
        out.append(("arena", a, a, ("arena", nbuf, len(ops))))
    for _ in range(8 if not T else 50):
        minp = rng.choice([8, 64, 1024])
        sizes = [rng.choice([1, 7, 8, 9, 60, 64, 65, 200, 1024, 5000]) for _ in range(rng.range(1, 8))]
        a = "%d %s" % (minp, " ".join(map(str, sizes)))
        out.append(("notebook", a, a, ("notebook", minp, len(sizes))))
    for _ in range(6 if not T else 30):
        cap = rng.choice([1, 2, 3, 8])
        a = "%d %d %d" % (cap, rng.choice([4, 8, 16]), rng.range(0, 20))
        out.append(("stack", a, a, ("stack", cap)))
    for _ in range(6 if not T else 30):
        ents = ["%d:%d" % (rng.range(1, 40), rng.below(2)) for _ in range(rng.range(0, 7))]
        a = "%d %s" % (rng.choice([1, 16, 64]), " ".join(ents))
        out.append(("hash", a, a, ("hash", len(ents))))
    C = vlib.consts()
    strings = [b"a", b"ab", b"abc", b"abcd", b"abcde", b"a1b2", b"1234", b"AbCdEf", b"x\x00y\x00", b"zz9", b"\xff\xfe\xfd\xfc\xfb", b"q"]
    combos = list(range(16))
    rng.shuffle(combos)
    for m in (combos if T else combos[:10]) + [15, 13]:
        s = rng.choice(strings)
        cflags = sum(C[name] for _, name, bit in FLAG_BITS if m & bit)
        xmin = rng.range(0, 5)
        xmax = xmin + rng.range(0, 6) if rng.chance(9, 10) else max(0, xmin - 1)
        out.append(("atoms", "%d %d %d %s" % (cflags, xmin, xmax, hx(s)), "%d %d %d %s" % (m, xmin, xmax, hx(s)), ("atoms", m, len(s))))
    for exts, src in [([], b"rule a { condition: true }"), (["i:e1"], b'rule a { strings: $a = "x" condition: $a and e1 == 7 }'),
                      (["s:e1:hello", "i:e2", "f:e3", "b:e4"], b'rule a { strings: $a = "x" $b = "y" condition: any of them }'),
                      (["s:v1:a", "s:v2:bb"], b"rule a { condition: v1 == \"a\" }")]:
        kinds = {"i": 0, "b": 0, "f": 1, "s": 2}
        has_strings = b"strings:" in src
        out.append(("screate", " ".join(exts), "%d %s" % (1 if has_strings else 0, " ".join(str(kinds[e[0]]) for e in exts)),
                    ("screate", len(exts), has_strings), src))
    return out


LINE = re.compile(r"ops=([0-9,\-]*)(?: n=(\d+))? live=(-?\d+) after=(-?\d+) count=(\d+)")


def parse(line, fn):
    m = LINE.search(line or "")
    if not m:
        return None
    ops = [int(x) for x in m.group(1).split(",") if x != ""]
    n = m.group(2)
    if fn == "atoms":
        # model prints rc,n ; implementation prints rc and n only on success
        if n is None and len(ops) == 2:
            n = ops[1] if ops[0] == 0 else None
            ops = ops[:1]
        elif n is not None:
            n = int(n)
    return {"ops": ops, "n": n, "live": int(m.group(3)), "after": int(m.group(4)), "count": int(m.group(5))}


def private_model():
    """Extracts Model/AllocLang.v on its own into a scratch directory and builds a runner from ocaml/prelude.ml +
    ocaml/cmds/60_alloc.ml + ocaml/main.ml: independent of the state of the other models' extraction parts."""
    import subprocess
    d = tempfile.mkdtemp(prefix="verif-c16.", dir=build.scratch_root())
    names = []
    for line in open(os.path.join(vlib.COQ, "Extract", "parts", "60_alloc.txt")):
        if line.startswith("names:"):
            names += line[6:].split()
    open(os.path.join(d, "X.v"), "w").write("Require Extraction.\nRequire Import ExtrOcamlBasic ZArith NArith.\nFrom YV Require Import Model.AllocLang.\n"
                                            "Extraction \"model.ml\" Z.add N.add %s.\n" % " ".join(names))   # Z, N: types the prelude mentions
    lock = vlib.coq_lock()
    try:
        p = subprocess.run(["coqc", "-R", vlib.COQ, "YV", "-w", "-all", "X.v"], cwd=d, stdout=subprocess.PIPE, stderr=subprocess.STDOUT, text=True, timeout=300)
    finally:
        lock.close()
    if p.returncode != 0:
        raise vlib.CoqError("extraction of Model/AllocLang.v failed: " + p.stdout[-1500:])
    od = os.path.join(vlib.VERIF, "ocaml")
    drv = "open Model\n" + "\n".join(open(f).read() for f in (os.path.join(od, "prelude.ml"), os.path.join(od, "cmds", "60_alloc.ml"),
                                                               os.path.join(od, "main.ml")))
    open(os.path.join(d, "driver.ml"), "w").write(drv)
    p = subprocess.run(["ocamlfind", "ocamlopt", "-inline", "50", "-w", "-a", "-o", "model_runner", "model.mli", "model.ml", "driver.ml"],
                       cwd=d, stdout=subprocess.PIPE, stderr=subprocess.STDOUT, text=True, timeout=300)
    if p.returncode != 0:
        raise vlib.CoqError("ocaml build of the AllocLang runner failed: " + p.stdout[-1500:])
    return os.path.join(d, "model_runner"), d


def function_level(chk):
    rng = chk.rng.fork()
    h = build.harness("h_alloc", "asan", extra_flags=c16.WRAP)
    model, model_dir = private_model()
    inputs = gen_inputs(rng, chk.tier)
    # baseline to learn the allocation count of each input, then every k (and the sticky variant)
    def c_case(inp, k, sticky):
        lines = []
        if len(inp) > 4:
            lines.append("src " + hx(inp[4]))
        lines.append("fn %s %d %d %s" % (inp[0], k, sticky, inp[1]))
        return lines
    base_cases = [("b%d" % i, c_case(inp, 0, 0)) for i, inp in enumerate(inputs)]
    out, err = vlib.run_cases(h, base_cases, timeout=600)
    cases, mlines, meta = [], [], []
    for i, inp in enumerate(inputs):
        r = parse((out.get("b%d" % i) or [""])[-1], inp[0])
        if r is None:
            chk.violation("fn:%s:baseline" % inp[0], "function-level baseline of %s did not run: %s" % (inp[0], out.get("b%d" % i)),
                          {"function": inp[0], "args": inp[1]}, found_input=True)
            continue
        n = r["count"]
        for sticky in (0, 1):
            for k in range(0, n + 2):
                if sticky and k == 0:
                    continue
                cid = "f%d.%d.%d" % (i, sticky, k)
                cases.append((cid, c_case(inp, k, sticky)))
                mlines.append("alloc %s %d %d %s" % (inp[0], k, sticky, inp[2]))
                meta.append((cid, inp, k, sticky))
    out, err = vlib.run_cases(h, cases, timeout=1200)
    mout, merr = vlib.run_lines(model, mlines, timeout=600)
    shutil.rmtree(model_dir, ignore_errors=True)
    agree = 0
    distinct = set()
    for (cid, inp, k, sticky), ml in zip(meta, mout):
        cl = out.get(cid) or [""]
        crash = [l for l in cl if l.startswith("crash")]
        c = parse(cl[0] if cl else "", inp[0])
        m = parse(ml, inp[0])
        replay = {"function": inp[0], "args": inp[1], "k": k, "sticky": sticky, "implementation": cl[:3], "model": ml}
        key = "fn:%s" % inp[0]
        if crash:
            chk.violation(key + ":crash", "function level: %s crashes with allocation #%d failing: %s" % (inp[0], k, crash[0]), replay)
            continue
        if m is None or 99 in m["ops"]:
            chk.violation(key + ":model-fault", "the AllocLang model of %s faults (use of a failed/freed block) at k=%d: %s" % (inp[0], k, ml), replay)
            continue
        if c is None:
            chk.violation(key + ":norun", "function level: %s gave no result: %s" % (inp[0], cl), replay)
            continue
        if c != m:
            chk.violation(key + ":differs", "function level: %s with allocation #%d failing%s: implementation %s, model %s" % (
                inp[0], k, " (and all later)" if sticky else "", c, m), replay)
            continue
        if c["after"] != 0:
            chk.violation(key + ":leak", "function level: %s leaks %d blocks after destroy (k=%d)" % (inp[0], c["after"], k), replay)
            continue
        agree += 1
        distinct.add((inp[3], min(k, c["count"] + 1) if k <= 3 else "k", tuple(c["ops"][:4]), sticky))
    chk.note(function_level_cases=len(meta), function_level_agree=agree, function_level_inputs=len(inputs))
    if meta:
        cid, inp, k, sticky = meta[min(len(meta) - 1, 7)]
        chk.sample({"function": inp[0], "args": inp[1], "k": k, "sticky": sticky, "implementation": (out.get(cid) or [""])[0]})
    return len(meta), distinct
