"""C20: external variables are typed, scoped and isolated.

Proofs: Props/Properties_C20.v over Model/Externals.v.  Tie: random histories of define operations at
compiler / rule-set / scanner level (four types, valid and invalid), scanner creations and scans run
through harness/h_hist and through the extracted model; return codes and the verdict of every probe
rule are compared.  Independently of the model: every condition is also compiled with the variables
replaced by literals of the values the scan should see (the "like literals" clause), and the
externals table of the rule set must list exactly the accepted compile-time definitions."""
import hashlib, os, re
from fractions import Fraction
import vlib, build
from vlib import hx

PROPS = "Props/Properties_C20.v"
# identifiers that are prefixes of one another, declared longer-before-shorter (abc, ab) and shorter-before-longer
# (ab, abcd; x1, x, x10); the identifier that is never declared (9) is a prefix of declared ones
NAMES_PREFIX = {1: "abc", 2: "ab", 3: "abcd", 4: "x1", 5: "x", 6: "x10", 7: "abcde", 8: "x100", 9: "a"}
# externals named like built-in modules (the scanner's objects_table holds externals AND loaded module structures, and
# yr_modules_unload_all goes through every module name after every scan); "ctl" is the control; 9 is never declared
NAMES_MODULE = {1: "time", 2: "math", 3: "pe", 4: "hash", 5: "ctl", 6: "elf", 7: "string", 8: "console", 9: "tests"}
NAMES = NAMES_PREFIX
INTS = [0, 1, -1, 2, 5, -5, 7, 100, 255, 2 ** 31, -(2 ** 31), 2 ** 62, 2 ** 63 - 1, -(2 ** 63) + 1]
STRS = [b"", b"abc", b"ABC", b"xabcx", b"ab", b"Abc", b"abcabc", b"c", b"a b", b"\x01\xff", b'q"\\']
CMPS = {"eq": "==", "ne": "!=", "lt": "<", "le": "<=", "gt": ">", "ge": ">="}
SOPS = {"eq": "==", "ne": "!=", "contains": "contains", "icontains": "icontains", "startswith": "startswith",
        "istartswith": "istartswith", "endswith": "endswith", "iendswith": "iendswith", "iequals": "iequals"}


def hharness(variant="plain"):
    fl = ("-DHSCAN_HASH=" + hashlib.sha256(open(os.path.join(build.VERIF, "harness", "h_scan.c"), "rb").read()).hexdigest()[:8],)
    return build.harness("h_hist", variant, extra_flags=fl)


# ---------------------------------------------------------------- values
def rand_val(r, ty):
    if ty == "i":
        return r.choice(INTS) if r.chance(2, 3) else r.range(-40, 40)
    if ty == "b":
        return r.choice([0, 1, 0, 1, 2, -1])
    if ty == "f":
        return Fraction(r.range(-400, 400), 8)
    return r.choice(STRS) if r.chance(3, 4) else bytes(r.choice(b"abcAB c") for _ in range(r.range(1, 6)))


def val_model(ty, v):
    if v is None:
        return "sNULL"
    if ty in "ib":
        return "%s%d" % (ty, v)
    if ty == "f":
        return "f%d/%d" % (v.numerator, v.denominator)
    return "s" + hx(v)


def val_harness(ty, v):
    if v is None:
        return "NULL"
    if ty in "ib":
        return str(v)
    if ty == "f":
        return repr(float(v))
    return hx(v)


def ystr(b):
    out = '"'
    for c in b:
        out += chr(c) if 32 <= c < 127 and c not in (34, 92) else "\\x%02x" % c
    return out + '"'


# ---------------------------------------------------------------- conditions: (model s-expr, yara text with env)
class Var:
    def __init__(self, i):
        self.i = i


def n_text(e, env):
    k = e[0]
    if k == "liti":
        return str(e[1]) if e[1] >= 0 else "(-%d)" % -e[1]
    if k == "litf":
        f = float(e[1])
        return repr(f) if f >= 0 else "(-%s)" % repr(-f)
    if k == "var":
        if env is None:
            return NAMES[e[1]]
        ty, v = env[e[1]]
        return n_text(("litf", v), None) if ty == "f" else n_text(("liti", v), None)
    if k == "neg":
        return "(-%s)" % n_text(e[1], env)
    return "(%s %s %s)" % (n_text(e[1], env), {"add": "+", "sub": "-", "mul": "*"}[k], n_text(e[2], env))


def n_model(e):
    k = e[0]
    if k == "liti":
        return "liti(%d)" % e[1]
    if k == "litf":
        return "litf(%d/%d)" % (e[1].numerator, e[1].denominator)
    if k == "var":
        return "var(%d)" % e[1]
    if k == "neg":
        return "neg(%s)" % n_model(e[1])
    return "%s(%s,%s)" % (k, n_model(e[1]), n_model(e[2]))


def s_text(e, env):
    if e[0] == "slit":
        return ystr(e[1])
    return NAMES[e[1]] if env is None else ystr(env[e[1]][1])


def s_model(e):
    return "slit(%s)" % hx(e[1]) if e[0] == "slit" else "svar(%d)" % e[1]


def c_text(c, env):
    k = c[0]
    if k == "cmp":
        return "(%s %s %s)" % (n_text(c[2], env), CMPS[c[1]], n_text(c[3], env))
    if k == "str":
        return "(%s %s %s)" % (s_text(c[2], env), SOPS[c[1]], s_text(c[3], env))
    if k == "truthn":
        return "(%s)" % n_text(c[1], env)
    if k == "truths":
        return "(%s)" % s_text(c[1], env)
    if k == "not":
        return "(not %s)" % c_text(c[1], env)
    return "(%s %s %s)" % (c_text(c[1], env), k, c_text(c[2], env))


def c_model(c):
    k = c[0]
    if k == "cmp":
        return "cmp(%s,%s,%s)" % (c[1], n_model(c[2]), n_model(c[3]))
    if k == "str":
        return "str(%s,%s,%s)" % (c[1], s_model(c[2]), s_model(c[3]))
    if k in ("truthn", "truths"):
        return "%s(%s)" % (k, (n_model if k == "truthn" else s_model)(c[1]))
    if k == "not":
        return "not(%s)" % c_model(c[1])
    return "%s(%s,%s)" % (k, c_model(c[1]), c_model(c[2]))


def small(v):
    return abs(v) < 2 ** 20


def gen_cond(r, types, depth=0):
    """types: {id: 'i'|'b'|'f'|'s'} of the declared variables"""
    nums = [i for i, t in types.items() if t in "ibf"]
    ints = [i for i, t in types.items() if t in "ib"]
    strs = [i for i, t in types.items() if t == "s"]
    if depth < 2 and r.chance(1, 4):
        k = r.choice(["not", "and", "or"])
        if k == "not":
            return ("not", gen_cond(r, types, depth + 1))
        return (k, gen_cond(r, types, depth + 1), gen_cond(r, types, depth + 1))
    kind = r.choice(["n"] * 3 + ["s"] * 3 + ["tn", "ts"])
    if kind == "n" and nums:
        x = r.choice(nums)
        a = ("var", x)
        form = r.below(5)
        lit = ("litf", Fraction(r.range(-400, 400), 8)) if (types[x] == "f" or r.chance(1, 5)) else ("liti", r.choice([v for v in INTS if v > -(2 ** 63) + 1] + [3, 4, 6]))
        sm = ("liti", r.range(-9, 9)) if types[x] != "f" or r.chance(1, 2) else ("litf", Fraction(r.range(-40, 40), 8))
        if form == 1:
            a = (r.choice(["add", "sub"]), a, sm)
        elif form == 2:
            a = ("mul", a, sm)
        elif form == 3:
            a = ("neg", a)
        elif form == 4 and len(nums) > 1:
            a = (r.choice(["add", "sub", "mul"]), a, ("var", r.choice(nums)))
        return ("cmp", r.choice(list(CMPS)), a, lit) if r.chance(4, 5) else ("cmp", r.choice(list(CMPS)), lit, a)
    if kind == "s" and strs:
        x = r.choice(strs)
        op = r.choice(list(SOPS))
        other = ("svar", r.choice(strs)) if r.chance(1, 6) else ("slit", r.choice(STRS))
        return ("str", op, ("svar", x), other) if r.chance(4, 5) else ("str", op, other, ("svar", x))
    if kind == "tn" and ints:
        return ("truthn", ("var", r.choice(ints)))
    if kind == "ts" and strs:
        return ("truths", ("svar", r.choice(strs)))
    x = r.choice(list(types))
    return ("truths", ("svar", x)) if types[x] == "s" else ("cmp", "ge", ("var", x), ("liti", 0))


# ---------------------------------------------------------------- histories
DEFCMD = {"i": "i", "b": "b", "f": "f", "s": "s"}


def gen_case(r, hazard=None, names=None, imports=(), multi=False):
    """returns dict(ops=[(model token, [harness lines])...], conds, types, names).
    imports: modules the rule set imports (a rule 'zimp' uses console when imported, so that something is loaded and
    unloaded in every scan); multi: the history ends with several scans on ONE scanner with defines in between"""
    global NAMES
    NAMES = names or NAMES_PREFIX
    nv = r.range(2, 5)
    types = {}
    for i in range(1, nv + 1):
        types[i] = r.choice("ibfs")
    if "s" not in types.values():
        types[nv] = "s"
    ops = []

    def cdef(x, ty, v):
        ops.append(("cd:%d:%s" % (x, val_model(ty, v)), ["def%s %s %s" % (ty, NAMES[x], val_harness(ty, v))]))
    for x, ty in list(types.items()):
        if hazard == "null-compiler" and ty == "s" and x == max(i for i, t in types.items() if t == "s"):
            cdef(x, "s", None)
            if r.chance(1, 2):
                cdef(x, "s", b"abc")
        if ty == "s" and r.chance(1, 6):     # NULL string: rejected, nothing defined yet
            cdef(x, "s", None)
        cdef(x, ty, rand_val(r, ty))
        if ty == "s" and r.chance(1, 8):     # NULL string for a defined identifier: rejected (not "duplicated")
            cdef(x, "s", None)
        if r.chance(1, 5):     # duplicate definition: rejected, first one stays
            ty2 = r.choice("ibfs")
            cdef(x, ty2, rand_val(r, ty2))
    conds = [gen_cond(r, types) for _ in range(r.range(4, 8))]
    src = "\n".join("rule r%d { condition: %s }" % (i, c_text(c, None)) for i, c in enumerate(conds))
    src = "".join('import "%s"\n' % m for m in imports) + src + ('\nrule zimp { condition: console.log("i") }' if "console" in imports else "")
    # one history in three continues on the rule set as saved and loaded again (type tags and values must survive)
    loaded = hazard is None and r.chance(1, 3)
    ops.append(("gr", ["add " + hx(src.encode()), "getrules", "dump"] + (["reload", "use loaded", "dump"] if loaded else [])))
    alive = set()
    n = r.range(6, 16)
    redefined_str = False
    for step in range(n):
        k = r.below(10)
        if k < 3:   # rules-level define
            x = r.choice(list(types) + [9]) if r.chance(1, 6) else r.choice(list(types))
            ty = types.get(x, "i") if r.chance(3, 4) else r.choice("ibfs")
            v = rand_val(r, ty)
            if ty == "s" and r.chance(1, 8):
                v = None
            if ty == "s" and v is not None and types.get(x) == "s":
                redefined_str = True
            ops.append(("rd:%d:%s" % (x, val_model(ty, v)), ["rdef%s %s %s" % (ty, NAMES[x], val_harness(ty, v))]))
            # ... and what the rule set holds now: the table itself (names, types, values, count) and a scan through it
            ops.append(("rs", ["rscan 0 0 78", "dump"]))
        elif k < 5:
            free = [s for s in range(3) if s not in alive]
            if free:
                s = r.choice(free)
                alive.add(s)
                ops.append(("cr:%d" % s, ["scanner %d" % s]))
        elif k < 8 and alive:
            s = r.choice(sorted(alive))
            x = r.choice(list(types) + [9]) if r.chance(1, 6) else r.choice(list(types))
            ty = types.get(x, "i") if r.chance(3, 4) else r.choice("ibfs")
            v = rand_val(r, ty)
            if ty == "s" and r.chance(1, 4):
                v = None          # NULL string: an error code whatever the variable is
            if hazard == "null-scanner" and types.get(x) == "s":
                ty, v = "s", None
            ops.append(("sd:%d:%d:%s" % (s, x, val_model(ty, v)), ["sel %d" % s, "sdef%s %s %s" % (ty, NAMES[x], val_harness(ty, v))]))
        elif k == 8 and alive and r.chance(1, 3):
            s = r.choice(sorted(alive))
            alive.discard(s)
            ops.append(("ds:%d" % s, ["sel %d" % s, "sdestroy"]))
        else:
            if alive and r.chance(3, 4):
                s = r.choice(sorted(alive))
                ops.append(("sc:%d" % s, ["sel %d" % s, "scan 78"]))
            else:
                ops.append(("rs", ["rscan 0 0 78"]))
    if multi:
        # >= 2 scans on the SAME scanner, scanner-level and rules-level defines between them: the scanner-level value
        # persists, the rules-level one does not reach the scanner
        if not alive:
            alive.add(0)
            ops.append(("cr:0", ["scanner 0"]))
        s0 = sorted(alive)[0]

        def scan():
            ops.append(("sc:%d" % s0, ["sel %d" % s0, "scan 78"]))

        def define(level):
            x = r.choice(list(types))
            ty = types[x]
            v = rand_val(r, ty)
            if level == "s":
                ops.append(("sd:%d:%d:%s" % (s0, x, val_model(ty, v)), ["sel %d" % s0, "sdef%s %s %s" % (ty, NAMES[x], val_harness(ty, v))]))
            else:
                ops.append(("rd:%d:%s" % (x, val_model(ty, v)), ["rdef%s %s %s" % (ty, NAMES[x], val_harness(ty, v))]))
                ops.append(("rs", ["rscan 0 0 78", "dump"]))
        scan(); define("s"); scan(); define("r"); scan(); define("s"); define("s"); scan(); scan()
        ops.append(("sd:%d:9:i1" % s0, ["sel %d" % s0, "sdefi %s 1" % NAMES[9]]))
        scan()
    for s in sorted(alive):
        ops.append(("sc:%d" % s, ["sel %d" % s, "scan 78"]))
    ops.append(("rs", ["rscan 0 0 78"]))
    if hazard == "save" or (not redefined_str and not loaded and r.chance(1, 4)):      # (loaded rules cannot be saved: documented)
        if hazard == "save":
            x = [i for i, t in types.items() if t == "s"][0]
            ops.append(("rd:%d:sNULL" % x, ["rdefs %s NULL" % NAMES[x]]))
            ops.append(("sv", ["save"]))
            ops.append(("rd:%d:s6162" % x, ["rdefs %s 6162" % NAMES[x]]))
            ops.append(("rs", ["rscan 0 0 78"]))
        ops.append(("sv", ["save"]))
    return {"ops": ops, "conds": conds, "types": types, "names": NAMES}


def parse_seen(tok):
    m = re.match(r"seen (\S*) v=(\S*) lit=(\S*)", tok)
    env = {}
    if m.group(1):
        for kv in m.group(1).split(","):
            k, v = kv.split(":")
            if v[0] == "i":
                env[int(k)] = ("i", int(v[1:]))
            elif v[0] == "f":
                a, b = v[1:].split("/")
                env[int(k)] = ("f", Fraction(int(a), int(b)))
            else:
                env[int(k)] = ("s", vlib.unhx(v[1:]))
    return env, m.group(2), m.group(3)


def verdicts(line, n):
    """scan msgs=...: 1/0 per rule r0..r(n-1)"""
    m = re.match(r"scan msgs=(\S*) rc=(-?\d+)", line)
    if not m:
        return None, None
    v = {}
    for t in m.group(1).split(";"):
        p = t.split(":")
        if len(p) >= 3 and p[0] in "MN" and p[2].startswith("r"):
            v[int(p[2][1:])] = "1" if p[0] == "M" else "0"
    return "".join(v.get(i, "?") for i in range(n)), int(m.group(2))


# ---------------------------------------------------------------- externals in the positions where the compiler treats constants specially
# Every template uses the integer external n (id 1) and/or the boolean external b (id 2) in a position in which a
# CONSTANT is folded, range-checked or used to decide whether the rule needs string matches: quantifier of
# `of` / `of .. in` / `of .. at` / `for .. of` / `for .. in`, percentage, `at` / `in` offsets and range bounds,
# shift counts, divisors, array indexes, intXX() offsets.  {N} / {B} are replaced by the variable name (external
# form) or by a literal of a value (twin).  All twins that compile live in the SAME rule set as the external
# form; in every scan the verdict of the external form must equal that of the twin for the value in force.
# (string identifiers start with _ so that a template may leave some of them unreferenced)
POS_STR = 'strings: $_a = "abc" $_b = "xyz" $_c = "qq" condition: '
POS_TEMPLATES = [
    "{N} of them", "{N} of them in (0..5)", "{N} of them in (2..40)", "{N} of them at 3", "{N} of ($_a, $_b)",
    "{N} of ($_a*) in (0..{N} + 8)", "for {N} of them : ($)", "for {N} of them : (@ > 2)", "for {N} i in (0..3) : (i >= 0)",
    "for {N} i in ({N}..{N} + 2) : (i == {N})", "({N} * 25)% of them", "$_a at {N}", "$_a at {N} + 2", "$_a in ({N}..{N} + 10)",
    "$_a in (0..{N})", "#_a in ({N}..30) > 0", "any of them in ({N}..{N} + 4)", "all of them in (0..{N} + 60)",
    "(1 << {N}) == 2", "(16 >> {N}) == 8", "(10 \\ {N}) == 10", "(10 % {N}) == 0", "@_a[{N}] >= 0", "!_a[{N}] == 3",
    "uint8({N}) == 0x62", "int16({N} + 1) == 0x6362", "{N} of them in (0..5) and $_a", "{N} of them in (0..5) or {N} of them at 7",
    "not {N} of them in (0..5)", "{B} of them", "{B} of them in (0..5)", "for {B} of them : ($)", "$_a at {B}", "$_a in ({B}..9)",
    "(4 >> {B}) == 2", "{B} of them in (0..5) and {N} of them in (0..9)",
]
POS_N = [0, 1, 2, 3, -1]
POS_B = [0, 1]
POS_BUFS = [b"nothing to see, move along", b"..abc.. and some more text", b"abc xyz qq", b"qq.abc", b"zabcxyz qq abc"]


def pos_lit(v):
    return str(v) if v >= 0 else "(-%d)" % -v


def pos_family(chk, h, model):
    """returns (evaluations, agreeing comparisons)"""
    # 1. which forms compile at all (a literal can be rejected where the external is not: negative counts, x / 0 ...)
    forms = []      # (rule name, template index, n value or None, b value or None, condition)
    for ti, t in enumerate(POS_TEMPLATES):
        forms.append(("e%d" % ti, ti, None, None, t.replace("{N}", "n").replace("{B}", "b")))
        ns = POS_N if "{N}" in t else [None]
        bs = POS_B if "{B}" in t else [None]
        for nv in ns:
            for bv in bs:
                c = t
                if nv is not None:
                    c = c.replace("{N}", pos_lit(nv))
                if bv is not None:
                    c = c.replace("{B}", pos_lit(bv))
                forms.append(("t%d_%s_%s" % (ti, "x" if nv is None else str(nv).replace("-", "m"), "x" if bv is None else bv), ti, nv, bv, c))
    pre = [(f[0], ["newcompiler", "defi n 0", "defb b 0", "add " + hx(("rule %s { %s%s }" % (f[0], POS_STR, f[4])).encode()), "getrules"]) for f in forms]
    out, _ = vlib.run_cases(h, pre)
    good = [f for f in forms if any(l == "getrules rc=0" for l in out.get(f[0], []))]
    ext_ok = {f[1] for f in good if f[0].startswith("e")}
    good = [f for f in good if f[1] in ext_ok]
    twin = {(f[1], f[2], f[3]): f[0] for f in good if not f[0].startswith("e")}
    src = "\n".join("rule %s { %s%s }" % (f[0], POS_STR, f[4]) for f in good)
    chk.note(position_templates=len(POS_TEMPLATES), position_templates_compiling=len(ext_ok), position_literal_twins=len(twin))
    # 2. histories: the value in force comes from each of the three levels
    nh = 4 if chk.tier == "quick" else 24
    cases = []
    for j in range(nh):
        r = chk.rng.fork()
        n0, b0 = (0, 0) if j == 0 else (r.choice(POS_N), r.choice(POS_B))
        ops = [("cd:1:i%d" % n0, ["defi n %d" % n0]), ("cd:2:b%d" % b0, ["defb b %d" % b0]),
               ("gr", ["add " + hx(src.encode()), "getrules"])]

        def scans(slot):
            for buf in POS_BUFS:
                if slot is None:
                    ops.append(("rs", ["rscan 0 0 " + hx(buf)]))
                else:
                    ops.append(("sc:%d" % slot, ["sel %d" % slot, "scan " + hx(buf)]))
        scans(None)                                   # compile-time values
        ops.append(("cr:0", ["scanner 0"]))
        for step in range(3 if chk.tier == "quick" else 6):
            lvl = r.choice("rrss")
            if r.chance(2, 3):
                v = r.choice(POS_N) if not (j == 1 and step == 0) else 0
                tok, line = ("i%d" % v, "defi n %d" % v)
                x = 1
            else:
                v = r.choice(POS_B)
                # scanner level accepts both functions for both variables; rules level needs the declared one
                tok, line = ("b%d" % v, "defb b %d" % v)
                x = 2
            if lvl == "r":
                ops.append(("rd:%d:%s" % (x, tok), ["r" + line]))
                scans(None)                           # yr_rules_scan_mem sees it ...
                scans(0)                              # ... the existing scanner does not
                if step == 0:
                    ops.append(("cr:1", ["scanner 1"]))
                    scans(1)
            else:
                ops.append(("sd:0:%d:%s" % (x, tok), ["sel 0", "s" + line]))
                scans(0)
                scans(None)
        cases.append(("pos%d" % j, ops))
    hcases = [(cid, ["newcompiler", "strings 0"] + [l for _, hl in ops for l in hl]) for cid, ops in cases]
    out, _ = vlib.run_cases(h, hcases, timeout=1500)
    mlines, _ = vlib.run_lines(model, ["c20 " + " ".join(t for t, _ in ops) + " | " for _, ops in cases])
    evals = agree = 0
    by_rule = {f[0]: f for f in good}
    for (cid, ops), ml in zip(cases, mlines):
        toks = ml.split(" ; ")
        lines = [l for l in out.get(cid, []) if l.startswith("scan msgs=") or l.startswith("crash")]
        replay = {"case": cid, "harness_lines": dict(hcases)[cid], "model": ml[:2000], "rules": src,
                  "how": "feed 'case x' + harness_lines + 'endcase' to the h_hist binary"}
        if len(toks) != len(ops):
            chk.violation("model-runner", "model runner failed on %s: %s" % (cid, ml[:300]), replay, found_input=False)
            continue
        si = 0
        for (tok, hl), mt in zip(ops, toks):
            if not tok.startswith(("sc", "rs")):
                continue
            if si >= len(lines) or lines[si].startswith("crash") or not mt.startswith("seen"):
                chk.violation("crash-positions", "%s: no scan result at '%s': %s / model %s" % (cid, tok, lines[si:si + 1], mt[:80]), replay)
                break
            env, _, _ = parse_seen(mt)
            m = re.match(r"scan msgs=(\S*) rc=(-?\d+)", lines[si])
            si += 1
            verdict = {}
            for t in m.group(1).split(";"):
                p = t.split(":")
                if len(p) >= 3 and p[0] in "MN":
                    verdict[p[2]] = p[0]
            nv, bv = env[1][1], env[2][1]
            for name, f in by_rule.items():
                if not name.startswith("e"):
                    continue
                t = POS_TEMPLATES[f[1]]
                tw = twin.get((f[1], nv if "{N}" in t else None, bv if "{B}" in t else None))
                if tw is None:
                    continue
                evals += 1
                if verdict.get(name) != verdict.get(tw):
                    chk.violation("external-vs-literal:" + t, "%s: with n=%d b=%d in force (%s), buffer %r: 'condition: %s' is %s but the same condition "
                                  "with the literal, '%s', is %s" % (cid, nv, bv, tok, vlib.unhx(hl[-1].split()[-1]), f[4], verdict.get(name),
                                                                      by_rule[tw][4], verdict.get(tw)),
                                  dict(replay, scan=hl, external_rule=name, literal_rule=tw))
                else:
                    agree += 1
    return evals, agree


def run(chk):
    global NAMES
    ok, log, st = vlib.proof_obligations(chk, PROPS)
    if not ok:
        chk.violation("proof", "proof obligations of C20 no longer check: " + log[-1500:], {"log": log[-4000:]}, found_input=False)
    h = hharness()
    import c10
    model = c10.hist_runner()
    ncases = 60 if chk.tier == "quick" else 600
    cases = []
    for i in range(ncases):
        cases.append(("r%d" % i, gen_case(chk.rng.fork())))
    for hz in ("null-compiler", "null-scanner", "save"):
        for j in range(2 if chk.tier == "quick" else 6):
            cases.append(("%s%d" % (hz, j), gen_case(chk.rng.fork(), hazard=hz)))
    # externals named like modules, several scans per scanner; rule sets importing nothing / a different module / the
    # module of the same name (legal: the external shadows it, only `time.now()`-like member access is a compile error)
    for j in range(9 if chk.tier == "quick" else 60):
        imp = [(), ("console",), ("time",), ("console", "math"), ("string",)][j % 5]
        cases.append(("modname%d" % j, gen_case(chk.rng.fork(), names=NAMES_MODULE, imports=imp, multi=True)))
    for j in range(3 if chk.tier == "quick" else 12):
        cases.append(("multi%d" % j, gen_case(chk.rng.fork(), imports=[(), ("console",)][j % 2], multi=True)))
    hcases = []
    for cid, c in cases:
        lines = ["newcompiler", "strings 0"]
        for tok, hl in c["ops"]:
            lines += hl
        hcases.append((cid, lines))
    out, err = vlib.run_cases(h, hcases)
    mlines, _ = vlib.run_lines(model, ["c20 " + " ".join(t for t, _ in c["ops"]) + " | " + " ".join(c_model(x) for x in c["conds"])
                                       for _, c in cases])
    K = vlib.consts()
    agree = 0
    evals = 0
    nontriv = set()
    twins = []          # (case id, op index, env, expected bits)
    opkinds = {}
    for (cid, c), ml in zip(cases, mlines):
        NAMES = c["names"]
        res = out.get(cid, [])
        toks = ml.split(" ; ")
        replay = {"case": cid, "harness_lines": dict(hcases)[cid], "model_cmd": "c20 " + " ".join(t for t, _ in c["ops"]),
                  "impl": res[:80], "model": ml[:3000], "rules": [c_text(x, None) for x in c["conds"]],
                  "how": "feed 'case x' + harness_lines + 'endcase' to the h_hist binary (build.harness('h_hist'))"}
        if len(toks) != len(c["ops"]):
            chk.violation("model-runner", "model runner failed on %s: %s" % (cid, ml[:300]), replay, found_input=False)
            continue
        # walk the implementation's output
        pos = 0
        # "newcompiler rc=0" first
        lines = [l for l in res if not l.startswith("cb ")]
        pos = 1
        accepted = []      # compile-time definitions the implementation accepted
        dead = False
        cur_tok = "-"
        for (tok, hl), mt in zip(c["ops"], toks):
            evals += 1
            kind = tok.split(":")[0]
            opkinds[kind] = opkinds.get(kind, 0) + 1
            prev_tok, cur_tok = cur_tok, tok
            want_lines = [x for x in hl if not x.startswith("sel ") and x not in ("sdestroy", "use loaded")]
            got = lines[pos:pos + len(want_lines)]
            crashed = any(l.startswith("crash") for l in lines[pos:pos + len(want_lines)]) or (
                len(got) < len(want_lines) and any(l.startswith("crash") for l in lines[pos:]))
            if mt == "crash":
                # the model of the code says: misbehaves here.  The only such place left is saving after a
                # rules-level string redefinition (known finding, key save-after-string-redefine)
                key = "save-after-string-redefine" if kind == "sv" else "model-crash-" + kind
                if crashed:
                    chk.violation(key, "%s: the implementation crashes at '%s' (%s) as the model of the code predicts: %s" % (
                        cid, tok, " / ".join(hl)[:120], [l for l in lines[pos:] if l.startswith("crash")][:1]), replay)
                    agree += 1
                else:
                    chk.violation("corr-" + key, "%s: model predicts a crash at '%s' but the implementation answered %s" % (cid, tok, got),
                                  replay, found_input=False)
                dead = True
                break
            if crashed:
                null_c = any(t.startswith("cd:") and t.endswith(":sNULL") for t, _ in c["ops"])
                key = ("scanner-null-string" if kind == "sd" and tok.endswith(":sNULL") else
                       "null-string-then-create" if null_c and kind in ("cr", "rs", "sc") else "crash-" + kind)
                chk.violation(key, "%s: the implementation crashes at '%s' (%s); model: %s" % (cid, tok, " / ".join(hl)[:120], mt), replay)
                dead = True
                break
            pos += len(want_lines)
            okc = True
            if kind in ("cd", "rd", "sd", "cr"):
                m = re.search(r"rc=(-?\d+)", got[-1]) if got else None
                rc = int(m.group(1)) if m else None
                want = 0 if mt == "ok" else int(mt[3:]) if mt.startswith("err") else None
                if kind == "cd" and rc == 0:
                    accepted.append(tok.split(":")[1])
                if rc != want:
                    okc = False
                    chk.violation("corr-rc-" + kind, "%s: '%s' returns %s, model %s" % (cid, tok, rc, mt), replay, found_input=True)
                nontriv.add((kind, mt, tok.split(":")[-1][0]))
            elif kind == "gr":
                if not (got and got[0].startswith("add errors=0") and got[1] == "getrules rc=0"):
                    okc = False
                    chk.violation("gen", "%s: generated rules do not compile: %s" % (cid, got), replay, found_input=False)
                    dead = True
                    break
                # the externals table lists exactly the accepted definitions (invalid ones changed nothing)
                ext = re.findall(r"E:(\w+):(\d+):", got[2])
                names = [NAMES[int(a)] for a in accepted]
                if len(got) > 3:
                    chk.add("histories_on_reloaded_rules")
                    if got[3] != "reload rc=0" or re.findall(r"E:[^;]*;", got[4]) != re.findall(r"E:[^;]*;", got[2]):
                        chk.violation("reload-externals", "%s: externals table after save+load differs: %s / %s" % (
                            cid, re.findall(r"E:[^;]*;", got[2]), got[3:5]), replay)
                if [e[0] for e in ext] != names:
                    chk.violation("rejected-define-left-entry", "%s: externals table of the rule set is %s but the accepted definitions are %s "
                                  "(a rejected definition left an entry behind)" % (cid, [e[0] for e in ext], names), replay)
            elif kind in ("sc", "rs"):
                bits, rc = verdicts(got[0], len(c["conds"])) if got else (None, None)
                if mt.startswith("seen"):
                    env, mbits, lbits = parse_seen(mt)
                    if len(got) > 1 and got[1].startswith("dump"):
                        # the externals table of the rule set against the model's rule-set values (what a new scanner gets)
                        tab = []
                        for nm, ty, val in re.findall(r"E:(\w+):(\d+):([^;]*);", got[1]):
                            if ty in ("2", "3"):
                                tab.append((nm, "i", int(val)))
                            elif ty == "1":
                                tab.append((nm, "f", Fraction(float(val))))
                            else:
                                tab.append((nm, "s", vlib.unhx(val) if val != "null" else None))
                        want_tab = [(NAMES[k], v[0], v[1]) for k, v in env.items()]
                        if tab != want_tab:
                            okc = False
                            chk.violation("externals-table", "%s: after '%s' the rule set's externals table is %s, the model's %s" % (
                                cid, prev_tok, tab, want_tab), replay)
                    if bits != mbits or rc != 0:
                        okc = False
                        chk.violation("corr-verdict", "%s: scan '%s' reports %s rc=%s, model %s (values %s)" % (cid, tok, bits, rc, mbits, mt[:200]), replay)
                    if mbits != lbits:
                        chk.violation("model-literals", "model: literal substitution changes a verdict: %s" % mt[:300], replay, found_input=False)
                    twins.append((cid, len(twins), env, mbits, c))
                    nontriv.add(("scan", mbits))
                else:
                    want = int(mt[3:]) if mt.startswith("err") else None
                    if rc != want:
                        okc = False
                        chk.violation("corr-scan-rc", "%s: scan '%s' rc=%s, model %s" % (cid, tok, rc, mt), replay)
            elif kind == "sv":
                if not (got and got[0].startswith("save rc=0")):
                    okc = False
                    chk.violation("corr-save", "%s: save: %s, model %s" % (cid, got[:1], mt), replay)
            if okc:
                agree += 1
        if not dead and any(l.startswith("crash") for l in lines):
            chk.violation("crash-late", "%s: crash after the history: %s" % (cid, lines[-2:]), replay)
    # ---- "like literals": the same conditions with literals of the values the scan sees
    tcases = []
    for cid, ti, env, bits, c in twins:
        src = "\n".join("rule r%d { condition: %s }" % (i, c_text(x, env)) for i, x in enumerate(c["conds"]))
        tcases.append(("t%d" % ti, ["newcompiler", "strings 0", "add " + hx(src.encode()), "getrules", "rscan 0 0 78"]))
    tout, _ = vlib.run_cases(h, tcases)
    tw_ok = 0
    for (cid, ti, env, bits, c), (tid, tl) in zip(twins, tcases):
        NAMES = c["names"]
        res = tout.get(tid, [])
        sl = [l for l in res if l.startswith("scan msgs=")]
        tb, rc = verdicts(sl[0], len(c["conds"])) if sl else (None, None)
        evals += 1
        if tb is None and any("696e7465676572206f766572666c6f77" in l for l in res):
            chk.add("twins_skipped_constant_overflow")    # the compiler rejects an overflowing CONSTANT product; not a verdict
            continue
        if tb != bits:
            chk.violation("literal-twin", "%s: conditions over externals give %s, the same conditions over literals of the same values give %s" % (cid, bits, tb),
                          {"case": cid, "externals": {NAMES[k]: str(v) for k, v in env.items()}, "literal_rules": tl[2],
                           "rules": [c_text(x, None) for x in c["conds"]], "impl": res[:6]})
        else:
            tw_ok += 1
    pe, pa = pos_family(chk, h, model)
    evals += pe
    chk.note(position_twin_comparisons=pe, position_twin_agree=pa)
    chk.note(evaluations=evals, distinct_nontrivial=len(nontriv), traces_validated_against_impl=agree, literal_twins_agree=tw_ok,
             op_kinds=opkinds, histories=len(cases),
             rule="random histories: 2-5 variables of the four types, compile-time defines (with duplicates), 4-8 probe rules over "
                  "== != < <= > >= + - * unary-, contains/icontains/startswith/istartswith/endswith/iendswith/iequals/==/!=, truth "
                  "values, not/and/or; externals named with prefix-related identifiers or like built-in modules (time, math, pe, hash + a control; rule sets importing nothing, "
                  "another module, or the module of the same name), then 6-16 rules-level / scanner-level defines (right type, wrong type, unknown identifier, NULL "
                  "string), scanner creations (3 slots), scans, yr_rules_scan_mem, destroys, save; one history in three runs on the rule set after "
                  "save + load; plus targeted hazard histories "
                  "(NULL string first at compiler / scanner level, save after string redefinition). distinct = (operation kind, model "
                  "outcome, value type) and distinct verdict vectors")
    # an external shadows the module of the same name: using it as a module is a compile error, not a crash
    eo, _ = vlib.run_cases(h, [("shadow", ["newcompiler", "defi time 1", "add " + hx(b'import "time" rule r { condition: time.now() > 0 }'), "getrules"])])
    evals += 1
    if not any(l.startswith("add errors=1") for l in eo.get("shadow", [])) or not any("6e6f742061207374727563747572" in l for l in eo.get("shadow", [])):
        chk.violation("shadowed-module-member", "import \"time\" + external time + time.now(): expected the compile error '\"time\" is not a structure', got %s" % eo.get("shadow"),
                      {"impl": eo.get("shadow")})
    for cid, c in cases[:3]:
        NAMES = c["names"]
        chk.sample({"case": cid, "ops": [t for t, _ in c["ops"]][:14], "rules": [c_text(x, None) for x in c["conds"]][:4]})
    chk.assumptions += ["identifiers are non-NULL C strings; values handed to the string functions are NUL-terminated (no embedded NUL)",
                        "float values are multiples of 1/8 below 2^20 so that double arithmetic is exact and the rational model applies",
                        "compile-time definitions precede yr_compiler_add_string; one rule set per compiler",
                        "integer overflow in + - * wraps (two's complement), as the compiled VM does"]
