
let () =
  try
    while true do
      let line = input_line stdin in
      (try
         match words line with
         | cmd :: args when Hashtbl.mem handlers cmd -> print_endline ((Hashtbl.find handlers cmd) args)
         | _ -> print_endline ("unknown " ^ line)
       with e -> print_endline ("exception " ^ Printexc.to_string e))
    done
  with End_of_file -> ()
