(* C19: in-memory arena model (coq/Model/ArenaMem.v).
   arenamem <nb> <cap> <answers: a,b,c | -> <ops>
     ops: op;op;...   A:b:n  R:b:hex  W:b:hex  S:b:n:o1,o2|-  L:b:off:tb:to|L:b:off:N  P:b:off:tb:to|..:N
                      B:b:off:hex  E:b:i:tb:to|E:b:i:N
   answers: the results of the successive yr_realloc calls: address or address/size (decimal) *)
let rec am_nat_of_int (i : int) = if i <= 0 then O else S (am_nat_of_int (i - 1))
let rec am_int_of_nat n = match n with O -> 0 | S m -> 1 + am_int_of_nat m
let am_n_of_dec (s : string) : n = match z_of_string s with Z0 -> N0 | Zpos p -> Npos p | Zneg _ -> N0
let am_target = function
  | ["N"] -> None
  | [tb; t_o] -> Some (am_nat_of_int (int_of_string tb), am_nat_of_int (int_of_string t_o))
  | _ -> failwith "target"
let am_op (s : string) =
  let nat x = am_nat_of_int (int_of_string x) in
  match String.split_on_char ':' s with
  | ["A"; b; n] -> OAlloc (nat b, nat n)
  | ["R"; b; h] -> OAllocRaw (nat b, unhex h)
  | ["W"; b; h] -> OWrite (nat b, unhex h)
  | ["S"; b; n; offs] ->
      OStruct (nat b, nat n, if offs = "-" then [] else List.map nat (String.split_on_char ',' offs))
  | "L" :: b :: off :: t -> ORelocStore (nat b, nat off, am_target t)
  | "P" :: b :: off :: t -> OStorePtr (nat b, nat off, am_target t)
  | ["B"; b; off; h] -> OStoreBytes (nat b, nat off, unhex h)
  | "E" :: b :: i :: t -> OEmitArgReloc (nat b, n_of_int (int_of_string i), am_target t)
  | _ -> failwith ("op " ^ s)
let am_bufs l = String.concat "|" (List.map hex l)
let am_relocs l = if l = [] then "-" else
  String.concat "," (List.map (fun (b, o) -> string_of_n b ^ "." ^ string_of_n o) l)
let am_disc = function
  | AOk a -> let (b, r) = am_aabs a in "ok aabs=" ^ am_bufs b ^ " arelocs=" ^ am_relocs r
  | AErr EInvalidArgument -> "err_invalid_argument" | AErr ENoMem -> "err_nomem" | ABadId -> "bad_id"
  | ADisc DNotRegistered -> "not_registered" | ADisc DTarget -> "target" | ADisc DRegion -> "region"
  | ADisc DOverlap -> "overlap" | ADisc DSameBuffer -> "same_buffer"

let () = register "arenamem" (fun args -> match args with
  | [nb; cap; answers; ops] ->
      let ops = if ops = "-" then [] else List.map am_op (String.split_on_char ';' ops) in
      let ans1 a = (match String.split_on_char '/' a with
                    | [x; sz] -> (am_n_of_dec x, Some (am_n_of_dec sz))
                    | _ -> (am_n_of_dec a, None)) in
      let ans = if answers = "-" then [] else List.map ans1 (String.split_on_char ',' answers) in
      let nbn = am_nat_of_int (int_of_string nb) in
      let d = "disc=" ^ am_disc (am_arun true nbn ops) in
      let dn = (match am_arun false nbn ops with AOk _ -> "nsdisc=ok" | _ -> "nsdisc=no") in
      let pin = (match am_run_pinned nbn (am_n_of_dec cap) ans ops with
                 | MBad BadDirtyZero -> "pinned=dirty_zero" | MOk _ -> "pinned=ok" | _ -> "pinned=other") in
      let d = pin ^ " " ^ d in
      (match am_run nbn (am_n_of_dec cap) ans ops with
       | MOk m ->
           let (b, r) = am_abs m in
           Printf.sprintf "ok calls=%d found=%b mem=%s bases=%s abs=%s relocs=%s save=%s %s %s"
             (am_int_of_nat (am_calls m)) (am_found m)
             (am_bufs (List.map snd (am_mem m)))
             (String.concat "," (List.map (fun (a, _) -> string_of_n a) (am_mem m)))
             (am_bufs b) (am_relocs r) (hex (am_save m)) dn d
       | MErr EInvalidArgument -> "err invalid_argument " ^ d
       | MErr ENoMem -> "err nomem " ^ d
       | MBad BadBufferId -> "bad buffer_id " ^ d
       | MBad BadAssertPtr -> "bad assert_ptr " ^ d
       | MBad BadStoreOOB -> "bad store_oob " ^ d
       | MBad BadHang -> "bad hang " ^ d
       | MBad BadDirtyZero -> "bad dirty_zero " ^ d
       | MBad BadPlacement -> "bad placement " ^ d)
  | _ -> "usage")
