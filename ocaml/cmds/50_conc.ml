(* C09: commands over Model/Concurrent.v (the concrete instance i_xxx)
   c09 <rules th.th..> <progs t0/t1/...> <schedule t,t,t..> [every]
     program = ops separated by ',':  E X (MEnter MExit)  S<int> (MScan)  C D (create destroy)  V<int> (define)
               G g (MGuard i_ok / MEndGuard)  W (yr_rule_disable on rule 0)  H<int> (application sigaction)  R (racy enter)
               scan:<b.b.b>:<exec>:<report>   scannt:...  (the shapes of yr_scanner_scan_mem_blocks)
   prints the view after the schedule (or, with "every", after every prefix, separated by " ; ") *)
let rec cc_nat_of_int (i : int) : nat = if i <= 0 then O else S (cc_nat_of_int (i - 1))
let rec cc_int_of_nat (x : nat) : int = match x with O -> 0 | S y -> 1 + cc_int_of_nat y
let cc_split c s = if s = "-" || s = "" then [] else String.split_on_char c s
let cc_z s = z_of_int (int_of_string s)
let cc_ops (s : string) =
  List.concat_map (fun tok ->
    let rest () = String.sub tok 1 (String.length tok - 1) in
    match String.split_on_char ':' tok with
    | ["scan"; bl; ex; rp] -> i_scan_call (List.map cc_z (cc_split '.' bl)) (cc_z ex) (cc_z rp)
    | ["scannt"; bl; ex; rp] -> i_scan_call_notry (List.map cc_z (cc_split '.' bl)) (cc_z ex) (cc_z rp)
    | _ ->
      (match tok.[0] with
       | 'E' -> [MEnter] | 'X' -> [MExit] | 'C' -> [MCreate] | 'D' -> [MDestroy]
       | 'S' -> [MScan (cc_z (rest ()))] | 'V' -> [MDefine ((), cc_z (rest ()))]
       | 'G' -> [MGuard i_ok] | 'g' -> [MEndGuard] | 'W' -> [MRulesWrite i_disable0]
       | 'H' -> [MSigaction (cc_nat_of_int (int_of_string (rest ())))] | 'R' -> [MEnterRacy]
       | _ -> failwith ("op " ^ tok))) (cc_split ',' s)
let cc_opt f = function None -> "-" | Some x -> f x
let cc_view g =
  let ((((count, inst), mutex), handler), ls) = i_view g in
  let th (((((c, crit), tls), fin), ctx)) =
    Printf.sprintf "%s:%d:%s:%d:%s" (string_of_z c) (if crit then 1 else 0) (cc_opt (fun n -> string_of_int (cc_int_of_nat n)) tls)
      (if fin then 1 else 0)
      (cc_opt (fun c -> Printf.sprintf "%s.%d.%s" (string_of_z c.ic_ext) (if c.ic_err then 1 else 0)
                 (String.concat "" (List.map string_of_z c.ic_trace))) ctx) in
  Printf.sprintf "count=%s installed=%d mutex=%s handler=%s threads=%s" (string_of_z count) (if inst then 1 else 0)
    (cc_opt (fun n -> string_of_int (cc_int_of_nat n)) mutex)
    (match handler with HYara -> "yara" | HApp n -> "app" ^ string_of_int (cc_int_of_nat n))
    (String.concat "," (List.map th ls))
let () = register "c09" (fun args ->
  let go rules progs sched every =
    let r = List.map (fun t -> (cc_z t, false)) (cc_split '.' rules) in
    let ps = List.map cc_ops (String.split_on_char '/' progs) in
    let g0 = i_init r (HApp O) ps in
    let sc = List.map (fun t -> cc_nat_of_int (int_of_string t)) (cc_split ',' sched) in
    if not every then cc_view (i_run sc g0)
    else begin
      let g = ref g0 in
      let out = ref [cc_view g0] in
      List.iter (fun t -> g := i_run [t] !g; out := cc_view !g :: !out) sc;
      String.concat " ; " (List.rev !out)
    end in
  match args with
  | [rules; progs; sched] -> go rules progs sched false
  | [rules; progs; sched; "every"] -> go rules progs sched true
  | _ -> "usage")
let () = register "c09bal" (fun args -> match args with
  | [mx; prog] -> if i_bal (cc_nat_of_int (int_of_string mx)) O None (cc_ops prog) then "1" else "0"
  | _ -> "usage")
