(* C18: replay of an op trace of the real cli/yara.c (scheduler shim, harness/h_c18_shim.c) in the
   extracted model of the file queue (Model/Queue.v over gen/GenQueue.v).
   qreplay <nfiles> <nthreads> <ev>... [END|DEADLOCK]
     ev = tid,head,tail,pending,item   (one scheduling decision of the shim; item = file index or -)
   Before every step: queue_head/queue_tail of the implementation = head/tail of the model; for every
   thread whose pending operation is a queue operation: the model's next op of that thread is the same
   operation, and it is enabled in the model iff it is enabled in the implementation.  Then the step
   is executed in the model ('t' = the non-synchronising ops up to the next synchronising one). *)
let rec q_nat_of_int n = if n <= 0 then O else S (q_nat_of_int (n - 1))
let rec q_int_of_nat = function O -> 0 | S n -> 1 + q_int_of_nat n

let () = register "qreplay" (fun args -> match args with
  | nf :: nt :: evs ->
      let nfiles = int_of_string nf and n = int_of_string nt in
      let files = List.init nfiles q_nat_of_int in
      let cfg = queue_cfg in
      let st = ref (qinit cfg files (q_nat_of_int n)) in
      let k = ref 0 in
      let fin = ref "" in
      let fail fmt = Printf.ksprintf failwith fmt in
      let res =
        try
          List.iter (fun ev ->
            if ev = "END" || ev = "DEADLOCK" then fin := ev else begin
            incr k;
            match String.split_on_char ',' ev with
            | [tid; h; t; pend; item] ->
                let tid = int_of_string tid in
                let s = !st in
                let mh = q_int_of_nat s.q_sh.q_head and mt = q_int_of_nat s.q_sh.q_tail in
                if mh <> int_of_string h || mt <> int_of_string t then
                  fail "head/tail: implementation %s/%s model %d/%d" h t mh mt;
                String.iteri (fun i c ->
                  let code = match Char.lowercase_ascii c with
                    | 'w' -> 1 | 'v' -> 2 | 'r' -> 3 | 's' -> 4 | 'l' -> 5 | 'u' -> 6 | _ -> 0 in
                  if code > 0 then begin
                    let mc = q_int_of_nat (qnext_code cfg (q_nat_of_int i) s) in
                    if mc <> code then fail "thread %d: implementation is about to do '%c', model op code %d" i c mc;
                    let en = qenabled_thread cfg files (q_nat_of_int i) s in
                    if en <> (c = Char.uppercase_ascii c) then
                      fail "thread %d op '%c': enabled in the model = %b" i c en
                  end) pend;
                if tid >= String.length pend then fail "bad thread id %d" tid;
                (match pend.[tid] with
                 | 't' -> st := qsilent cfg files (q_nat_of_int 64) (q_nat_of_int tid) s
                 | 'W' | 'V' | 'R' | 'S' | 'L' | 'U' as c ->
                     if c = 'U' then begin
                       let mi =
                         if tid = 0 then (match s.q_prod with QPut (_, idx) -> string_of_int (q_int_of_nat idx) | QFin _ -> "?")
                         else (match List.nth_opt s.q_cons (tid - 1) with
                               | Some cs -> (match cs.qc_res with Some f -> string_of_int (q_int_of_nat f) | None -> "-")
                               | None -> "?") in
                       if mi <> item then fail "thread %d leaves the critical section with item %s, model %s" tid item mi
                     end;
                     (match qstep_thread cfg files (q_nat_of_int tid) s with
                      | Some s' -> st := s'
                      | None -> fail "thread %d op '%c' is not enabled in the model" tid c)
                 | _ -> ())
            | _ -> fail "bad event %s" ev end) evs;
          ""
        with Failure m -> m in
      let s = !st in
      let got = String.concat "|" (List.map (fun c ->
        String.concat "," (List.map (fun f -> string_of_int (q_int_of_nat f)) c.qc_got)) s.q_cons) in
      let en = List.length (qenabled_threads cfg files s) in
      let res =
        if res <> "" then res
        else if !fin = "END" && not (qterminal s) then "trace ended but the model is not in a terminal state"
        else if !fin = "DEADLOCK" && (en > 0 || qterminal s) then
          Printf.sprintf "implementation deadlocked, model has %d enabled threads" en
        else "" in
      if res <> "" then Printf.sprintf "mismatch step=%d %s" !k res
      else Printf.sprintf "ok steps=%d fin=%s terminal=%b enabled=%d used=%d unused=%d got=%s" !k !fin (qterminal s) en
             (q_int_of_nat s.q_sh.q_used) (q_int_of_nat s.q_sh.q_unused) got
  | _ -> "usage")

(* qexplore <nfiles> <nthreads> <seed> <walks>: random walks in the model (used when the proofs no
   longer check, to look for a schedule that deadlocks or loses/duplicates a file; the schedule found
   is then replayed on the real code through the shim) *)
let () = register "qexplore" (fun args -> match args with
  | [nf; nt; seed; walks] ->
      let nfiles = int_of_string nf and n = int_of_string nt in
      let files = List.init nfiles q_nat_of_int in
      let cfg = queue_cfg in
      let rs = ref (int_of_string seed) in
      let rnd m = rs := (!rs * 1103515245 + 12345) land 0x3fffffff; (!rs lsr 8) mod m in
      let found = ref "" in
      let w = ref 0 in
      while !found = "" && !w < int_of_string walks do
        incr w;
        let mode = rnd 4 in
        let st = ref (qinit cfg files (q_nat_of_int n)) in
        let sched = ref [] in
        let steps = ref 0 in
        let stop = ref false in
        while not !stop && !steps < 200000 do
          incr steps;
          let s = !st in
          if qterminal s then begin
            stop := true;
            let d = List.sort compare (List.map q_int_of_nat (qdelivered s)) in
            if d <> List.init nfiles (fun i -> i) then
              found := Printf.sprintf "lost-or-duplicated delivered=%s" (String.concat "," (List.map string_of_int d))
          end else begin
            let en = List.map q_int_of_nat (qenabled_threads cfg files s) in
            if en = [] then begin stop := true; found := "deadlock" end
            else begin
              let t =
                if mode = 1 && List.mem 0 en && rnd 8 <> 0 then 0
                else if mode = 2 && List.length en > 1 && rnd 8 <> 0 then List.nth (List.filter (fun x -> x <> 0) en) (rnd (List.length (List.filter (fun x -> x <> 0) en)))
                else if mode = 3 && !sched <> [] && List.mem (List.hd !sched) en && rnd 6 <> 0 then List.hd !sched
                else List.nth en (rnd (List.length en)) in
              sched := t :: !sched;
              match qstep_thread cfg files (q_nat_of_int t) s with Some s' -> st := s' | None -> stop := true
            end
          end
        done;
        if !found <> "" then
          found := !found ^ " sched=" ^ String.concat "," (List.rev_map string_of_int !sched)
      done;
      if !found = "" then Printf.sprintf "none walks=%d" !w else "found " ^ !found
  | _ -> "usage")
