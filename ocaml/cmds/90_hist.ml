
(* C10 / C20: operation histories on scanners and external variables (Model/ScannerHist.v, Model/Externals.v) *)
let rec hist_nat_of_int (i : int) : nat = if i <= 0 then O else S (hist_nat_of_int (i - 1))
let rec hist_int_of_nat (x : nat) : int = match x with O -> 0 | S y -> 1 + hist_int_of_nat y
let hist_split_on (sep : string) (l : string list) : string list list =
  let rec go acc cur = function
    | [] -> List.rev (List.rev cur :: acc)
    | x :: t when x = sep -> go (List.rev cur :: acc) [] t
    | x :: t -> go acc (x :: cur) t in
  go [] [] l
let hist_pos_of_string s = match z_of_string s with Zpos p -> p | _ -> failwith "pos"
let hist_n_of_string s = match z_of_string s with Z0 -> N0 | Zpos p -> Npos p | _ -> failwith "n"
let hist_optn s = if s = "-" then None else Some (hist_n_of_string s)
let hist_str_optn = function None -> "-" | Some x -> string_of_n x
let hist_q_of_string s = match String.split_on_char '/' s with
  | [a; b] -> { qnum = z_of_string a; qden = hist_pos_of_string b }
  | [a] -> { qnum = z_of_string a; qden = XH }
  | _ -> failwith "q"
let hist_dval (s : string) =
  let rest = String.sub s 1 (String.length s - 1) in
  match s.[0] with
  | 'i' -> DI (z_of_string rest)
  | 'b' -> DB (z_of_string rest)
  | 'f' -> DF (hist_q_of_string rest)
  | 's' -> if rest = "NULL" then DS None else DS (Some (unhex rest))
  | _ -> failwith "dval"
let hist_payload_str = function
  | PI z -> "i" ^ string_of_z z
  | PF q -> "f" ^ string_of_z q.qnum ^ "/" ^ string_of_pos q.qden
  | PS s -> "s" ^ hex s
  | PNull -> "null"
let hist_payload_of s = dval_payload (hist_dval s)
let hist_objs_str o = String.concat "," (List.map (fun (k, v) -> string_of_n k ^ ":" ^ hist_payload_str v) o)
let hist_res_str = function ROk -> "ok" | RErr c -> "err" ^ string_of_z c | RCrash -> "crash" | RMisuse -> "misuse"

(* ---- S-expressions for conditions:  name(arg,arg,...)  *)
type hist_sx = Sx of string * hist_sx list
let hist_parse_sx (s : string) : hist_sx =
  let n = String.length s in
  let pos = ref 0 in
  let rec node () =
    let st = !pos in
    while !pos < n && s.[!pos] <> '(' && s.[!pos] <> ',' && s.[!pos] <> ')' do incr pos done;
    let name = String.sub s st (!pos - st) in
    if !pos < n && s.[!pos] = '(' then begin
      incr pos;
      let args = ref [] in
      if s.[!pos] = ')' then incr pos
      else begin
        let fin = ref false in
        while not !fin do
          args := node () :: !args;
          if s.[!pos] = ',' then incr pos else (incr pos; fin := true)
        done
      end;
      Sx (name, List.rev !args)
    end else Sx (name, []) in
  node ()
let rec hist_nexp = function
  | Sx ("liti", [Sx (v, [])]) -> XNLitI (z_of_string v)
  | Sx ("litf", [Sx (v, [])]) -> XNLitF (hist_q_of_string v)
  | Sx ("var", [Sx (v, [])]) -> XNVar (hist_n_of_string v)
  | Sx ("add", [a; b]) -> XNAdd (hist_nexp a, hist_nexp b)
  | Sx ("sub", [a; b]) -> XNSub (hist_nexp a, hist_nexp b)
  | Sx ("mul", [a; b]) -> XNMul (hist_nexp a, hist_nexp b)
  | Sx ("neg", [a]) -> XNNeg (hist_nexp a)
  | Sx (x, _) -> failwith ("nexp " ^ x)
let hist_sexp = function
  | Sx ("slit", [Sx (v, [])]) -> XSLit (unhex v)
  | Sx ("svar", [Sx (v, [])]) -> XSVar (hist_n_of_string v)
  | Sx (x, _) -> failwith ("sexp " ^ x)
let hist_cmp = function "eq" -> XCEq | "ne" -> XCNe | "lt" -> XCLt | "le" -> XCLe | "gt" -> XCGt | "ge" -> XCGe | x -> failwith ("cmp " ^ x)
let hist_sop = function
  | "eq" -> XSEq | "ne" -> XSNe | "contains" -> XSContains | "icontains" -> XSIContains | "startswith" -> XSStartsWith
  | "istartswith" -> XSIStartsWith | "endswith" -> XSEndsWith | "iendswith" -> XSIEndsWith | "iequals" -> XSIEquals
  | x -> failwith ("sop " ^ x)
let rec hist_cond = function
  | Sx ("cmp", [Sx (c, []); a; b]) -> XCCmp (hist_cmp c, hist_nexp a, hist_nexp b)
  | Sx ("str", [Sx (o, []); a; b]) -> XCStr (hist_sop o, hist_sexp a, hist_sexp b)
  | Sx ("truthn", [a]) -> XCTruthN (hist_nexp a)
  | Sx ("truths", [a]) -> XCTruthS (hist_sexp a)
  | Sx ("not", [a]) -> XCNot (hist_cond a)
  | Sx ("and", [a; b]) -> XCAnd (hist_cond a, hist_cond b)
  | Sx ("or", [a; b]) -> XCOr (hist_cond a, hist_cond b)
  | Sx (x, _) -> failwith ("cond " ^ x)

(* ---- C20:  c20 <op> <op> ... | <cond> <cond> ... *)
let hist_c20_op (s : string) =
  match String.split_on_char ':' s with
  | ["cd"; x; v] -> OCDef (hist_n_of_string x, hist_dval v)
  | ["gr"] -> OGetRules
  | ["rd"; x; v] -> ORDef (hist_n_of_string x, hist_dval v)
  | ["cr"; k] -> OCreate (hist_nat_of_int (int_of_string k))
  | ["sd"; k; x; v] -> OSDef (hist_nat_of_int (int_of_string k), hist_n_of_string x, hist_dval v)
  | ["sc"; k] -> OScan (hist_nat_of_int (int_of_string k))
  | ["rs"] -> ORScan
  | ["ds"; k] -> ODestroy (hist_nat_of_int (int_of_string k))
  | ["sv"] -> OSave
  | _ -> failwith ("c20 op " ^ s)

let () = register "c20" (fun args ->
  match hist_split_on "|" args with
  | [ops; conds] ->
      let ops = List.map hist_c20_op ops in
      let conds = List.map (fun c -> hist_cond (hist_parse_sx c)) conds in
      let (_, outs) = c20_run c20_world0 ops in
      String.concat " ; " (List.map (function
        | Res r -> hist_res_str r
        | Seen o ->
            let bits = String.concat "" (List.map (fun c ->
              match c20_eval_cond o c with Some true -> "1" | Some false -> "0" | None -> "x") conds) in
            (* the same conditions with the variables replaced by literals, evaluated without any variable *)
            let lits = String.concat "" (List.map (fun c ->
              match c20_eval_cond [] (c20_subst_c o c) with Some true -> "1" | Some false -> "0" | None -> "x") conds) in
            "seen " ^ hist_objs_str o ^ " v=" ^ bits ^ " lit=" ^ lits) outs)
  | _ -> "usage: c20 ops | conds")

(* ---- C10 *)
exception Hist_need of string
let hist_kind_of = function 'I' -> KImport | 'D' -> KImported | 'C' -> KLog | 'T' -> KTooMany | 'S' -> KSlow
                          | 'R' -> KRule | 'F' -> KFinished | _ -> failwith "kind"
let hist_kind_chr = function KImport -> "I" | KImported -> "D" | KLog -> "C" | KTooMany -> "T" | KSlow -> "S"
                           | KRule -> "R" | KFinished -> "F"
let hist_msgs_of (s : string) =
  if s = "-" then [] else
  List.map (fun t -> (hist_kind_of t.[0], hist_n_of_string (String.sub t 1 (String.length t - 1)))) (String.split_on_char ',' s)
let hist_msgs_str l =
  if l = [] then "-" else String.concat "," (List.map (fun (k, p) -> hist_kind_chr k ^ string_of_n p) l)
let hist_nl (l : n list) = String.concat "_" (List.map string_of_n l)
let hist_residue_str r =
  "m" ^ hist_nl r.r_matches ^ "u" ^ hist_nl r.r_unconfirmed ^ "d" ^ hist_nl r.r_disabled ^ "g" ^ hist_nl r.r_rule_flags
  ^ "n" ^ hist_nl r.r_ns_unsat
let hist_key flags timeout i o ep r =
  Printf.sprintf "f%s.t%s.i%s.e%s.o%s.r%s" (string_of_n flags) (string_of_n timeout) (string_of_n i.in_id)
    (hist_str_optn ep) (hist_objs_str o) (hist_residue_str r)
let hist_kv (s : string) = match String.index_opt s '=' with
  | Some k -> (String.sub s 0 k, String.sub s (k + 1) (String.length s - k - 1))
  | None -> failwith ("kv " ^ s)
let hist_script (s : string) =
  if s = "-" then [] else
  List.map (fun t -> match String.split_on_char '=' t with
    | [k; "a"] -> (hist_nat_of_int (int_of_string k), AnsAbort)
    | [k; "e"] -> (hist_nat_of_int (int_of_string k), AnsError)
    | _ -> failwith "script") (String.split_on_char ',' s)
let hist_optnat s = if s = "-" then None else Some (hist_nat_of_int (int_of_string s))
let hist_state_str s =
  let b l = if l = [] then "0" else "1" in
  Printf.sprintf "alive=%d ep=%s fs=%s fl=%s to=%s nb=%d d=%s%s%s%s%s%s objs=%s pool=%d susp=%d leaked=%d live=%d le=%d"
    (if s.st_alive then 1 else 0) (hist_str_optn s.st_ep) (hist_str_optn s.st_fsize) (string_of_n s.st_flags)
    (string_of_n s.st_timeout) (if s.st_notebook = None then 0 else 1)
    (b s.st_rule_flags) (b s.st_ns_unsat) (b s.st_disabled) (b s.st_matches) (b s.st_unconfirmed) (b s.st_required)
    (hist_objs_str s.st_objs) (hist_int_of_nat s.st_pool) (if s.st_susp = None then 0 else 1)
    (hist_int_of_nat s.st_leaked) (hist_int_of_nat (c10_heap_live s)) (if s.st_last_error = None then 0 else 1)
let hist_trace_str = function
  | TScan (ms, rc) -> "T" ^ hist_msgs_str ms ^ ":" ^ string_of_z rc
  | TRes r -> "R" ^ hist_res_str r
  | TDestroyed k -> "X" ^ string_of_int (hist_int_of_nat k)
  | TNone -> "-"

let () = register "c10" (fun args ->
  match hist_split_on "|" args with
  | [("mod" :: mods); ("obj" :: objl); ("in" :: ins); ("or" :: ors); ("ops" :: ops)] ->
      let mods = List.map hist_n_of_string mods in
      let o0 = List.map (fun kv -> let (k, v) = hist_kv kv in (hist_n_of_string k, hist_payload_of v)) objl in
      let inputs = List.map (fun kv ->
        let (k, v) = hist_kv kv in
        match String.split_on_char '/' v with
        | [a; b; c; d] -> (k, { in_id = hist_n_of_string k; in_ep_file = hist_optn a; in_ep_mem = hist_optn b;
                                in_fsize = hist_optn c; in_nblocks = hist_nat_of_int (int_of_string d) })
        | _ -> failwith "input") ins in
      let table = Hashtbl.create 16 in
      List.iter (fun kv ->
        let (k, v) = hist_kv kv in
        match String.split_on_char ':' v with
        | [ms; rc; ex; pool] ->
            Hashtbl.replace table k { n_msgs = hist_msgs_of ms; n_rc = z_of_string rc; n_exec = (ex = "1");
                                      n_pool = hist_nat_of_int (int_of_string pool) }
        | _ -> failwith "natural") ors;
      let oracle flags timeout i o ep r =
        let k = hist_key flags timeout i o ep r in
        match Hashtbl.find_opt table k with Some n -> n | None -> raise (Hist_need k) in
      let inp k = List.assoc k inputs in
      let parse_op (s : string) =
        match String.split_on_char ':' s with
        | ["scan"; i; sc; nr] -> Scan (inp i, hist_script sc, hist_optnat nr)
        | ["resume"; nr] -> Resume (hist_optnat nr)
        | ["sf"; f] -> SetFlags (hist_n_of_string f)
        | ["st"; t] -> SetTimeout (hist_n_of_string t)
        | ["pt"; t] -> PokeTimeout (hist_n_of_string t)
        | ["def"; x; v] -> Define (hist_n_of_string x, hist_dval v)
        | ["destroy"] -> Destroy
        | _ -> failwith ("c10 op " ^ s) in
      let st = ref (c10_fresh o0) in
      let out = ref [] in
      (try
        List.iter (fun s ->
          let (s1, tr) = c10_step mods oracle !st (parse_op s) in
          st := s1;
          out := (hist_trace_str tr ^ " @ " ^ hist_state_str s1) :: !out) ops
      with Hist_need k -> out := ("need " ^ k) :: !out);
      String.concat " ; " (List.rev !out)
  | _ -> "usage: c10 mod .. | obj .. | in .. | or .. | ops ..")
