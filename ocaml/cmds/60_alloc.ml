(* C16: AllocLang function-level runs.  alloc <fn> <k> <sticky> <args...>  ->  ops=<rc,...> live=<n> after=<n> count=<n> *)
let rec al_nat_of_int (i : int) : nat = if i <= 0 then O else S (al_nat_of_int (i - 1))
let rec al_int_of_nat (x : nat) : int = match x with O -> 0 | S y -> 1 + al_int_of_nat y
let al_show (r : nat list * (nat * (nat * nat))) : string =
  let (ops, (lv, (af, c))) = r in
  Printf.sprintf "ops=%s live=%d after=%d count=%d"
    (String.concat "," (List.map (fun x -> string_of_int (al_int_of_nat x)) ops)) (al_int_of_nat lv) (al_int_of_nat af) (al_int_of_nat c)
let al_n s = n_of_int (int_of_string s)
let al_i s = al_nat_of_int (int_of_string s)
let () = register "alloc" (fun args -> match args with
  | "arena" :: k :: st :: nbuf :: initial :: ops ->
      let op s = (match String.split_on_char ':' s with
        | [kind; b; a] -> if kind = "r" then (false, (al_i b, al_n a)) else (true, (al_i b, al_n a))
        | _ -> failwith "op") in
      al_show (al_arena (al_i k) (al_i st) (al_i nbuf) (al_n initial) (List.map op ops))
  | "notebook" :: k :: st :: minp :: sizes -> al_show (al_notebook (al_i k) (al_i st) (al_n minp) (List.map al_n sizes))
  | ["stack"; k; st; cap; _isz; npush] -> al_show (al_stack (al_i k) (al_i st) (al_i cap) (al_i npush))
  | "hash" :: k :: st :: _size :: entries ->
      let e s = (match String.split_on_char ':' s with [_; ns] -> ns = "1" | _ -> false) in
      al_show (al_hash (al_i k) (al_i st) (List.map e entries))
  | ["atoms"; k; st; flags; xmin; xmax; h] ->
      let f = int_of_string flags in
      (* STRING_FLAGS_NO_CASE 0x04, ASCII 0x08, WIDE 0x10, XOR 0x80000: passed by the check as a 4-bit mask w|a|n|x *)
      al_show (al_atoms (al_i k) (al_i st) (unhex h) (f land 1 <> 0) (f land 2 <> 0) (f land 4 <> 0) (f land 8 <> 0) (al_i xmin) (al_i xmax))
  | "screate" :: k :: st :: strings :: exts -> al_show (al_scanner (al_i k) (al_i st) (strings = "1") (List.map al_i exts))
  | _ -> "usage")
