(* C14: hash / math / string module model.  Blocks are written  base:hex,base:hex  ("-" = no block).
   fx = 1: model of the repaired break condition, 0: the loop as in 4.5.2 (Model/ModRange.v). *)
let c14_parse_blocks (s : string) : (z * n list) list =
  if s = "-" then [] else
    List.map (fun t -> match String.index_opt t ':' with
      | Some i -> (z_of_string (String.sub t 0 i), unhex (String.sub t (i + 1) (String.length t - i - 1)))
      | None -> failwith "block") (String.split_on_char ',' s)
let c14_on f = function Some x -> f x | None -> "undef"
let c14_dist (h : n list) : string =
  let b = Buffer.create 64 in
  List.iteri (fun i c -> if c <> N0 then Buffer.add_string b (Printf.sprintf "%d:%s," i (string_of_n c))) h;
  if Buffer.length b = 0 then "0" else Buffer.contents b

let () = register "c14r" (fun args -> match args with
  | [fx; bl; off; len] ->
      let fx = (fx = "1") in
      let bs = c14_parse_blocks bl and off = z_of_string off and len = z_of_string len in
      Printf.sprintf "bytes=%s monte=%s crc=%s sum=%s mode=%s dist=%s"
        (c14_on hex (c14_addressed fx bs off len))
        (c14_on (fun (m, i) -> string_of_n m ^ "/" ^ string_of_n i) (c14_monte fx bs off len))
        (c14_on string_of_n (c14_crc32 fx bs off len))
        (c14_on string_of_n (c14_checksum32 fx bs off len))
        (c14_on string_of_n (c14_mode fx bs off len))
        (c14_on c14_dist (c14_distribution fx bs off len))
  | _ -> "usage")

let () = register "c14g" (fun args -> match args with
  | [bl] ->
      let bs = c14_parse_blocks bl in
      Printf.sprintf "mode=%s dist=%s" (c14_on string_of_n (c14_mode_global bs)) (c14_on c14_dist (c14_distribution_global bs))
  | _ -> "usage")

(* c14n <fx> <blocks> <byte> <off> <len> : count and percentage numerators with their argument check *)
let () = register "c14n" (fun args -> match args with
  | [fx; bl; byte; off; len] ->
      let fx = (fx = "1") in
      let bs = c14_parse_blocks bl and byte = z_of_string byte and off = z_of_string off and len = z_of_string len in
      Printf.sprintf "count=%s pct=%s gcount=%s gpct=%s"
        (c14_on string_of_n (c14_count fx bs byte off len))
        (c14_on (fun (a, b) -> string_of_n a ^ "/" ^ string_of_n b) (c14_percentage fx bs byte off len))
        (c14_on string_of_n (c14_count_global bs byte))
        (c14_on (fun (a, b) -> string_of_n a ^ "/" ^ string_of_n b) (c14_percentage_global bs byte))
  | _ -> "usage")

(* c14c <fx> <blocks> alg:off:len,alg:off:len,...  -> with cache | without cache ; each result "u" or tag+bytes hex *)
let () = register "c14c" (fun args -> match args with
  | [fx; bl; calls] ->
      let fx = (fx = "1") in
      let bs = c14_parse_blocks bl in
      let cs = List.map (fun t -> match String.split_on_char ':' t with
        | [a; o; l] -> (n_of_int (int_of_string a), (z_of_string o, z_of_string l))
        | _ -> failwith "call") (String.split_on_char ',' calls) in
      let show r = String.concat "," (List.map (function Some l -> hex l | None -> "u") r) in
      Printf.sprintf "cached=%s uncached=%s" (show (c14_cached fx bs cs)) (show (c14_uncached fx bs cs))
  | _ -> "usage")

let () = register "c14s" (fun args -> match args with
  | [s] ->
      let s = unhex s in
      Printf.sprintf "monte=%s crc=%s crcbit=%s sum=%s len=%s toint=%s"
        (let (m, i) = c14_monte_str s in string_of_n m ^ "/" ^ string_of_n i)
        (string_of_n (c14_crc32_table s)) (string_of_n (c14_crc32_bitwise s)) (string_of_n (c14_checksum32_str s))
        (string_of_z (c14_length s)) (c14_on string_of_z (c14_to_int s))
  | _ -> "usage")

let () = register "c14i" (fun args -> match args with
  | [s; base] -> c14_on string_of_z (c14_to_int_base (unhex s) (z_of_string base))
  | _ -> "usage")

let () = register "c14m" (fun args -> match args with
  | ["min"; a; b] -> c14_on string_of_z (c14_min (z_of_string a) (z_of_string b))
  | ["max"; a; b] -> c14_on string_of_z (c14_max (z_of_string a) (z_of_string b))
  | ["abs"; a] -> c14_on string_of_z (c14_abs (z_of_string a))
  | ["tostr"; a] -> c14_on hex (c14_to_string (z_of_string a))
  | ["tostrb"; a; b] -> c14_on hex (c14_to_string_base (z_of_string a) (z_of_string b))
  | ["inrange"; t; l; u] -> string_of_z (c14_in_range (z_of_string t) (z_of_string l) (z_of_string u))
  | _ -> "usage")

let () = register "c14tab" (fun _ -> String.concat "," (List.map string_of_n c14_crc_tab))
