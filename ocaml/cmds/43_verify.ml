(* scanstr <image hex> <buf hex> [<buf hex> ...] -> per buffer, per string:  i=off/len/key,... joined by "|" , buffers by " ; "
   (Model/Verify.v scan_image_string: the stored automaton run over the buffer + the literal verifier) *)
let () = register "scanstr" (fun args -> match args with
  | img :: bufs ->
      (match arena_load cfg_current (unhex img) with
       | LOk a ->
           let cr = decode a in
           String.concat " ; " (List.map (fun bh ->
             let b = unhex bh in
             String.concat "|" (List.mapi (fun i _ ->
               Printf.sprintf "%d=%s" i (String.concat "," (List.map (fun (o, (l, k)) ->
                 Printf.sprintf "%d/%d/%d" (int_of_nat o) (int_of_n l) (int_of_n k)) (scan_image_string cr (n_of_int i) b))))
               (cr_strings cr))) bufs)
       | _ -> "load-failed")
  | _ -> "usage")
(* verify <flags> <string hex> <backtrack> <fixed|-> <buf hex> <off> -> none | len/key   (Model/Verify.v verify_literal) *)
let () = register "verify" (fun args -> match args with
  | [fl; s; bt; fx; buf; off] ->
      (match verify_literal (vflags_of (n_of_int (int_of_string fl))) (unhex s) (n_of_int (int_of_string bt))
               (if fx = "-" then None else Some (n_of_int (int_of_string fx))) (unhex buf) (nat_of_int (int_of_string off)) with
       | Some (l, k) -> Printf.sprintf "%d/%d" (int_of_n l) (int_of_n k)
       | None -> "none")
  | _ -> "usage")
(* textcerts <image hex> <hex string> <mods> <lo> <hi> ... (one group per string)
   -> per string: sound=<b> complete=<b> fitsflag=<b> xorkeys=<b> agree=<b> nonul=<b> atoms=hex/bt,...   (Model/Verify.v text_certs, complete_certs: the _on forms applied to atoms_of = atoms_for (all_atoms cr) i, computed once per image) *)
let () = register "textcerts" (fun args -> match args with
  | img :: rest ->
      (match arena_load cfg_current (unhex img) with
       | LOk a ->
           let cr = decode a in
           let all = all_atoms cr in
           let rec go i l = match l with
             | s :: fl :: lo :: hi :: tl ->
                 let at = atoms_for all (n_of_int i) in
                 let ys = List.nth (cr_strings cr) i in
                 let vf = vflags_of (ys_flags ys) in
                 let m = parse_mods fl lo hi in
                 let sb = unhex s in
                 Printf.sprintf "sound=%b complete=%b fitsflag=%b xorkeys=%b agree=%b nonul=%b atoms=%s"
                   (text_certs_on at vf sb m) (complete_certs_on at vf sb m) vf.vf_fits
                   (xor_keys_ok vf sb m at) (flags_agree vf m) (nonul sb)
                   (String.concat "," (List.map (fun (a, bt) -> hex a ^ "/" ^ string_of_int (int_of_n bt)) at)) :: go (i + 1) tl
             | _ -> [] in
           String.concat " | " (go 0 rest)
       | _ -> "load-failed")
  | _ -> "usage")
