(* hexf <buf hex> <pattern tokens>  -> o:len,len;o:len...   (interval-based hex reference, Spec/HexSpec.v)
   pattern: t <cset sexp> | j n m | ji n | a [ pat ] [ pat ] ... ;    e.g.  t ( b 97 ) j 0 250 a [ t ( b 1 ) ] [ t ( any ) ] ; *)
let rec p_hex ts = match ts with
  | "t" :: r -> let (c, r) = p_cset r in let (rest, r) = p_hex r in (HTok (c, rest), r)
  | "j" :: n :: m :: r -> let (rest, r) = p_hex r in (HJump (n_of_int (int_of_string n), n_of_int (int_of_string m), rest), r)
  | "ji" :: n :: r -> let (rest, r) = p_hex r in (HJumpInf (n_of_int (int_of_string n), rest), r)
  | "a" :: r ->
      let rec alts r = (match r with
        | "[" :: r -> let (p, r) = p_hex r in (match r with "]" :: r -> let (ps, r) = alts r in (p :: ps, r) | _ -> raise (Parse "alt ]"))
        | ";" :: r -> ([], r)
        | _ -> raise (Parse "alt")) in
      let (ps, r) = alts r in
      let (rest, r) = p_hex r in
      let rec nest ps = (match ps with
        | [] -> raise (Parse "empty alt") | [x] -> (x, None) | x :: more -> (x, Some more)) in
      let rec build ps rest = (match nest ps with
        | (x, None) -> raise (Parse "single alt")
        | (x, Some [y]) -> HAltP (x, y, rest)
        | (x, Some more) -> HAltP (x, build more HNil, rest)) in
      ((match ps with [x] -> HAltP (x, x, rest) | _ -> build ps rest), r)
  | _ -> (HNil, ts)
let () = register "hexf" (fun args -> match args with
  | buf :: rest -> let (p, r) = p_hex rest in
      if r <> [] then "parse-leftover " ^ String.concat " " r else
      if not (hex_wf p) then "not-wf" else
      String.concat ";" (List.map (fun (o, ls) -> Printf.sprintf "%d:%s" (int_of_n o) (String.concat "," (List.map (fun l -> string_of_int (int_of_n l)) ls)))
        (hex_matches_all (unhex buf) p))
  | _ -> "usage")
(* hexre <buf hex> <pattern tokens>: the same pattern through the expanded expression (small inputs only) *)
let () = register "hexre" (fun args -> match args with
  | buf :: rest -> let (p, _) = p_hex rest in
      String.concat ";" (List.map (fun (o, ls) -> Printf.sprintf "%d:%s" (int_of_nat o) (String.concat "," (List.map (fun l -> string_of_int (int_of_nat l)) ls)))
        (re_matches_all (unhex buf) (hex_to_re p)))
  | _ -> "usage")
