(* accert <image hex>  ->  cert=<bool> states=<n> *)
let () = register "accert" (fun args -> match args with
  | [img] ->
      (match arena_load cfg_current (unhex img) with
       | LOk a -> let cr = decode a in Printf.sprintf "cert=%b states=%d" (ac_cert cr) (List.length (states cr))
       | _ -> "load-failed")
  | _ -> "usage")
