let cfg_of = function "pinned" -> cfg_pinned | _ -> cfg_current
let lerr_name = function EInvalidFile -> "invalid_file" | EUnsupportedVersion -> "unsupported_version"
  | ECorruptFile -> "corrupt_file" | ENoMemory -> "no_memory"
let lbad_name = function BadAssert -> "assert" | BadOOB -> "oob" | BadAddrDep -> "addrdep"


let () = register "load" (fun args -> match args with
  | [c; h] ->
      let cfg = cfg_of c in
      (match rules_load cfg (unhex h) with
       | LOk a -> Printf.sprintf "ok wf=%b resave=%s" (wf_arena a) (hex (save cfg a))
       | LErr e -> "err " ^ lerr_name e
       | LBad b -> "bad " ^ lbad_name b)
  | _ -> "usage")
