(* b64 <alphabet hex|-> <string hex> <plain 0/1> <wide 0/1> <buf hex> -> o:len,len;o:len...   (Spec/Base64Spec.v b64_matches)
   b64v <alphabet hex|-> <string hex> <plain> <wide> -> the searched forms, hex, comma separated *)
let b64_alpha a = if a = "-" then default_alphabet else unhex a
let () = register "b64" (fun args -> match args with
  | [a; s; p; w; buf] ->
      String.concat ";" (List.map (fun (o, ls) -> Printf.sprintf "%d:%s" (int_of_nat o) (String.concat "," (List.map (fun l -> string_of_int (int_of_n l)) ls)))
        (b64_matches (b64_alpha a) (unhex s) (p = "1") (w = "1") (unhex buf)))
  | _ -> "usage")
let () = register "b64v" (fun args -> match args with
  | [a; s; p; w] -> String.concat "," (List.map hex (b64_variants (b64_alpha a) (unhex s) (p = "1") (w = "1")))
  | _ -> "usage")
