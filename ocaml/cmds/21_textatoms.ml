(* coverall <image hex> <hex string> <mods> <lo> <hi> ...  (one group per string, in table order)
   -> per string: cover=<bool> atoms=<n> stored=<hex> flags=<n>, joined by " | " *)
let () = register "coverall" (fun args -> match args with
  | img :: rest ->
      (match arena_load cfg_current (unhex img) with
       | LOk a ->
           let cr = decode a in
           let all = all_atoms cr in
           let rec go i l = match l with
             | s :: fl :: lo :: hi :: tl ->
                 let at = atoms_for all (n_of_int i) in
                 let ys = List.nth (cr_strings cr) i in
                 Printf.sprintf "cover=%b atoms=%d stored=%s flags=%d" (cover_ok (unhex s) (parse_mods fl lo hi) at) (List.length at)
                   (hex (ys_bytes ys)) (int_of_n (ys_flags ys)) :: go (i + 1) tl
             | _ -> [] in
           String.concat " | " (go 0 rest)
       | _ -> "load-failed")
  | _ -> "usage")
(* atomsdump <image hex> -> per string index: i:atomhex/backtrack,... joined by " | " *)
let () = register "atomsdump" (fun args -> match args with
  | img :: _ ->
      (match arena_load cfg_current (unhex img) with
       | LOk a ->
           let cr = decode a in
           let all = all_atoms cr in
           String.concat " | " (List.mapi (fun i _ ->
             Printf.sprintf "%d:%s" i (String.concat "," (List.map (fun (at, bt) -> hex at ^ "/" ^ string_of_int (int_of_n bt)) (atoms_for all (n_of_int i)))))
             (cr_strings cr))
       | _ -> "load-failed")
  | _ -> "usage")
