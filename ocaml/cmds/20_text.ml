(* text <hex string> <ascii><wide><nocase><fullword> as 0/1 digits, e.g. 1010> <xor lo|-> <xor hi|-> <hex buffer> *)
let parse_mods fl lo hi =
  let b i = fl.[i] = '1' in
  { m_ascii = b 0; m_wide = b 1; m_nocase = b 2; m_fullword = b 3;
    m_xor = (if lo = "-" then None else Some (n_of_int (int_of_string lo), n_of_int (int_of_string hi))) }
let rec int_of_nat (x : nat) : int = match x with O -> 0 | S y -> 1 + int_of_nat y
let () = register "text" (fun args -> match args with
  | [s; fl; lo; hi; buf] ->
      let r = text_matches (unhex s) (parse_mods fl lo hi) (unhex buf) in
      String.concat ";" (List.map (fun (o, lks) ->
        Printf.sprintf "%d:%s" (int_of_nat o)
          (String.concat "," (List.map (fun (l, k) -> Printf.sprintf "%d/%d" (int_of_n l) (int_of_n k)) lks))) r)
  | _ -> "usage")
