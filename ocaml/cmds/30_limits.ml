(* C15 limits.  One command per decision function of Model/Limits.v:
   lim matches <n> | vmstack <cap> <d> | splits <n> | fibers <n> | loops <d> | strings <max> <n> | includes <d>
       | lexbuf <len> <cur> | ident <len> | int <digits-value> <none|KB|MB> | rerange <hi> | matchdata <max> <len>
       | scan <cont 0/1> <n>  | iter <sp> <cap> | clock <i> | vmreads <k> <cycle> | consts *)
let n_of_string s = match z_of_string s with Z0 -> N0 | Zpos p -> Npos p | Zneg _ -> failwith "negative"
let acc b = if b then "accept" else "reject"
let () = register "lim" (fun args -> match args with
  | ["matches"; n] -> acc (accepts_matches (n_of_string n))
  | ["vmstack"; cap; d] -> acc (accepts_vm_stack (z_of_string cap) (n_of_string d))
  | ["splits"; n] -> acc (accepts_splits (n_of_string n))
  | ["fibers"; n] -> acc (accepts_fibers (n_of_string n))
  | ["loops"; d] -> acc (accepts_loops (n_of_string d))
  | ["strings"; m; n] -> acc (accepts_strings (z_of_string m) (n_of_string n))
  | ["includes"; d] -> acc (accepts_includes (n_of_string d))
  | ["lexbuf"; len; cur] -> acc (not (lex_rejects (z_of_string len) (z_of_string cur)))
  | ["ident"; len] -> acc (not (ident_rejects (z_of_string len)))
  | ["int"; v; s] ->
      let sf = (match s with "KB" -> SKB | "MB" -> SMB | _ -> SNone) in
      (match int_literal (z_of_string v) sf with Some x -> "accept " ^ string_of_z x | None -> "reject")
  | ["rerange"; hi] -> acc (not (re_range_rejects (z_of_string hi)))
  | ["matchdata"; m; len] -> string_of_z (match_data_len (z_of_string m) (z_of_string len))
  | ["scan"; cont; n] ->
      let (((count, many), slow), rc) = scan_all_match (cont = "1") (n_of_string n) in
      Printf.sprintf "count=%s many=%s slow=%d rc=%s" (string_of_z count) (string_of_z many) (if slow then 1 else 0) (string_of_z rc)
  | ["iter"; sp; cap] ->
      String.concat "," (List.map (fun chk -> if vm_iter_accepts chk (z_of_string sp) (z_of_string cap) then "1" else "0") vm_iter_checks)
  | ["timeoutns"; t] -> string_of_z (timeout_ns (z_of_string t))
  | ["clock"; i] -> if block_reads_clock (z_of_string i) then "read" else "skip"
  | ["vmreads"; k; c] ->
      let rec nat_of_int i = if i <= 0 then O else S (nat_of_int (i - 1)) in
      if vm_reads_within (nat_of_int (int_of_string k)) (z_of_string c) then "read" else "none"
  | ["consts"] ->
      Printf.sprintf "vm_check_cycles=%s block_check_modulus=%s stack=%s strings=%s matchdata=%s"
        (string_of_z vm_check_cycles) (string_of_z block_check_modulus) (string_of_z cfg_default_stack_size)
        (string_of_z cfg_default_max_strings_per_rule) (string_of_z cfg_default_max_match_data)
  | _ -> "usage")

(* reemit <tokens of an s-expression>:  lit | any | cls | ( cat A B ) | ( rep n A ) | ( alt A B ) | ( star A ) | ( plus A )
   | ( range lo hi A ) | rangeany      -> "size=N fits=<spec> ok=<generated tests> wf=<bool>" *)
let rec rx_parse (ts : string list) = match ts with
  | "lit" :: r -> (EmLit, r) | "any" :: r -> (EmAny, r) | "cls" :: r -> (EmClass, r) | "rangeany" :: r -> (EmRangeAny, r)
  | "(" :: "cat" :: r -> let (a, r) = rx_parse r in let (b, r) = rx_parse r in (EmCat (a, b), rx_close r)
  | "(" :: "alt" :: r -> let (a, r) = rx_parse r in let (b, r) = rx_parse r in (EmAlt (a, b), rx_close r)
  | "(" :: "rep" :: n :: r -> let (a, r) = rx_parse r in (EmRep (z_of_string n, a), rx_close r)
  | "(" :: "star" :: r -> let (a, r) = rx_parse r in (EmStar a, rx_close r)
  | "(" :: "plus" :: r -> let (a, r) = rx_parse r in (EmPlus a, rx_close r)
  | "(" :: "range" :: lo :: hi :: r -> let (a, r) = rx_parse r in (EmRange (z_of_string lo, z_of_string hi, a), rx_close r)
  | t :: _ -> failwith ("rx: " ^ t) | [] -> failwith "rx: eof"
and rx_close = function ")" :: r -> r | _ -> failwith "rx: expected )"
let () = register "reemit" (fun args ->
  let (r, _) = rx_parse args in
  Printf.sprintf "size=%s fits=%b ok=%b wf=%b" (string_of_z (em_size r)) (em_fits r) (em_ok r) (em_wf r))
