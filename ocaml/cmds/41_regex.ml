(* re <buf hex> <sexp...>   -> o:len,len;o:len...      rem <buf hex> <sexp...> -> 0/1 (matches operator) *)
let rec p_cset ts = match ts with
  | "(" :: "b" :: v :: ")" :: r -> (CByte (n_of_int (int_of_string v)), r)
  | "(" :: "any" :: ")" :: r -> (CAny, r)
  | "(" :: "anynl" :: ")" :: r -> (CAnyNoNl, r)
  | "(" :: "mask" :: v :: m :: ")" :: r -> (CMask (n_of_int (int_of_string v), n_of_int (int_of_string m)), r)
  | "(" :: "rng" :: lo :: hi :: ")" :: r -> (CRange (n_of_int (int_of_string lo), n_of_int (int_of_string hi)), r)
  | "(" :: "w" :: ")" :: r -> (CWord, r) | "(" :: "s" :: ")" :: r -> (CSpace, r) | "(" :: "d" :: ")" :: r -> (CDigit, r)
  | "(" :: "un" :: r -> let (a, r) = p_cset r in let (b, r) = p_cset r in (CUnion (a, b), close r)
  | "(" :: "not" :: r -> let (a, r) = p_cset r in (CNot a, close r)
  | "(" :: "nc" :: r -> let (a, r) = p_cset r in (CNoCase a, close r)
  | t :: _ -> raise (Parse ("cset " ^ t)) | [] -> raise (Parse "eof")
let rec p_re ts = match ts with
  | "(" :: "e" :: ")" :: r -> (REmpty, r)
  | "(" :: "set" :: r -> let (c, r) = p_cset r in (RSet c, close r)
  | "(" :: "cat" :: r -> let (a, r) = p_re r in let (b, r) = p_re r in (RCat (a, b), close r)
  | "(" :: "alt" :: r -> let (a, r) = p_re r in let (b, r) = p_re r in (RAlt (a, b), close r)
  | "(" :: "star" :: r -> let (a, r) = p_re r in (RStar a, close r)
  | "(" :: "rep" :: r -> let (a, r) = p_re r in (match r with
      | n :: m :: ")" :: r -> (rrep a (nat_of_int (int_of_string n)) (if m = "inf" then None else Some (nat_of_int (int_of_string m))), r)
      | _ -> raise (Parse "rep"))
  | "(" :: "bol" :: ")" :: r -> (RStart, r) | "(" :: "eol" :: ")" :: r -> (REnd, r)
  | "(" :: "wb" :: ")" :: r -> (RWordB, r) | "(" :: "nwb" :: ")" :: r -> (RNonWordB, r)
  | t :: _ -> raise (Parse ("re " ^ t)) | [] -> raise (Parse "eof")
let () = register "re" (fun args -> match args with
  | buf :: rest -> let (r, _) = p_re rest in
      String.concat ";" (List.map (fun (o, ls) -> Printf.sprintf "%d:%s" (int_of_nat o) (String.concat "," (List.map (fun l -> string_of_int (int_of_nat l)) ls)))
        (re_matches_all (unhex buf) r))
  | _ -> "usage")
let () = register "rem" (fun args -> match args with
  | buf :: rest -> let (r, _) = p_re rest in
      let b = unhex buf in
      if re_matches_somewhere b r then begin
        (* also say where the first match starts: a match only at the very end is a known deviation *)
        let n = List.length b in
        let rec first o = if o > n then n else (match ends b r (nat_of_int o) with [] -> first (o + 1) | _ -> o) in
        Printf.sprintf "1 %d" (first 0) end
      else "0"
  | _ -> "usage")

(* refw <a|w> <buf hex> <sexp...> -> like "re", keeping at each offset only the lengths whose match is delimited as a full word
   (Spec/TextSpec.v fullword_ascii / fullword_wide); "!" after an entry: some admissible length at that offset was filtered out *)
let () = register "refw" (fun args -> match args with
  | mode :: buf :: rest -> let (r, _) = p_re rest in
      let b = unhex buf in
      let fw o l = if mode = "w" then fullword_wide b o l else fullword_ascii b o l in
      String.concat ";" (List.filter (fun s -> s <> "") (List.map (fun (o, ls) ->
          let keep = List.filter (fun l -> fw o l) ls in
          let part = List.length keep <> List.length ls in
          if keep = [] && not part then "" else
          Printf.sprintf "%d:%s%s" (int_of_nat o) (String.concat "," (List.map (fun l -> string_of_int (int_of_nat l)) keep)) (if part then "!" else ""))
        (re_matches_all b r)))
  | _ -> "usage")
