(* strop <op> <hex a> <hex b> -> 0/1   (Spec/StrOpSpec.v strop_eval) *)
let () = register "strop" (fun args -> match args with
  | [op; a; b] ->
      let o = (match op with
        | "contains" -> SContains | "icontains" -> SIContains | "startswith" -> SStartsWith | "istartswith" -> SIStartsWith
        | "endswith" -> SEndsWith | "iendswith" -> SIEndsWith | "iequals" -> SIEquals
        | "==" -> SEq | "!=" -> SNe | "<" -> SLt | "<=" -> SLe | ">" -> SGt | ">=" -> SGe
        | _ -> raise (Parse ("strop " ^ op))) in
      if strop_eval o (unhex a) (unhex b) then "1" else "0"
  | _ -> "usage")
