(* imgcert <image hex> -> load=<ok|err..> wf=<bool> layout=<bool> roundtrip=<bool> *)
let () = register "imgcert" (fun args -> match args with
  | [img] ->
      let b = unhex img in
      (match rules_load cfg_current b with
       | LOk a -> Printf.sprintf "load=ok wf=%b layout=%b roundtrip=%b" (wf_arena a) (layout_cert a) (save cfg_current a = b)
       | LErr e -> "load=err:" ^ lerr_name e
       | LBad x -> "load=bad:" ^ lbad_name x)
  | _ -> "usage")
