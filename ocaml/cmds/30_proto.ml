(* C11 / C13: commands over Model/Report.v and Model/Resume.v *)
let rec pr_nat_of_int (i : int) : nat = if i <= 0 then O else S (pr_nat_of_int (i - 1))
let rec pr_int_of_nat (x : nat) : int = match x with O -> 0 | S y -> 1 + pr_int_of_nat y
let pr_split c s = if s = "-" || s = "" then [] else String.split_on_char c s
let pr_bool s = s = "1"
let pr_msg = function
  | RImport m -> "I" ^ string_of_int (pr_int_of_nat m)
  | RImported m -> "D" ^ string_of_int (pr_int_of_nat m)
  | RMatch i -> "M" ^ string_of_int (pr_int_of_nat i)
  | RNoMatch i -> "N" ^ string_of_int (pr_int_of_nat i)
  | RFinished -> "F"
let pr_msgs l = String.concat "" (List.map (fun m -> pr_msg m ^ ";") l)
let pr_bits l = if l = [] then "-" else String.concat "" (List.map (fun b -> if b then "1" else "0") l)
let pr_script s : rp_script =
  rp_script_of (List.map (fun e -> match String.split_on_char ':' e with
    | [k; a] -> (pr_nat_of_int (int_of_string k), z_of_int (int_of_string a))
    | _ -> failwith "script") (pr_split ',' s))
let pr_imports s = List.map (fun x -> pr_nat_of_int (int_of_string x)) (pr_split ',' s)

(* c11 <imports> <rules ns:g:p:d:c,...> <flags> <script> <nns> *)
let () = register "c11" (fun args -> match args with
  | [imports; rules; flags; script; nns] ->
      let rules = List.map (fun e -> match String.split_on_char ':' e with
        | [ns; g; p; d; c] -> { rp_ns = pr_nat_of_int (int_of_string ns); rp_global = pr_bool g; rp_private = pr_bool p;
                                rp_disabled = pr_bool d; rp_cond = pr_bool c }
        | _ -> failwith "rule") (pr_split ',' rules) in
      let (tr, rc) = rp_scan (pr_imports imports) rules (z_of_int (int_of_string flags)) (pr_script script) in
      let (rm, ns) = rp_bitmaps rules (pr_nat_of_int (int_of_string nns)) in
      Printf.sprintf "msgs=%s rc=%s rm=%s ns=%s" (pr_msgs tr) (string_of_z rc) (pr_bits rm) (pr_bits ns)
  | _ -> "usage")

let pr_atom s =
  let num x = n_of_int (int_of_string x) in
  let rest = String.sub s 1 (String.length s - 1) in
  match s.[0] with
  | 'T' -> RcTrue | 'F' -> RcFalse
  | 'S' -> RcStr (pr_nat_of_int (int_of_string rest))
  | 'C' -> (match String.split_on_char '=' rest with [i; n] -> RcCount (pr_nat_of_int (int_of_string i), num n) | _ -> failwith "atom")
  | 'Z' -> RcFsz (num rest)
  | 'U' -> (match String.split_on_char '=' rest with [o; v] -> RcU8 (num o, num v) | _ -> failwith "atom")
  | 'E' -> RcEpEq (num rest)
  | 'A' -> RcAtEp (pr_nat_of_int (int_of_string rest))
  | _ -> failwith "atom"
let pr_ans = function AnsBlock i -> string_of_int (pr_int_of_nat i) | AnsEnd -> "E" | AnsNotReady -> "R"
let pr_log l = if l = [] then "-" else
  String.concat "," (List.map (fun (f, a) -> (if f then "f" else "n") ^ pr_ans a) l)
let pr_matches m = String.concat "/" (List.map (fun l -> if l = [] then "-" else String.concat "." (List.map string_of_n l)) m)
let rec pr_take k l = if k <= 0 then [] else match l with [] -> [] | x :: r -> x :: pr_take (k - 1) r

(* a pattern: hex, or <mods>:hex with mods among f (fullword), n (nocase), w (wide); see rc_split_mods *)
let pr_pat s = match String.split_on_char ':' s with
  | [m; h] ->
      let marks = List.concat_map (fun c -> match c with
        | 'f' -> [n_of_int 256] | 'n' -> [n_of_int 257] | 'w' -> [n_of_int 258] | _ -> failwith "mod")
        (List.init (String.length m) (String.get m)) in
      marks @ unhex h
  | _ -> unhex s
let pr_blocks s =
  let eps = ref [] in
  let bl = List.map (fun e -> match String.split_on_char ':' e with
    | [b; "null"; sz] -> { rb_base = n_of_int (int_of_string b); rb_size = n_of_int (int_of_string sz); rb_data = None }
    | [b; h; ep] when String.length ep > 1 && ep.[0] = 'e' ->
        let d = unhex h in
        eps := (n_of_int (int_of_string b), n_of_int (int_of_string (String.sub ep 1 (String.length ep - 1)))) :: !eps;
        { rb_base = n_of_int (int_of_string b); rb_size = n_of_int (List.length d); rb_data = Some d }
    | [b; h] -> let d = unhex h in { rb_base = n_of_int (int_of_string b); rb_size = n_of_int (List.length d); rb_data = Some d }
    | _ -> failwith "block") (pr_split ',' s) in
  (bl, List.rev !eps)
let pr_ep = function None -> "-" | Some e -> string_of_n e

(* c13 <pats hex,..> <rules ns:g:p:atom,..> <imports> <flags> <script> <fsz|-> <blocks base:hex|base:null:size,..> <pattern 01..|->
   one "call ..." segment per yr_scanner_scan_mem_blocks call, then the summary *)
let () = register "c13" (fun args -> match args with
  | [pats; rules; imports; flags; script; fsz; blocks; pattern] ->
      let pats = List.map pr_pat (pr_split ',' pats) in
      let rules = List.map (fun e -> match String.split_on_char ':' e with
        | [ns; g; p; a] -> { rc_ns = pr_nat_of_int (int_of_string ns); rc_global = pr_bool g; rc_private = pr_bool p;
                             rc_atom_of = pr_atom a }
        | _ -> failwith "rule") (pr_split ',' rules) in
      let (blocks, eps) = pr_blocks blocks in
      let fsz = if fsz = "-" then None else Some (n_of_int (int_of_string fsz)) in
      let pat = if pattern = "-" then [] else List.init (String.length pattern) (fun i -> pattern.[i] = '1') in
      let imports = pr_imports imports and f = z_of_int (int_of_string flags) and sc = pr_script script in
      let m0 = rc_empty pats in
      let buf = Buffer.create 256 in
      let rec loop st it ncalls logged =
        if ncalls > List.length pat + 2 then (Buffer.add_string buf "runaway | "; None) else
        let ((res, st'), it') = rc_call true pats eps rules imports f sc blocks fsz st it in
        let full = List.rev it'.ri_log in
        let fresh = List.filteri (fun i _ -> i >= logged) full in
        (match res with
         | RsNotReady -> Buffer.add_string buf (Printf.sprintf "call rc=61 log=%s | " (pr_log fresh));
                         loop st' it' (ncalls + 1) (List.length full)
         | RsFuel -> Buffer.add_string buf "call fuel | "; None
         | RsDone (((tr, rc), m), ep) ->
             Buffer.add_string buf (Printf.sprintf "call msgs=%s rc=%s log=%s m=%s ep=%s | " (pr_msgs tr) (string_of_z rc) (pr_log fresh) (pr_matches m) (pr_ep ep));
             Some ((((tr, rc), m), ep), ncalls + 1, st')) in
      let r = loop (rs_init m0) (rs_iter_init pat) 0 0 in
      let one = rc_run true pats eps rules imports f sc blocks fsz pat in
      let same = (match r, one with
        | Some (x, c, st), Some ((((y, c'), st'), _)) -> x = y && c = pr_int_of_nat c' && st = st'
        | None, None -> true
        | _ -> false) in
      let clean = (match r with Some (_, _, st) -> st = rs_init m0 | None -> false) in
      Buffer.add_string buf (Printf.sprintf "calls=%d conforming=%b driver_agrees=%b clean=%b"
        (match r with Some (_, c, _) -> c | None -> -1) (rs_conforming (pr_nat_of_int (List.length blocks)) pat) same clean);
      Buffer.contents buf
  | _ -> "usage")

(* c13abandon <variant current|pinned> <pats> <rules> <fsz|-> <blocks> <pattern> <buffer hex>
   one call with the pattern; if it returns not-ready the caller gives up and scans <buffer> through the same
   scanner with a new iterator; prints that scan, and the same scan on a new scanner *)
let () = register "c13abandon" (fun args -> match args with
  | [variant; pats; rules; fsz; blocks; pattern; bufhex] ->
      let d = variant <> "pinned" in
      let pats = List.map pr_pat (pr_split ',' pats) in
      let rules = List.map (fun e -> match String.split_on_char ':' e with
        | [ns; g; p; a] -> { rc_ns = pr_nat_of_int (int_of_string ns); rc_global = pr_bool g; rc_private = pr_bool p;
                             rc_atom_of = pr_atom a }
        | _ -> failwith "rule") (pr_split ',' rules) in
      let (blocks, eps) = pr_blocks blocks in
      let fsz = if fsz = "-" then None else Some (n_of_int (int_of_string fsz)) in
      let pat = if pattern = "-" then [] else List.init (String.length pattern) (fun i -> pattern.[i] = '1') in
      let sc = pr_script "-" and f = z_of_int 0 in
      let m0 = rc_empty pats in
      let buf = unhex bufhex in
      let one st =
        let b = { rb_base = n_of_int 0; rb_size = n_of_int (List.length buf); rb_data = Some buf } in
        match rc_call d pats [] rules [] f sc [b] (Some (n_of_int (List.length buf))) st (rs_iter_init []) with
        | ((RsDone (((tr, rc), m), _), _), _) -> Printf.sprintf "msgs=%s rc=%s m=%s" (pr_msgs tr) (string_of_z rc) (pr_matches m)
        | _ -> "notdone" in
      let ((res, st'), _) = rc_call d pats eps rules [] f sc blocks fsz (rs_init m0) (rs_iter_init pat) in
      (match res with
       | RsNotReady -> Printf.sprintf "abandoned=true notebook=%b reused %s | fresh %s" st'.rs_notebook (one st') (one (rs_init m0))
       | _ -> "abandoned=false")
  | _ -> "usage")
