(* cond <buf hex> <nstrings> <hex s_i>... <next> <ext_i>... <nrules> then one s-expression per rule, tokens separated by spaces:
     ( lit 5 ) ( fs ) ( ext 0 ) ( cnt 0 ) ( off 0 E ) ( len 0 E ) ( rd 2 0 1 E ) ( neg E ) ( bnot E ) ( add A B ) ... ( var 0 )
     ( t ) ( f ) ( s 0 ) ( at 0 E ) ( in 0 L H ) ( cmp lt A B ) ( and A B ) ( or A B ) ( not A ) ( def A ) ( defi E )
     ( of Q n s.. ) ( forin Q L H B ) ( forlist Q n E.. B ) ( forof Q n s.. B ) ( cur ) ( curat E ) ( curin L H ) ( rule k ) ( int E )
     Q: all | any | none | ( num E )       -> verdict bits, then the three-valued results *)
exception Parse of string
let rec nat_of_int (i : int) : nat = if i <= 0 then O else S (nat_of_int (i - 1))
let binop_of = function "add" -> Some OAdd | "sub" -> Some OSub | "mul" -> Some OMul | "div" -> Some ODiv | "mod" -> Some OMod
  | "band" -> Some OBand | "bor" -> Some OBor | "bxor" -> Some OBxor | "shl" -> Some OShl | "shr" -> Some OShr | _ -> None
let cmp_of = function "eq" -> CEq | "ne" -> CNe | "lt" -> CLt | "gt" -> CGt | "le" -> CLe | "ge" -> CGe | s -> raise (Parse s)
let rec p_i (ts : string list) : iexpr * string list = match ts with
  | "(" :: "lit" :: v :: ")" :: r -> (ILit (z_of_string v), r)
  | "(" :: "fs" :: ")" :: r -> (IFilesize, r)
  | "(" :: "ext" :: k :: ")" :: r -> (IExt (nat_of_int (int_of_string k)), r)
  | "(" :: "cnt" :: k :: ")" :: r -> (ICount (nat_of_int (int_of_string k)), r)
  | "(" :: "off" :: k :: r -> let (e, r) = p_i r in (IOffset (nat_of_int (int_of_string k), e), close r)
  | "(" :: "len" :: k :: r -> let (e, r) = p_i r in (ILength (nat_of_int (int_of_string k), e), close r)
  | "(" :: "rd" :: n :: sg :: be :: r -> let (e, r) = p_i r in (IRead (nat_of_int (int_of_string n), sg = "1", be = "1", e), close r)
  | "(" :: "neg" :: r -> let (e, r) = p_i r in (INeg e, close r)
  | "(" :: "bnot" :: r -> let (e, r) = p_i r in (IBnot e, close r)
  | "(" :: "var" :: k :: ")" :: r -> (IVar (nat_of_int (int_of_string k)), r)
  | "(" :: op :: r -> (match binop_of op with
      | Some o -> let (a, r) = p_i r in let (b, r) = p_i r in (IBin (o, a, b), close r)
      | None -> raise (Parse op))
  | t :: _ -> raise (Parse t) | [] -> raise (Parse "eof")
and close = function ")" :: r -> r | t :: _ -> raise (Parse ("expected ) got " ^ t)) | [] -> raise (Parse "eof")
let p_q ts = match ts with
  | "all" :: r -> (QAll, r) | "any" :: r -> (QAny, r) | "none" :: r -> (QNone, r)
  | "(" :: "num" :: r -> let (e, r) = p_i r in (QNum e, close r)
  | _ -> raise (Parse "quant")
let rec take_nats n ts = if n = 0 then ([], ts) else match ts with
  | k :: r -> let (l, r) = take_nats (n - 1) r in (nat_of_int (int_of_string k) :: l, r) | [] -> raise (Parse "eof")
let rec p_b (ts : string list) : bexpr * string list = match ts with
  | "(" :: "t" :: ")" :: r -> (BTrue, r) | "(" :: "f" :: ")" :: r -> (BFalse, r)
  | "(" :: "s" :: k :: ")" :: r -> (BStr (nat_of_int (int_of_string k)), r)
  | "(" :: "at" :: k :: r -> let (e, r) = p_i r in (BAt (nat_of_int (int_of_string k), e), close r)
  | "(" :: "in" :: k :: r -> let (l, r) = p_i r in let (h, r) = p_i r in (BIn (nat_of_int (int_of_string k), l, h), close r)
  | "(" :: "cmp" :: op :: r -> let (a, r) = p_i r in let (b, r) = p_i r in (BCmp (cmp_of op, a, b), close r)
  | "(" :: "and" :: r -> let (a, r) = p_b r in let (b, r) = p_b r in (BAnd (a, b), close r)
  | "(" :: "or" :: r -> let (a, r) = p_b r in let (b, r) = p_b r in (BOr (a, b), close r)
  | "(" :: "not" :: r -> let (a, r) = p_b r in (BNot a, close r)
  | "(" :: "def" :: r -> let (a, r) = p_b r in (BDefined a, close r)
  | "(" :: "defi" :: r -> let (a, r) = p_i r in (BDefinedI a, close r)
  | "(" :: "of" :: r -> let (q, r) = p_q r in (match r with
      | n :: r -> let (set, r) = take_nats (int_of_string n) r in (BOf (q, set), close r) | [] -> raise (Parse "eof"))
  | "(" :: "ofin" :: r -> let (q, r) = p_q r in (match r with
      | n :: r -> let (set, r) = take_nats (int_of_string n) r in let (l, r) = p_i r in let (h, r) = p_i r in (BOfIn (q, set, l, h), close r)
      | [] -> raise (Parse "eof"))
  | "(" :: "ofat" :: r -> let (q, r) = p_q r in (match r with
      | n :: r -> let (set, r) = take_nats (int_of_string n) r in let (e, r) = p_i r in (BOfAt (q, set, e), close r)
      | [] -> raise (Parse "eof"))
  | "(" :: "forin" :: r -> let (q, r) = p_q r in let (l, r) = p_i r in let (h, r) = p_i r in let (b, r) = p_b r in
      (BForIn (q, l, h, b), close r)
  | "(" :: "forlist" :: r -> let (q, r) = p_q r in (match r with
      | n :: r -> let rec items k r = if k = 0 then ([], r) else let (e, r) = p_i r in let (l, r) = items (k - 1) r in (e :: l, r) in
                  let (its, r) = items (int_of_string n) r in let (b, r) = p_b r in (BForList (q, its, b), close r)
      | [] -> raise (Parse "eof"))
  | "(" :: "forof" :: r -> let (q, r) = p_q r in (match r with
      | n :: r -> let (set, r) = take_nats (int_of_string n) r in let (b, r) = p_b r in (BForOf (q, set, b), close r)
      | [] -> raise (Parse "eof"))
  | "(" :: "cur" :: ")" :: r -> (BCur, r)
  | "(" :: "curat" :: r -> let (e, r) = p_i r in (BCurAt e, close r)
  | "(" :: "curin" :: r -> let (l, r) = p_i r in let (h, r) = p_i r in (BCurIn (l, h), close r)
  | "(" :: "rule" :: k :: ")" :: r -> (BRule (nat_of_int (int_of_string k)), r)
  | "(" :: "int" :: r -> let (e, r) = p_i r in (BInt e, close r)
  | t :: _ -> raise (Parse t) | [] -> raise (Parse "eof")
let plain_mods = { m_ascii = true; m_wide = false; m_nocase = false; m_fullword = false; m_xor = None }
let () = register "cond" (fun args -> match args with
  | buf :: ns :: rest ->
      let buf = unhex buf in
      let rec take n l = if n = 0 then ([], l) else match l with x :: r -> let (a, b) = take (n - 1) r in (x :: a, b) | [] -> raise (Parse "eof") in
      let (strs, rest) = take (int_of_string ns) rest in
      let (ne, rest) = (match rest with x :: r -> (int_of_string x, r) | [] -> raise (Parse "eof")) in
      let (exts, rest) = take ne rest in
      let (nr, rest) = (match rest with x :: r -> (int_of_string x, r) | [] -> raise (Parse "eof")) in
      let ms = List.map (fun s -> List.map (fun (o, lks) -> (z_of_int (int_of_nat o), (match lks with (l, _) :: _ -> z_of_int (int_of_n l) | [] -> Z0)))
                                  (text_matches (unhex s) plain_mods buf)) strs in
      let rec rules k ts = if k = 0 then [] else let (b, r) = p_b ts in b :: rules (k - 1) r in
      let conds = rules nr rest in
      let vs = verdicts buf ms (List.map z_of_string exts) conds [] in
      String.concat "" (List.map (fun b -> if b then "1" else "0") vs)
  | _ -> "usage")
