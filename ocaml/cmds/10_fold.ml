
let () = register "fold" (fun args -> match args with
  | [op; a; b] ->
      let a = z_of_string a and b = z_of_string b in
      let (f, v, sp) = match op with
        | "add" -> (fold_add a b, vm_of_fold_add a b, spec_add a b)
        | "sub" -> (fold_sub a b, vm_of_fold_sub a b, spec_sub a b)
        | "mul" -> (fold_mul a b, vm_of_fold_mul a b, spec_mul a b)
        | "div" -> (fold_div a b, vm_of_fold_div a b, spec_div a b)
        | "mod" -> (fold_mod a b, vm_of_fold_mod a b, spec_mod a b)
        | "bxor" -> (fold_bxor a b, vm_of_fold_bxor a b, spec_bxor a b)
        | "band" -> (fold_band a b, vm_of_fold_band a b, spec_band a b)
        | "bor" -> (fold_bor a b, vm_of_fold_bor a b, spec_bor a b)
        | "shl" -> (fold_shl a b, vm_of_fold_shl a b, spec_shl a b)
        | "shr" -> (fold_shr a b, vm_of_fold_shr a b, spec_shr a b)
        | _ -> failwith "op" in
      let fs = match f with Folded x -> "Folded:" ^ string_of_z x | Reject c -> "Reject:" ^ string_of_z c
                          | FTrap -> "FTrap" | FNoValue -> "FNoValue" in
      let undef = z_of_string "-1483400188077313" in
      let vs = match v with VVal x -> if x = undef then "undef" else string_of_z x | VTrap -> "trap" | VNoValue -> "novalue" in
      let ss = match sp with Some x -> string_of_z x | None -> "undef" in
      Printf.sprintf "fold=%s vm=%s spec=%s" fs vs ss
  | _ -> "usage")
