(* Model runner: reads one command per line, evaluates the extracted Gallina model, prints one result line. *)


let rec pos_of_int (n : int) : positive =
  if n = 1 then XH else if n land 1 = 0 then XO (pos_of_int (n lsr 1)) else XI (pos_of_int (n lsr 1))
let n_of_int (n : int) : n = if n = 0 then N0 else Npos (pos_of_int n)
let rec int_of_pos (p : positive) : int = match p with XH -> 1 | XO q -> 2 * int_of_pos q | XI q -> 2 * int_of_pos q + 1
let int_of_n (x : n) : int = match x with N0 -> 0 | Npos p -> int_of_pos p
let z_of_int (i : int) : z = if i = 0 then Z0 else if i > 0 then Zpos (pos_of_int i) else Zneg (pos_of_int (- i))
let int_of_z (x : z) : int = match x with Z0 -> 0 | Zpos p -> int_of_pos p | Zneg p -> - (int_of_pos p)

(* arbitrary precision decimal <-> z, in plain OCaml over digit arrays (no dependence on extracted arithmetic) *)
let z_of_string (s : string) : z =
  let neg = String.length s > 0 && s.[0] = '-' in
  let s' = if neg then String.sub s 1 (String.length s - 1) else s in
  let d = Array.init (String.length s') (fun i -> Char.code s'.[i] - 48) in
  let is_zero () = Array.for_all (fun x -> x = 0) d in
  let halve () = (* d := d / 2, returns remainder *)
    let r = ref 0 in
    Array.iteri (fun i x -> let v = !r * 10 + x in d.(i) <- v / 2; r := v mod 2) d; !r in
  let bits = ref [] in
  while not (is_zero ()) do bits := halve () :: !bits done;
  (* bits: most significant first *)
  match !bits with
  | [] -> Z0
  | _ :: rest ->
      let p = List.fold_left (fun acc b -> if b = 1 then XI acc else XO acc) XH rest in
      if neg then Zneg p else Zpos p
let string_of_pos (p : positive) : string =
  let rec bits p acc = match p with XH -> 1 :: acc | XO q -> bits q (0 :: acc) | XI q -> bits q (1 :: acc) in
  let bs = bits p [] in (* most significant first *)
  let d = ref [0] in (* little-endian decimal digits *)
  List.iter (fun b ->
    let carry = ref b in
    d := List.map (fun x -> let v = 2 * x + !carry in carry := v / 10; v mod 10) !d;
    if !carry > 0 then d := !d @ [!carry]) bs;
  String.concat "" (List.rev_map string_of_int !d)
let string_of_z (x : z) : string = match x with
  | Z0 -> "0" | Zpos p -> string_of_pos p | Zneg p -> "-" ^ string_of_pos p
let string_of_n (x : n) : string = match x with N0 -> "0" | Npos p -> string_of_pos p

let hexval c = match c with
  | '0'..'9' -> Char.code c - 48 | 'a'..'f' -> Char.code c - 87 | 'A'..'F' -> Char.code c - 55 | _ -> failwith "hex"
let unhex (s : string) : n list =
  if s = "-" then [] else begin
    let l = ref [] in
    let k = String.length s / 2 in
    for i = k - 1 downto 0 do
      l := n_of_int (hexval s.[2*i] * 16 + hexval s.[2*i+1]) :: !l
    done; !l end
let hex (l : n list) : string =
  if l = [] then "-" else begin
    let b = Buffer.create 64 in
    List.iter (fun x -> Buffer.add_string b (Printf.sprintf "%02x" (int_of_n x))) l;
    Buffer.contents b end

let words s = List.filter (fun w -> w <> "") (String.split_on_char ' ' s)


let words s = List.filter (fun w -> w <> "") (String.split_on_char ' ' s)
let handlers : (string, string list -> string) Hashtbl.t = Hashtbl.create 16
let register (name : string) (f : string list -> string) = Hashtbl.replace handlers name f
