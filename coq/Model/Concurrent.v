(* C09: concurrent scans over one shared rule set - interleaving semantics.

   Global state (gstate):  the shared compiled rules (g_rules: read by scans, written only by the rules-level
   operations MRulesWrite = yr_rule_disable/enable, yr_rules_define_xxx), the process-wide signal disposition
   (g_handler = what sigaction(SIGBUS) would return now; g_old = old_sigbus_exception_handler, libyara.c:61),
   exception_handler_usecount (g_count, libyara.c:62; a C int, here Z), exception_handler_mutex (g_mutex = owner)
   and one local state per thread (g_locals).

   A thread (local) owns: its scanner (l_ctx : option C, None = no scanner), the rest of its program (l_prog), the
   position inside the macro it is executing (l_micro), the number of YR_TRYCATCH sections it has open (l_depth,
   ghost), the value of yr_trycatch_trampoline_tls for this thread (l_tls: the frame whose jumpinfo it points to,
   None = NULL), l_skip (a guarded region is being skipped, see MGuard) and a register (l_reg, only used by the
   deliberately broken MEnterRacy).

   Programs are lists of macro operations.  MEnter / MExit are the two halves of YR_TRYCATCH (exception.h:238-295,
   the POSIX variant; on Linux CATCH_SIGSEGV = 0 and CATCH_SIGBUS = 1, so one signal is modelled), each executed as
   FIVE atomic steps, exactly in the order of the macro:

     MEnter  micro 0  pthread_mutex_lock(&exception_handler_mutex)        (blocks - here: spins - while it is held)
             micro 1  if (exception_handler_usecount == 0) sigaction(SIGBUS, &act, &old_sigbus_exception_handler)
             micro 2  exception_handler_usecount++
             micro 3  pthread_mutex_unlock
             micro 4  yr_thread_storage_set_value(&yr_trycatch_trampoline_tls, &ji)   [then sigsetjmp, try clause]
     MExit   micro 0  pthread_mutex_lock
             micro 1  exception_handler_usecount--
             micro 2  if (exception_handler_usecount == 0) sigaction(SIGBUS, &old_sigbus_exception_handler, NULL)
             micro 3  pthread_mutex_unlock
             micro 4  yr_thread_storage_set_value(&yr_trycatch_trampoline_tls, NULL)

   MScan a     one step of a scan: an arbitrary function of (rules, own scanner) -> own scanner  (scan_step)
   MCreate     yr_scanner_create: the scanner is a function of the rules (externals are copied, scanner.c:305-327)
   MDestroy    yr_scanner_destroy
   MDefine x v yr_scanner_define_*_variable: writes the scanner's own objects_table entry (scanner.c:411-471)
   MGuard q .. MEndGuard   data dependent control: when q (rules, own scanner) is false the operations up to the
               matching MEndGuard are skipped (yr_scanner_scan_mem_blocks: "if (result != ERROR_SUCCESS) goto _exit"
               skips the second YR_TRYCATCH after an error / timeout in the first one; SCAN_FLAGS_NO_TRYCATCH)
   MRulesWrite f   a write to the SHARED rules (yr_rule_disable: rule->flags |= RULE_FLAGS_DISABLED, rules.c:567-589;
               yr_rules_define_integer_variable: external->value.i = value, rules.c:63).  Excluded by the theorems'
               premises; kept in the model to show what happens without the premise.
   MSigaction n    the application calls sigaction(SIGBUS, handler n) itself.  Same remark.
   MEnterRacy  MEnter with "exception_handler_usecount++" moved out of the critical section (a non-atomic load /
               store pair): the self-test change of DESIGN.md section 11.  Same remark.

   What a scan may write.  The only memory a step of thread t may write is its own local state (l_ctx t: the scanner and
   everything reachable only from it).  EVERYTHING ELSE that more than one scanner can reach is shared state and belongs
   to the read-only component g_rules of this model: the rules' arena, but also any variable with static storage
   duration inside libyara or a module (a `static char msg[32]` that console.log formats into, a cache, a counter).
   A scan step that writes such a location is not an MScan (a function rules x own scanner -> own scanner) but an
   MRulesWrite, which the premises of the theorems (all_clean / bal) exclude; the witness
   module_static_buffer_refutes_noninterference (Props) shows what happens otherwise.  On the implementation the arena
   part of this premise is watched by the mprotect frame monitor; statics live in .data/.bss, where mprotect cannot
   tell a scan's write from the handler protocol's own variables: they are watched by the before/after comparison of
   every writable global of libyara.a and by ThreadSanitizer, and their effect by comparing the content of every
   pointer-carrying callback message with the solo run (checks/c09.py).

   A schedule is a list of thread ids; [gstep t] lets thread t do its next atomic step (nothing happens when t does
   not exist, has finished, or waits for the mutex).  No proofs in this file. *)
From Coq Require Import List ZArith NArith Bool Arith.
Import ListNotations.
Local Open Scope Z_scope.

(* disposition of SIGBUS: some handler that is not libyara's (0 = the one found at start), or exception_handler *)
Inductive sigact := HApp (n : nat) | HYara.

Definition sigact_eqb (a b : sigact) : bool :=
  match a, b with
  | HYara, HYara => true
  | HApp n, HApp m => Nat.eqb n m
  | _, _ => false
  end.

Section Conc.
  Variables (R C A X V : Type).
  Variable scan_step : R -> A -> C -> C.
  Variable create : R -> C.
  Variable define : X -> V -> C -> C.

  Inductive mop :=
  | MEnter | MExit
  | MScan (a : A) | MCreate | MDestroy | MDefine (x : X) (v : V)
  | MGuard (q : R -> option C -> bool) | MEndGuard
  | MRulesWrite (f : R -> R) | MSigaction (n : nat) | MEnterRacy.

  Record local := mkLocal {
    l_ctx : option C; l_prog : list mop; l_micro : nat; l_depth : nat; l_tls : option nat; l_skip : bool; l_reg : Z }.

  Record gstate := mkG {
    g_rules : R; g_handler : sigact; g_old : sigact; g_count : Z; g_mutex : option nat; g_locals : list local }.

  Definition finished (l : local) : bool := match l_prog l with [] => true | _ => false end.

  Fixpoint upd {T : Type} (t : nat) (x : T) (ls : list T) : list T :=
    match ls, t with
    | [], _ => []
    | _ :: r, O => x :: r
    | y :: r, S t' => y :: upd t' x r
    end.

  (* what one successful step does to the local state of the thread that takes it: a function of the rules and the
     local state only ([cnt] = the shared counter, read by nobody but MEnterRacy) *)
  Definition lstep (r : R) (cnt : Z) (l : local) : local :=
    match l_prog l with
    | [] => l
    | o :: p =>
      if l_skip l then
        mkLocal (l_ctx l) p 0 (l_depth l) (l_tls l) (match o with MEndGuard => false | _ => true end) (l_reg l)
      else
        match o with
        | MEnter =>
            if (l_micro l <? 4)%nat then mkLocal (l_ctx l) (l_prog l) (S (l_micro l)) (l_depth l) (l_tls l) false (l_reg l)
            else mkLocal (l_ctx l) p 0 (S (l_depth l)) (Some (S (l_depth l))) false (l_reg l)
        | MExit =>
            if (l_micro l <? 4)%nat then mkLocal (l_ctx l) (l_prog l) (S (l_micro l)) (l_depth l) (l_tls l) false (l_reg l)
            else mkLocal (l_ctx l) p 0 (pred (l_depth l)) None false (l_reg l)
        | MEnterRacy =>
            if (l_micro l <? 5)%nat then
              mkLocal (l_ctx l) (l_prog l) (S (l_micro l)) (l_depth l) (l_tls l) false
                      (if (l_micro l =? 3)%nat then cnt else l_reg l)
            else mkLocal (l_ctx l) p 0 (S (l_depth l)) (Some (S (l_depth l))) false (l_reg l)
        | MScan a => mkLocal (option_map (scan_step r a) (l_ctx l)) p 0 (l_depth l) (l_tls l) false (l_reg l)
        | MCreate => mkLocal (Some (create r)) p 0 (l_depth l) (l_tls l) false (l_reg l)
        | MDestroy => mkLocal None p 0 (l_depth l) (l_tls l) false (l_reg l)
        | MDefine x v => mkLocal (option_map (define x v) (l_ctx l)) p 0 (l_depth l) (l_tls l) false (l_reg l)
        | MGuard q => mkLocal (l_ctx l) p 0 (l_depth l) (l_tls l) (negb (q r (l_ctx l))) (l_reg l)
        | MEndGuard | MRulesWrite _ | MSigaction _ => mkLocal (l_ctx l) p 0 (l_depth l) (l_tls l) false (l_reg l)
        end
    end.

  (* the operation the thread is about to execute for real (None: finished or skipping) *)
  Definition active (l : local) : option mop := if l_skip l then None else hd_error (l_prog l).

  (* pthread_mutex_lock on a held mutex *)
  Definition blocked (g : gstate) (l : local) : bool :=
    match active l, l_micro l, g_mutex g with
    | Some MEnter, O, Some _ | Some MExit, O, Some _ | Some MEnterRacy, O, Some _ => true
    | _, _, _ => false
    end.

  Definition test_install (g : gstate) : sigact * sigact :=     (* new (handler, old) *)
    if g_count g =? 0 then (HYara, g_handler g) else (g_handler g, g_old g).

  (* the shared part of the state after thread t's step *)
  Definition geffect (t : nat) (l : local) (g : gstate) : R * sigact * sigact * Z * option nat :=
    let same := (g_rules g, g_handler g, g_old g, g_count g, g_mutex g) in
    match active l with
    | Some MEnter =>
        match l_micro l with
        | 0%nat => (g_rules g, g_handler g, g_old g, g_count g, Some t)
        | 1%nat => (g_rules g, fst (test_install g), snd (test_install g), g_count g, g_mutex g)
        | 2%nat => (g_rules g, g_handler g, g_old g, g_count g + 1, g_mutex g)
        | 3%nat => (g_rules g, g_handler g, g_old g, g_count g, None)
        | _ => same
        end
    | Some MExit =>
        match l_micro l with
        | 0%nat => (g_rules g, g_handler g, g_old g, g_count g, Some t)
        | 1%nat => (g_rules g, g_handler g, g_old g, g_count g - 1, g_mutex g)
        | 2%nat => (g_rules g, (if g_count g =? 0 then g_old g else g_handler g), g_old g, g_count g, g_mutex g)
        | 3%nat => (g_rules g, g_handler g, g_old g, g_count g, None)
        | _ => same
        end
    | Some MEnterRacy =>
        match l_micro l with
        | 0%nat => (g_rules g, g_handler g, g_old g, g_count g, Some t)
        | 1%nat => (g_rules g, fst (test_install g), snd (test_install g), g_count g, g_mutex g)
        | 2%nat => (g_rules g, g_handler g, g_old g, g_count g, None)
        | 4%nat => (g_rules g, g_handler g, g_old g, l_reg l + 1, g_mutex g)
        | _ => same
        end
    | Some (MRulesWrite f) => (f (g_rules g), g_handler g, g_old g, g_count g, g_mutex g)
    | Some (MSigaction n) => (g_rules g, HApp n, g_old g, g_count g, g_mutex g)
    | _ => same
    end.

  Definition gstep (t : nat) (g : gstate) : gstate :=
    match nth_error (g_locals g) t with
    | None => g
    | Some l =>
      if finished l then g
      else if blocked g l then g
      else
        match geffect t l g with
        | (r', h', o', c', m') => mkG r' h' o' c' m' (upd t (lstep (g_rules g) (g_count g) l) (g_locals g))
        end
    end.

  Definition run (sched : list nat) (g : gstate) : gstate := fold_left (fun g t => gstep t g) sched g.

  Definition init_local (p : list mop) : local := mkLocal None p 0 0 None false 0.
  Definition init (r : R) (h0 : sigact) (progs : list (list mop)) : gstate :=
    mkG r h0 h0 0 None (map init_local progs).

  Fixpoint iter {T : Type} (n : nat) (f : T -> T) (x : T) : T :=
    match n with O => x | S n' => iter n' f (f x) end.

  (* the thread on its own: its successful steps, one after the other *)
  Definition alone (r : R) (l : local) (fuel : nat) : local := iter fuel (lstep r 0) l.
  Definition fuel_of (l : local) : nat := 6 * length (l_prog l).

  (* ---------------------------------------------------------------- static discipline of a thread's program *)
  Definition clean_op (o : mop) : bool :=
    match o with MRulesWrite _ | MSigaction _ | MEnterRacy => false | _ => true end.
  Definition clean_prog (p : list mop) : bool := forallb clean_op p.

  (* bal mx d g p: from depth d (g = Some d0: inside a guarded region opened at depth d0) the program p is
     well bracketed: never more than mx sections open, no MExit at depth 0, guarded regions are not nested and
     leave the depth as they found it, and the program ends at depth 0 outside any region; only clean operations *)
  Fixpoint bal (mx d : nat) (g : option nat) (p : list mop) : bool :=
    match p with
    | [] => match g with None => (d =? 0)%nat | Some _ => false end
    | MEnter :: p' => (S d <=? mx)%nat && bal mx (S d) g p'
    | MExit :: p' => match d with O => false | S d' => bal mx d' g p' end
    | MGuard _ :: p' => match g with None => bal mx d (Some d) p' | Some _ => false end
    | MEndGuard :: p' => match g with Some d0 => (d =? d0)%nat && bal mx d None p' | None => false end
    | MScan _ :: p' | MCreate :: p' | MDestroy :: p' | MDefine _ _ :: p' => bal mx d g p'
    | MRulesWrite _ :: _ | MSigaction _ :: _ | MEnterRacy :: _ => false
    end.

  (* number of try sections the thread is inside, as the shared counter sees it: from its increment to its decrement *)
  Definition contrib (l : local) : Z :=
    Z.of_nat (l_depth l) +
    (if l_skip l then 0 else
       match l_prog l with
       | MEnter :: _ => if (3 <=? l_micro l)%nat then 1 else 0
       | MExit :: _ => if (2 <=? l_micro l)%nat then -1 else 0
       | _ => 0
       end).

  Definition inside (l : local) : bool := 0 <? contrib l.

  Definition sumz (ls : list local) : Z := fold_right (fun l a => contrib l + a) 0 ls.

  (* the thread holds the mutex *)
  Definition in_crit (l : local) : bool :=
    match active l with
    | Some MEnter | Some MExit => (1 <=? l_micro l)%nat && (l_micro l <=? 3)%nat
    | _ => false
    end.

  Definition all_finished (g : gstate) : bool := forallb finished (g_locals g).
  Definition installed (g : gstate) : bool := sigact_eqb (g_handler g) HYara.

  (* ------------------------------------------------------------------------------- the shape of the API calls *)
  (* yr_scanner_scan_mem_blocks with the default flags: try { blocks }  if ok: try { yr_execute_code }  if ok: report *)
  Definition scan_call (ok : R -> option C -> bool) (blocks : list A) (exec report : A) : list mop :=
    [MEnter] ++ map MScan blocks ++ [MExit; MGuard ok; MEnter; MScan exec; MExit; MEndGuard; MGuard ok; MScan report; MEndGuard].
  (* ... with SCAN_FLAGS_NO_TRYCATCH *)
  Definition scan_call_notry (ok : R -> option C -> bool) (blocks : list A) (exec report : A) : list mop :=
    map MScan blocks ++ [MGuard ok; MScan exec; MEndGuard; MGuard ok; MScan report; MEndGuard].
  (* yr_rules_scan_mem: scanner per call (rules.c: yr_scanner_create / scan / yr_scanner_destroy) *)
  Definition rules_scan_call (ok : R -> option C -> bool) (blocks : list A) (exec report : A) : list mop :=
    [MCreate] ++ scan_call ok blocks exec report ++ [MDestroy].
End Conc.

Arguments MEnter {R C A X V}.
Arguments MExit {R C A X V}.
Arguments MScan {R C A X V}.
Arguments MCreate {R C A X V}.
Arguments MDestroy {R C A X V}.
Arguments MDefine {R C A X V}.
Arguments MGuard {R C A X V}.
Arguments MEndGuard {R C A X V}.
Arguments MRulesWrite {R C A X V}.
Arguments MSigaction {R C A X V}.
Arguments MEnterRacy {R C A X V}.

(* ------------------------------------------------------------------------------------------------------------
   A small concrete instance (used by the Examples and by the extracted runner that checks/c09.py drives):
   rules = list of thresholds (with a "disabled" flag each); a scanner = (external variable, error flag, trace);
   scanning the value a appends, per enabled rule, whether threshold <= a + external; a negative a is an error
   (callback abort / timeout): it sets the error flag and appends nothing, and nothing is scanned after an error. *)
Definition irules := list (Z * bool).
Record ictx := mkICtx { ic_ext : Z; ic_err : bool; ic_trace : list Z }.

Definition i_scan (r : irules) (a : Z) (c : ictx) : ictx :=
  if ic_err c then c
  else if a <? 0 then mkICtx (ic_ext c) true (ic_trace c)
  else mkICtx (ic_ext c) (ic_err c)
         (ic_trace c ++ flat_map (fun th : Z * bool => if snd th then [] else [if fst th <=? a + ic_ext c then 1 else 0]) r).
Definition i_create (r : irules) : ictx := mkICtx 0 false [].
Definition i_define (_ : unit) (v : Z) (c : ictx) : ictx := mkICtx v (ic_err c) (ic_trace c).
Definition i_ok (_ : irules) (c : option ictx) : bool := match c with Some c => negb (ic_err c) | None => false end.
(* yr_rule_disable on rule 0 *)
Definition i_disable0 (r : irules) : irules := match r with (th, _) :: t => (th, true) :: t | [] => [] end.

(* a module-level static buffer, seen as one more shared location: slot 0 of the shared state holds the text that
   console.log(<int>) has formatted; "formatting" v is a write to it, handing it to the callback is a read *)
Definition i_format (v : Z) (r : irules) : irules := match r with (_, d) :: t => (v, d) :: t | [] => [] end.

Definition imop := mop irules ictx Z unit Z.
Definition ilocal := local irules ictx Z unit Z.
Definition igstate := gstate irules ictx Z unit Z.
Definition i_gstep : nat -> igstate -> igstate := gstep irules ictx Z unit Z i_scan i_create i_define.
Definition i_run : list nat -> igstate -> igstate := run irules ictx Z unit Z i_scan i_create i_define.
Definition i_init : irules -> sigact -> list (list imop) -> igstate := init irules ictx Z unit Z.
Definition i_alone (r : irules) (l : ilocal) (fuel : nat) : ilocal := alone irules ictx Z unit Z i_scan i_create i_define r l fuel.
Definition i_bal : nat -> nat -> option nat -> list imop -> bool := bal irules ictx Z unit Z.
Definition i_contrib : ilocal -> Z := contrib irules ictx Z unit Z.
Definition i_in_crit : ilocal -> bool := in_crit irules ictx Z unit Z.
Definition i_scan_call (blocks : list Z) (exec report : Z) : list imop := scan_call irules ictx Z unit Z i_ok blocks exec report.
Definition i_scan_call_notry (blocks : list Z) (exec report : Z) : list imop := scan_call_notry irules ictx Z unit Z i_ok blocks exec report.

(* what the runner prints: (count, installed, mutex owner, per thread (open sections, holds the mutex, tls, finished,
   external, error flag, trace)) *)
Definition i_view (g : igstate) :=
  (g_count _ _ _ _ _ g, installed _ _ _ _ _ g, g_mutex _ _ _ _ _ g, g_handler _ _ _ _ _ g,
   map (fun l : ilocal => (i_contrib l, i_in_crit l, l_tls _ _ _ _ _ l, finished _ _ _ _ _ l, l_ctx _ _ _ _ _ l)) (g_locals _ _ _ _ _ g)).

(* the runner's prelude (ocaml/prelude.ml) mentions the type N: make the extraction of this part alone contain it *)
Definition i_unused_n : N := 0%N.
