(* Hand model of pe_rva_to_offset (libyara/modules/pe/pe_utils.c), statement by statement, over the
   section headers as the C reads them.  32/64-bit unsigned arithmetic explicit (Base/USem.v).
   The guard of every section-header read is the GENERATED predicate gen/GenBounds.fits_in_pe and the
   loop condition is the GENERATED pe_rva_loop_cond, so the model follows the source where it is
   regenerated and is tied to the code by the correspondence run of checks/c06.py (h_bounds `rva`).

   C types:  rva : uint64_t;  lowest_section_rva, section_rva, section_offset, section_raw_size : DWORD
   (uint32_t);  result : int64_t;  i, alignment, rest : int;  pe->data_size : size_t. *)
From Coq Require Import ZArith List Bool.
From YV Require Import Base.USem gen.GenBounds.
Import ListNotations.
Local Open Scope Z_scope.

(* the four fields of an IMAGE_SECTION_HEADER that the function reads (all DWORD) *)
Record section := { s_va : Z; s_vsize : Z; s_rawsize : Z; s_rawptr : Z }.
Definition zero_section := {| s_va := 0; s_vsize := 0; s_rawsize := 0; s_rawptr := 0 |}.

(* what the function reads of the PE besides the sections *)
Record peinfo := {
  pe_data : Z;              (* pe->data, an address *)
  pe_data_size : Z;         (* pe->data_size, size_t *)
  pe_first_section : Z;     (* IMAGE_FIRST_SECTION(pe->header), an address *)
  pe_nsec : Z;              (* FileHeader.NumberOfSections, WORD *)
  pe_file_alignment : Z;    (* OptionalHeader(pe, FileAlignment), DWORD *)
  pe_section_alignment : Z  (* OptionalHeader(pe, SectionAlignment), DWORD *)
}.

Record lstate := { lowest_section_rva : Z; section_rva : Z; section_offset : Z; section_raw_size : Z }.

Definition init_state := {| lowest_section_rva := 4294967295; section_rva := 0; section_offset := 0; section_raw_size := 0 |}.

(* the body of the `if (struct_fits_in_pe(...))` branch for one section *)
Definition section_step (pe : peinfo) (rva : Z) (s : section) (st : lstate) : lstate :=
  (* if (lowest_section_rva > section->VirtualAddress) lowest_section_rva = section->VirtualAddress; *)
  let lowest := if u_gt (lowest_section_rva st) (s_va s) then s_va s else lowest_section_rva st in
  (* uint32_t virtualSize = yr_max(section->Misc.VirtualSize, section->SizeOfRawData); *)
  let virtual_size := if u_gt (s_vsize s) (s_rawsize s) then s_vsize s else s_rawsize s in
  (* if (rva >= VirtualAddress && rva - VirtualAddress < virtualSize && section_rva <= VirtualAddress) *)
  if (if (if u_ge rva (s_va s) then u_lt (u_sub 64 rva (s_va s)) virtual_size else false)
      then u_le (section_rva st) (s_va s) else false)
  then
    (* alignment = yr_min(FileAlignment, 0x200);   (unsigned comparison, result <= 0x200 fits the int) *)
    let alignment := if u_lt (pe_file_alignment pe) 512 then pe_file_alignment pe else 512 in
    (* section_offset = PointerToRawData; if (alignment) { rest = section_offset % alignment; if (rest) section_offset -= rest; } *)
    let off0 := s_rawptr s in
    let off1 := if u_ne alignment 0
                then let rest := u_rem 32 off0 alignment in
                     if u_ne rest 0 then u_sub 32 off0 rest else off0
                else off0 in
    (* if (SectionAlignment >= PE_PAGE_SIZE) section_offset = section_offset & ~(PE_SECTOR_SIZE - 1); *)
    let off2 := if u_ge (pe_section_alignment pe) PE_PAGE_SIZE
                then u_and 32 off1 (u_not 32 (PE_SECTOR_SIZE - 1)) else off1 in
    {| lowest_section_rva := lowest; section_rva := s_va s; section_offset := off2; section_raw_size := s_rawsize s |}
  else
    {| lowest_section_rva := lowest; section_rva := section_rva st; section_offset := section_offset st;
       section_raw_size := section_raw_size st |}.

Inductive loopres :=
| LDone (steps : Z) (st : lstate)      (* the while condition became false after [steps] iterations *)
| LFail (steps : Z)                    (* a section header does not fit: return -1 *)
| LOutOfFuel.

(* while (i < yr_min(NumberOfSections, MAX_PE_SECTIONS)) { if (struct_fits_in_pe(pe, section, IMAGE_SECTION_HEADER)) {...; section++; i++;} else return -1; } *)
Fixpoint section_loop (fuel : nat) (pe : peinfo) (secs : list section) (rva : Z) (i : Z) (st : lstate) : loopres :=
  match fuel with
  | O => LOutOfFuel
  | S fuel' =>
    if pe_rva_loop_cond i (pe_nsec pe) then
      (* section == first + i (pointer to 40-byte structs) *)
      let section_addr := p_add 1 (pe_first_section pe) (sizeof_IMAGE_SECTION_HEADER * i) in
      if fits_in_pe (pe_data pe) (pe_data_size pe) section_addr sizeof_IMAGE_SECTION_HEADER then
        section_loop fuel' pe secs rva (i + 1) (section_step pe rva (nth (Z.to_nat i) secs zero_section) st)
      else LFail i
    else LDone i st
  end.

(* more fuel than the loop can ever use when it is capped by MAX_PE_SECTIONS; that the cap holds for
   the generated loop condition is theorem caps_bound_iterations *)
Definition loop_fuel : nat := Z.to_nat (MAX_PE_SECTIONS + 1).

Inductive rvares :=
| ROffset (off : Z)       (* int64_t result >= 0 returned *)
| RNone                   (* return -1 *)
| RFuel.

Definition rva_tail (pe : peinfo) (rva : Z) (st : lstate) : rvares :=
  (* if (rva < lowest_section_rva) { section_rva = 0; section_offset = 0; section_raw_size = (DWORD) pe->data_size; } *)
  let st' := if u_lt rva (lowest_section_rva st)
             then {| lowest_section_rva := lowest_section_rva st; section_rva := 0; section_offset := 0;
                     section_raw_size := u_cast 32 (pe_data_size pe) |}
             else st in
  (* if ((rva - section_rva) >= section_raw_size) return -1; *)
  if u_ge (u_sub 64 rva (section_rva st')) (section_raw_size st') then RNone else
  (* result = section_offset + (rva - section_rva);      uint64 sum stored in an int64_t *)
  let result_bits := u_add 64 (section_offset st') (u_sub 64 rva (section_rva st')) in
  (* if (result >= pe->data_size) return -1;             int64_t vs size_t: compared as uint64 *)
  if u_ge result_bits (pe_data_size pe) then RNone else ROffset (to_s64 result_bits).

Definition pe_rva_to_offset (pe : peinfo) (secs : list section) (rva : Z) : rvares :=
  match section_loop loop_fuel pe secs rva 0 init_state with
  | LDone _ st => rva_tail pe rva st
  | LFail _ => RNone
  | LOutOfFuel => RFuel
  end.

(* number of loop iterations executed (for caps_bound_iterations) *)
Definition loop_steps (r : loopres) : Z := match r with LDone n _ => n | LFail n => n | LOutOfFuel => -1 end.

Definition peinfo_ok (pe : peinfo) : Prop :=
  is_u64 (pe_data pe) /\ is_u64 (pe_data_size pe) /\ is_u64 (pe_first_section pe) /\ is_u 16 (pe_nsec pe) /\
  is_u32 (pe_file_alignment pe) /\ is_u32 (pe_section_alignment pe).
Definition section_ok (s : section) : Prop :=
  is_u32 (s_va s) /\ is_u32 (s_vsize s) /\ is_u32 (s_rawsize s) /\ is_u32 (s_rawptr s).
