(* External variables at the three levels of the C API (C20).

   compiler table  (compiler.c  _yr_compiler_define_variable: arena table + objects_table)
     --yr_compiler_get_rules-->  rules table  (rules.c  yr_rules_define_X: YR_EXTERNAL_VARIABLE array)
       --yr_scanner_create-->    scanner objects_table snapshot  (scanner.c yr_scanner_define_X)

   The three families of define functions have DIFFERENT validity rules; each is modelled as the C code
   has it (line references are to /repo at the pinned tree), including the one place left where the code
   misbehaves ([RCrash]: saving after a rules-level string redefinition).  Executable; tied to the implementation by
   checks/c20.py (same histories through harness/h_hist and the extracted model). *)
From Coq Require Import List NArith ZArith QArith Bool.
From YV Require Import Base.Bytes Base.CSem gen.GenConsts.
Import ListNotations.
Local Open Scope N_scope.

Definition ident := N.

(* EXTERNAL_VARIABLE_TYPE_INTEGER / BOOLEAN / FLOAT / STRING.  MALLOC_STRING is STRING + [x_heap]. *)
Inductive xty := XInt | XBool | XFloat | XStr.

(* the value union.  [PNull] is value.s == NULL *)
Inductive payload := PI (z : Z) | PF (q : Q) | PS (s : bytes) | PNull.

(* what a caller hands to a define function: the function chosen (type) and the argument *)
Inductive dval := DI (z : Z) | DB (z : Z) | DF (q : Q) | DS (s : option bytes).

Definition dval_ty (d : dval) : xty :=
  match d with DI _ => XInt | DB _ => XBool | DF _ => XFloat | DS _ => XStr end.

Definition dval_payload (d : dval) : payload :=
  match d with DI z => PI z | DB z => PI z | DF q => PF q | DS (Some s) => PS s | DS None => PNull end.

Inductive res := ROk | RErr (code : Z) | RCrash | RMisuse.

(* ------------------------------------------------------------------ association lists *)
Definition objs := list (ident * payload).

Fixpoint lookup (x : ident) (l : objs) : option payload :=
  match l with
  | [] => None
  | (y, v) :: t => if N.eqb y x then Some v else lookup x t
  end.

Fixpoint update (x : ident) (v : payload) (l : objs) : objs :=
  match l with
  | [] => []
  | (y, w) :: t => if N.eqb y x then (y, v) :: t else (y, w) :: update x v t
  end.

Fixpoint remove_keys (ks : list ident) (l : objs) : objs :=
  match l with
  | [] => []
  | (y, w) :: t => if existsb (N.eqb y) ks then remove_keys ks t else (y, w) :: remove_keys ks t
  end.

Definition mem (x : ident) (l : list ident) : bool := existsb (N.eqb x) l.

(* ------------------------------------------------------------------ compiler level *)
Record xentry := { x_id : ident; x_ty : xty; x_val : payload; x_heap : bool }.

(* arena table (what ends up in the rule set) and objects_table (what duplicate detection looks at) *)
Record cstate := { c_ext : list xentry; c_objs : list ident }.

Definition compiler_empty : cstate := {| c_ext := []; c_objs := [] |}.

(* compiler.c 755-815.  Order of the C code: NULL string value -> ERROR_INVALID_ARGUMENT before any table
   is touched (since fix ce98a74); duplicate test against objects_table; then the table entry and the object. *)
Definition compiler_define (c : cstate) (x : ident) (d : dval) : cstate * res :=
  match d with
  | DS None => (c, RErr ERROR_INVALID_ARGUMENT)
  | _ =>
    if mem x (c_objs c) then (c, RErr ERROR_DUPLICATED_EXTERNAL_VARIABLE)
    else
      let e := {| x_id := x; x_ty := dval_ty d; x_val := dval_payload d; x_heap := false |} in
      ({| c_ext := c_ext c ++ [e]; c_objs := c_objs c ++ [x] |}, ROk)
  end.

(* ------------------------------------------------------------------ rules level *)
Definition rules := list xentry.

(* the while loop of rules.c 58-70: FIRST entry whose identifier compares equal *)
Fixpoint rules_update (r : rules) (x : ident) (f : xentry -> xentry * res) : rules * res :=
  match r with
  | [] => ([], RErr ERROR_INVALID_ARGUMENT)
  | e :: t =>
      if N.eqb (x_id e) x then let (e', rc) := f e in (e' :: t, rc)
      else let (t', rc) := rules_update t x f in (e :: t', rc)
  end.

Definition set_val (e : xentry) (v : payload) (heap : bool) : xentry :=
  {| x_id := x_id e; x_ty := x_ty e; x_val := v; x_heap := heap |}.

(* rules.c 44-170: exact type equality (a boolean define on an integer variable is rejected);
   string: NULL value rejected before the lookup; the new value is strdup'ed (MALLOC_STRING) *)
Definition rules_define (r : rules) (x : ident) (d : dval) : rules * res :=
  match d with
  | DS None => (r, RErr ERROR_INVALID_ARGUMENT)
  | _ =>
    rules_update r x (fun e =>
      match d, x_ty e with
      | DI z, XInt => (set_val e (PI z) false, ROk)
      | DB z, XBool => (set_val e (PI z) false, ROk)
      | DF q, XFloat => (set_val e (PF q) false, ROk)
      | DS (Some s), XStr => (set_val e (PS s) true, ROk)
      | _, _ => (e, RErr ERROR_INVALID_EXTERNAL_VARIABLE_TYPE)
      end)
  end.

(* arena.c yr_arena_save_stream: a relocatable slot (value.s of a STRING external, compiler.c 789)
   that points outside the arena fails assert(found) *)
Definition rules_save (r : rules) : res := if existsb x_heap r then RCrash else ROk.

(* strings owned by the rule set: freed by yr_rules_destroy / by the next redefinition *)
Definition rules_heap (r : rules) : nat := length (filter x_heap r).

(* ------------------------------------------------------------------ scanner level *)
(* scanner.c 304-327 + object.c 253-314: one object per table entry, INTEGER and BOOLEAN both become
   OBJECT_TYPE_INTEGER; strlen(NULL) for a half-written string entry; yr_hash_table_add rejects a
   second entry with the same identifier *)
Fixpoint scanner_objs (r : rules) (acc : objs) : objs + res :=
  match r with
  | [] => inl acc
  | e :: t =>
      match x_val e with
      | PNull => inr RCrash
      | v => if mem (x_id e) (map fst acc) then inr (RErr ERROR_DUPLICATED_IDENTIFIER)
             else scanner_objs t (acc ++ [(x_id e, v)])
      end
  end.

(* scanner.c 404-475: for strings a NULL value -> ERROR_INVALID_ARGUMENT first (since fix 0dc25b3); lookup;
   then the object type test (the boolean function IS the integer function) *)
Definition scanner_define (o : objs) (x : ident) (d : dval) : objs * res :=
  match d with
  | DS None => (o, RErr ERROR_INVALID_ARGUMENT)
  | _ =>
    match lookup x o with
    | None => (o, RErr ERROR_INVALID_ARGUMENT)
    | Some v =>
        match d, v with
        | DI z, PI _ => (update x (PI z) o, ROk)
        | DB z, PI _ => (update x (PI z) o, ROk)
        | DF q, PF _ => (update x (PF q) o, ROk)
        | DS (Some s), PS _ => (update x (PS s) o, ROk)
        | _, _ => (o, RErr ERROR_INVALID_EXTERNAL_VARIABLE_TYPE)
        end
    end
  end.

(* ------------------------------------------------------------------ the world: one compiler, one rule set, scanners *)
Record world := {
  w_comp : cstate;
  w_rules : option rules;            (* None before yr_compiler_get_rules *)
  w_scanners : list (nat * objs)     (* slot -> objects_table of a live scanner *)
}.

Definition world0 : world := {| w_comp := compiler_empty; w_rules := None; w_scanners := [] |}.

Inductive op :=
| OCDef (x : ident) (d : dval)          (* yr_compiler_define_X_variable *)
| OGetRules                             (* yr_compiler_get_rules *)
| ORDef (x : ident) (d : dval)          (* yr_rules_define_X_variable *)
| OCreate (k : nat)                     (* yr_scanner_create into slot k *)
| OSDef (k : nat) (x : ident) (d : dval)(* yr_scanner_define_X_variable *)
| OScan (k : nat)                       (* a scan with scanner k: reports the values it sees *)
| ORScan                                (* yr_rules_scan_X: a scanner created for this one scan *)
| ODestroy (k : nat)
| OSave.                                (* yr_rules_save_stream *)

Inductive out := Res (r : res) | Seen (o : objs).

Fixpoint slot_get (k : nat) (l : list (nat * objs)) : option objs :=
  match l with [] => None | (j, o) :: t => if Nat.eqb j k then Some o else slot_get k t end.
Fixpoint slot_del (k : nat) (l : list (nat * objs)) : list (nat * objs) :=
  match l with [] => [] | (j, o) :: t => if Nat.eqb j k then slot_del k t else (j, o) :: slot_del k t end.
Fixpoint slot_set (k : nat) (o : objs) (l : list (nat * objs)) : list (nat * objs) :=
  match l with [] => [(k, o)] | (j, p) :: t => if Nat.eqb j k then (k, o) :: t else (j, p) :: slot_set k o t end.

Definition with_rules (w : world) (r : rules) : world :=
  {| w_comp := w_comp w; w_rules := Some r; w_scanners := w_scanners w |}.
Definition with_scanners (w : world) (s : list (nat * objs)) : world :=
  {| w_comp := w_comp w; w_rules := w_rules w; w_scanners := s |}.

Definition step (w : world) (o : op) : world * out :=
  match o with
  | OCDef x d =>
      match w_rules w with
      | Some _ => (w, Res RMisuse)        (* variables must be defined before the rules are compiled *)
      | None => let (c, rc) := compiler_define (w_comp w) x d in
                ({| w_comp := c; w_rules := None; w_scanners := w_scanners w |}, Res rc)
      end
  | OGetRules =>
      match w_rules w with
      | Some _ => (w, Res RMisuse)
      | None => (with_rules w (c_ext (w_comp w)), Res ROk)
      end
  | ORDef x d =>
      match w_rules w with
      | None => (w, Res RMisuse)
      | Some r => let (r', rc) := rules_define r x d in (with_rules w r', Res rc)
      end
  | OCreate k =>
      match w_rules w, slot_get k (w_scanners w) with
      | Some r, None =>
          match scanner_objs r [] with
          | inl ob => (with_scanners w (slot_set k ob (w_scanners w)), Res ROk)
          | inr rc => (w, Res rc)
          end
      | _, _ => (w, Res RMisuse)
      end
  | OSDef k x d =>
      match slot_get k (w_scanners w) with
      | None => (w, Res RMisuse)
      | Some ob => let (ob', rc) := scanner_define ob x d in
                   (with_scanners w (slot_set k ob' (w_scanners w)), Res rc)
      end
  | OScan k =>
      match slot_get k (w_scanners w) with
      | None => (w, Res RMisuse)
      | Some ob => (w, Seen ob)
      end
  | ORScan =>
      match w_rules w with
      | None => (w, Res RMisuse)
      | Some r => match scanner_objs r [] with inl ob => (w, Seen ob) | inr rc => (w, Res rc) end
      end
  | ODestroy k =>
      match slot_get k (w_scanners w) with
      | None => (w, Res RMisuse)
      | Some _ => (with_scanners w (slot_del k (w_scanners w)), Res ROk)
      end
  | OSave =>
      match w_rules w with
      | None => (w, Res RMisuse)
      | Some r => (w, Res (rules_save r))
      end
  end.

Fixpoint run (w : world) (h : list op) : world * list out :=
  match h with
  | [] => (w, [])
  | o :: t => let (w1, r) := step w o in let (w2, rs) := run w1 t in (w2, r :: rs)
  end.

Definition run_state (w : world) (h : list op) : world := fold_left (fun w o => fst (step w o)) h w.

(* ------------------------------------------------------------------ conditions over externals *)
Inductive num := XNI (z : Z) | XNF (q : Q).

Inductive nexp :=
| XNLitI (z : Z) | XNLitF (q : Q) | XNVar (x : ident)
| XNAdd (a b : nexp) | XNSub (a b : nexp) | XNMul (a b : nexp) | XNNeg (a : nexp).

Inductive sexp := XSLit (s : bytes) | XSVar (x : ident).

Inductive cmp := XCEq | XCNe | XCLt | XCLe | XCGt | XCGe.
Inductive sop := XSEq | XSNe | XSContains | XSIContains | XSStartsWith | XSIStartsWith | XSEndsWith | XSIEndsWith | XSIEquals.

Inductive cond :=
| XCCmp (c : cmp) (a b : nexp)
| XCStr (o : sop) (a b : sexp)
| XCTruthN (a : nexp)            (* an integer (or boolean) expression used as a condition *)
| XCTruthS (a : sexp)            (* a string used as a condition: true iff non-empty *)
| XCNot (a : cond) | XCAnd (a b : cond) | XCOr (a b : cond).

Definition to_q (n : num) : Q := match n with XNI z => inject_Z z | XNF q => q end.

Definition arith (fi : Z -> Z -> Z) (fq : Q -> Q -> Q) (a b : num) : num :=
  match a, b with
  | XNI x, XNI y => XNI (wrap64 (fi x y))
  | _, _ => XNF (fq (to_q a) (to_q b))
  end.

Fixpoint eval_n (env : objs) (e : nexp) : option num :=
  match e with
  | XNLitI z => Some (XNI z)
  | XNLitF q => Some (XNF q)
  | XNVar x => match lookup x env with Some (PI z) => Some (XNI z) | Some (PF q) => Some (XNF q) | _ => None end
  | XNAdd a b => match eval_n env a, eval_n env b with Some x, Some y => Some (arith Z.add Qplus x y) | _, _ => None end
  | XNSub a b => match eval_n env a, eval_n env b with Some x, Some y => Some (arith Z.sub Qminus x y) | _, _ => None end
  | XNMul a b => match eval_n env a, eval_n env b with Some x, Some y => Some (arith Z.mul Qmult x y) | _, _ => None end
  | XNNeg a => match eval_n env a with Some (XNI x) => Some (XNI (wrap64 (- x))) | Some (XNF q) => Some (XNF (Qopp q)) | None => None end
  end.

Definition eval_s (env : objs) (e : sexp) : option bytes :=
  match e with
  | XSLit s => Some s
  | XSVar x => match lookup x env with Some (PS s) => Some s | _ => None end
  end.

Definition cmp_z (c : cmp) (x y : Z) : bool :=
  match c with XCEq => Z.eqb x y | XCNe => negb (Z.eqb x y) | XCLt => Z.ltb x y | XCLe => Z.leb x y
             | XCGt => Z.ltb y x | XCGe => Z.leb y x end.
Definition cmp_q (c : cmp) (x y : Q) : bool :=
  match c with XCEq => Qeq_bool x y | XCNe => negb (Qeq_bool x y) | XCLt => negb (Qle_bool y x) | XCLe => Qle_bool x y
             | XCGt => negb (Qle_bool x y) | XCGe => Qle_bool y x end.
Definition cmp_num (c : cmp) (a b : num) : bool :=
  match a, b with XNI x, XNI y => cmp_z c x y | _, _ => cmp_q c (to_q a) (to_q b) end.

(* yr_lowercase under the "C" locale *)
Definition ext_lower (b : N) : N := if (65 <=? b) && (b <=? 90) then b + 32 else b.

Fixpoint prefixb (p s : bytes) : bool :=
  match p, s with
  | [], _ => true
  | _ :: _, [] => false
  | a :: p', b :: s' => if N.eqb a b then prefixb p' s' else false
  end.
Fixpoint containsb (needle hay : bytes) : bool :=
  if prefixb needle hay then true else match hay with [] => false | _ :: t => containsb needle t end.

Definition str_op (o : sop) (a b : bytes) : bool :=
  let la := map ext_lower a in let lb := map ext_lower b in
  match o with
  | XSEq => bytes_eqb a b
  | XSNe => negb (bytes_eqb a b)
  | XSContains => containsb b a
  | XSIContains => containsb lb la
  | XSStartsWith => prefixb b a
  | XSIStartsWith => prefixb lb la
  | XSEndsWith => prefixb (rev b) (rev a)
  | XSIEndsWith => prefixb (rev lb) (rev la)
  | XSIEquals => bytes_eqb la lb
  end.

(* None: the condition does not type-check against the environment (a compile error in yara) *)
Fixpoint eval_cond (env : objs) (c : cond) : option bool :=
  match c with
  | XCCmp k a b => match eval_n env a, eval_n env b with Some x, Some y => Some (cmp_num k x y) | _, _ => None end
  | XCStr o a b => match eval_s env a, eval_s env b with Some x, Some y => Some (str_op o x y) | _, _ => None end
  | XCTruthN a => match eval_n env a with Some (XNI z) => Some (negb (Z.eqb z 0)) | _ => None end
  | XCTruthS a => match eval_s env a with Some s => Some (match s with [] => false | _ => true end) | None => None end
  | XCNot a => option_map negb (eval_cond env a)
  | XCAnd a b => match eval_cond env a, eval_cond env b with Some x, Some y => Some (andb x y) | _, _ => None end
  | XCOr a b => match eval_cond env a, eval_cond env b with Some x, Some y => Some (orb x y) | _, _ => None end
  end.

(* the same condition with every variable replaced by the literal of its current value *)
Fixpoint subst_n (env : objs) (e : nexp) : nexp :=
  match e with
  | XNVar x => match lookup x env with Some (PI z) => XNLitI z | Some (PF q) => XNLitF q | _ => XNVar x end
  | XNAdd a b => XNAdd (subst_n env a) (subst_n env b)
  | XNSub a b => XNSub (subst_n env a) (subst_n env b)
  | XNMul a b => XNMul (subst_n env a) (subst_n env b)
  | XNNeg a => XNNeg (subst_n env a)
  | e => e
  end.
Definition subst_s (env : objs) (e : sexp) : sexp :=
  match e with XSVar x => match lookup x env with Some (PS s) => XSLit s | _ => XSVar x end | e => e end.
Fixpoint subst_c (env : objs) (c : cond) : cond :=
  match c with
  | XCCmp k a b => XCCmp k (subst_n env a) (subst_n env b)
  | XCStr o a b => XCStr o (subst_s env a) (subst_s env b)
  | XCTruthN a => XCTruthN (subst_n env a)
  | XCTruthS a => XCTruthS (subst_s env a)
  | XCNot a => XCNot (subst_c env a)
  | XCAnd a b => XCAnd (subst_c env a) (subst_c env b)
  | XCOr a b => XCOr (subst_c env a) (subst_c env b)
  end.

(* ------------------------------------------------------------------ the specification side: values by level,
   read off the history (most recent operation first) without running the state machine *)

(* type and value a compiler-level define gives a variable: the FIRST accepted define of x *)
Fixpoint spec_compile (h : list op) (x : ident) : option (xty * payload) :=
  match h with
  | [] => None
  | OCDef y d :: t =>
      if N.eqb y x then match d with DS None => spec_compile t x | _ => Some (dval_ty d, dval_payload d) end
      else spec_compile t x
  | OGetRules :: _ => None
  | _ :: t => spec_compile t x
  end.

(* is the rules-level define of a value of type [dval_ty d] valid for a variable declared with type ty *)
Definition rules_valid (ty : xty) (d : dval) : bool :=
  match d, ty with
  | DI _, XInt | DB _, XBool | DF _, XFloat | DS (Some _), XStr => true
  | _, _ => false
  end.
(* scanner level: integer and boolean are one object type *)
Definition scanner_valid (ty : xty) (d : dval) : bool :=
  match d, ty with
  | DI _, XInt | DI _, XBool | DB _, XInt | DB _, XBool | DF _, XFloat | DS (Some _), XStr => true
  | _, _ => false
  end.

(* histories are given oldest first; the spec functions below take them REVERSED (most recent first);
   [decl] is the declared (compile-time) type and value of x *)
Fixpoint spec_rules (rh : list op) (decl : xty * payload) (x : ident) : payload :=
  match rh with
  | [] => snd decl
  | ORDef y d :: t => if N.eqb y x && rules_valid (fst decl) d then dval_payload d else spec_rules t decl x
  | _ :: t => spec_rules t decl x
  end.

Fixpoint spec_scanner (rh : list op) (decl : xty * payload) (k : nat) (x : ident) : option payload :=
  match rh with
  | [] => None
  | OSDef j y d :: t =>
      if Nat.eqb j k && N.eqb y x && scanner_valid (fst decl) d
      then match spec_scanner t decl k x with Some _ => Some (dval_payload d) | None => None end
      else spec_scanner t decl k x
  | OCreate j :: t =>
      if Nat.eqb j k then match spec_scanner t decl k x with Some v => Some v | None => Some (spec_rules t decl x) end
      else spec_scanner t decl k x
  | ODestroy j :: t => if Nat.eqb j k then None else spec_scanner t decl k x
  | _ :: t => spec_scanner t decl k x
  end.

(* histories the specification speaks about: no NULL string handed to any define function (their
   effect is what [invalid_define_changes_nothing] is about, and is where the code misbehaves) *)
Definition no_null (o : op) : bool :=
  match o with
  | OCDef _ (DS None) | ORDef _ (DS None) | OSDef _ _ (DS None) => false
  | _ => true
  end.
