(* C18: vocabulary of the file-queue protocol of cli/yara.c.

   gen/GenQueue.v (regenerated from cli/yara.c by lib/genqueue.py on every run) is a [qconfig]
   written in this vocabulary; Model/Queue.v gives it a small-step semantics.

   One [qop] per C statement of file_queue_put / file_queue_get / file_queue_finish that touches
   shared state.  Treating a statement as one atomic step is justified by theorem
   [accesses_under_mutex] (Proofs/QueueProofs.v): every reachable state in which a thread is about
   to execute a QStore/QLoad/QInc/QIfEqElse has that thread as the owner of the queue mutex. *)
From Coq Require Import List.
Import ListNotations.

(* the semaphore initialised to 0 (counts queued files + finish tokens) / to the queue capacity *)
Inductive qsem := QUsed | QUnused.

(* the two shared indices: [QHead] is the one indexing the slot read by file_queue_get,
   [QTail] the one indexing the slot written by file_queue_put *)
Inductive qvar := QHead | QTail.

Inductive qop :=
| QWait (s : qsem)                 (* if (cli_semaphore_wait(&s, deadline) == ERROR_SCAN_TIMEOUT) return ..;  (deadline not reached) *)
| QRelease (s : qsem)              (* cli_semaphore_release(&s); *)
| QLock                           (* cli_mutex_lock(&queue_mutex); *)
| QUnlock                         (* cli_mutex_unlock(&queue_mutex); *)
| QStore (v : qvar)                (* file_queue[v].path = _tcsdup(file_path); *)
| QLoad (v : qvar)                 (* result = file_queue[v].path; *)
| QInc (v : qvar) (m : nat)        (* v = (v + 1) % m; *)
| QIfEqElse (a b : qvar) (n : nat) (* if (a == b) { result = NULL; } else { <the next n ops> } *).

Record qconfig := mkQConfig {
  qc_put : list qop;        (* file_queue_put *)
  qc_get : list qop;        (* file_queue_get *)
  qc_fin_sem : qsem;        (* file_queue_finish: for (i = 0; i < qc_fin_n; i++) cli_semaphore_release(&qc_fin_sem); *)
  qc_fin_n : nat;
  qc_slots : nat;          (* number of elements of file_queue[] *)
  qc_used0 : nat;          (* initial values given to cli_semaphore_init in file_queue_init *)
  qc_unused0 : nat;
  qc_head0 : nat;          (* initial values of the two indices *)
  qc_tail0 : nat
}.

(* the shape the proofs are about, for a queue capacity M and T finish tokens *)
Definition qstd_cfg (M T : nat) : qconfig := {|
  qc_put := [QWait QUnused; QLock; QStore QTail; QInc QTail (S M); QUnlock; QRelease QUsed];
  qc_get := [QWait QUsed; QLock; QIfEqElse QHead QTail 2; QLoad QHead; QInc QHead (S M); QUnlock; QRelease QUnused];
  qc_fin_sem := QUsed;
  qc_fin_n := T;
  qc_slots := S M;
  qc_used0 := 0;
  qc_unused0 := M;
  qc_head0 := 0;
  qc_tail0 := 0
|}.
