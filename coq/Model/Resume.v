(* Model of yr_scanner_scan_mem_blocks (scanner.c:465-637) as a resumable machine (C13).

   The machine is driven by a block iterator that answers every first()/next() call with a block, "no more
   blocks", or "not ready" (NULL + last_error = ERROR_BLOCK_NOT_READY, docs/capi.rst "ERROR_BLOCK_NOT_READY").
   What a call leaves behind when it returns ERROR_BLOCK_NOT_READY is explicit ([rs_state]): the matches found so
   far and the notebook; a later call with the same iterator takes the continuation path (scanner.c:486-491:
   it calls next(), never first()).

   Abstract (Section variables): what scanning one block adds to the matches ([m_scan], the implementation
   treats every block on its own: _yr_scanner_scan_mem_block runs the automaton over one block, nothing is
   carried over a block border), and what happens once the iteration is complete ([finish]: condition
   evaluation from the matches, the file size and the values read back from the blocks, then the report loop
   of Model/Report.v).  The re-iteration done by rule evaluation (exec.c:123-144, first() then next() until the
   block holding the offset is found) goes through the same iterator, so a not-ready answer there is modelled
   too: it reads as undefined and the scan goes on.

   The iterator is "position keeping" (harness/h_proto.c implements exactly this): it remembers which block
   next() will deliver; first() rewinds; a not-ready answer changes only last_error.  Consequence worth
   noting: next() after a not-ready first() delivers block 0 - the continuation path requires that. *)
From Coq Require Import List ZArith NArith Bool Arith.
From YV Require Import gen.GenConsts Model.Report.
Import ListNotations.

Record rs_block := mk_rs_block {
  rb_base : N;
  rb_size : N;
  rb_data : option (list N)       (* what fetch_data returns; None = NULL *)
}.

Inductive rs_ans := AnsBlock (i : nat) | AnsEnd | AnsNotReady.

Record rs_iter := mk_rs_iter {
  ri_next : nat;                  (* index of the block the next ready next() delivers *)
  ri_pat : list bool;             (* answers still to come, one per call: true = not ready; [] = always ready *)
  ri_err : bool;                  (* last_error = ERROR_BLOCK_NOT_READY *)
  ri_log : list (bool * rs_ans)   (* calls so far, newest first: (is_first, answer) *)
}.

Definition rs_iter_init (pat : list bool) : rs_iter := mk_rs_iter 0 pat false [].

(* one first()/next() call *)
Definition rs_it_call (blocks : list rs_block) (is_first : bool) (it : rs_iter) : option rs_block * rs_iter :=
  match ri_pat it with
  | true :: p => (None, mk_rs_iter (ri_next it) p true ((is_first, AnsNotReady) :: ri_log it))
  | _ =>
      let j := if is_first then 0 else ri_next it in
      match nth_error blocks j with
      | Some b => (Some b, mk_rs_iter (S j) (tl (ri_pat it)) false ((is_first, AnsBlock j) :: ri_log it))
      | None => (None, mk_rs_iter (S j) (tl (ri_pat it)) false ((is_first, AnsEnd) :: ri_log it))
      end
  end.

(* reading one byte back from the blocks: exec.c function_read(uint8_t, ...) *)
Definition rs_in_block (b : rs_block) (off : N) : bool :=
  if N.leb (rb_base b) off then (if N.leb 1 (rb_size b) then N.leb off (rb_base b + rb_size b - 1) else false)
  else false.

Fixpoint rs_read_loop (blocks : list rs_block) (fuel : nat) (off : N) (it : rs_iter) (cur : option rs_block)
  : option (option N * rs_iter) :=
  match cur with
  | None => Some (None, it)       (* YR_UNDEFINED: no block holds the offset - or the iterator said not ready *)
  | Some b =>
      if rs_in_block b off
      then Some (match rb_data b with
                 | Some d => nth_error d (N.to_nat (off - rb_base b))
                 | None => None
                 end, it)
      else match fuel with
           | O => None
           | S fu => let '(nb, it') := rs_it_call blocks false it in rs_read_loop blocks fu off it' nb
           end
  end.

Fixpoint rs_do_reads (blocks : list rs_block) (reads : list N) (it : rs_iter) : option (list (option N) * rs_iter) :=
  match reads with
  | [] => Some ([], it)
  | off :: rest =>
      let '(b, it1) := rs_it_call blocks true it in
      match rs_read_loop blocks (length blocks) off it1 b with
      | None => None
      | Some (v, it2) =>
          match rs_do_reads blocks rest it2 with
          | None => None
          | Some (vs, it3) => Some (v :: vs, it3)
          end
      end
  end.

Section Machine.
  (* true: the code as it is now (fix 8a2210d: a fresh scan discards what an abandoned one left behind, and
     yr_scanner_destroy frees a leftover notebook); false: the pinned code, which did neither *)
  Variable discard : bool.
  (* everything block scanning accumulates in the scanner and a not-ready return must keep: context->matches
     (+ required_eval, which matches set) and scanner->entry_point (computed from the first block that looks like
     an executable, only while it is still undefined: scanner.c "if (scanner->entry_point == YR_UNDEFINED)");
     the concrete instance below ([rc_acc]) has both *)
  Variable M : Type.
  Variable m_empty : M.                            (* after _yr_scanner_clean_matches, entry_point = YR_UNDEFINED *)
  Variable m_scan : M -> rs_block -> list N -> M.  (* _yr_scanner_scan_mem_block on fetched data *)
  Variable R : Type.
  Variable reads : list N.                         (* offsets the conditions read, in evaluation order *)
  Variable finish : M -> option N -> list (option N) -> R.   (* yr_execute_code + report loop *)

  Record rs_state := mk_rs_state {
    rs_matches : M;
    rs_notebook : bool            (* scanner->matches_notebook != NULL *)
  }.
  Definition rs_init : rs_state := mk_rs_state m_empty false.

  Inductive rs_result := RsNotReady | RsDone (r : R) | RsFuel.

  Definition rs_scan_block (m : M) (b : rs_block) : M :=
    match rb_data b with Some d => m_scan m b d | None => m end.    (* fetch_data NULL: block skipped *)

  (* block = next(); while (block != NULL) { scan(block); block = next(); } *)
  Fixpoint rs_iterate (blocks : list rs_block) (fuel : nat) (m : M) (it : rs_iter) : option (M * rs_iter) :=
    let '(nb, it') := rs_it_call blocks false it in
    match nb with
    | None => Some (m, it')
    | Some b => match fuel with
                | O => None
                | S fu => rs_iterate blocks fu (rs_scan_block m b) it'
                end
    end.

  (* what the fresh path starts from (scanner.c, "if (scanner->matches_notebook != NULL)" in the else branch):
     a notebook that is still alive means the previous scan returned ERROR_BLOCK_NOT_READY and was not resumed;
     its matches are cleaned and its notebook destroyed.  The pinned code kept the matches (it relied on every
     earlier call having cleaned up at _exit) and overwrote - leaked - the notebook. *)
  Definition rs_fresh_matches (st : rs_state) : M :=
    if rs_notebook st then (if discard then m_empty else rs_matches st) else rs_matches st.
  (* notebooks lost: by the fresh path overwriting scanner->matches_notebook, by yr_scanner_destroy *)
  Definition rs_fresh_leaks (st : rs_state) : bool := if rs_notebook st then negb discard else false.
  Definition rs_destroy_leaks (st : rs_state) : bool := if rs_notebook st then negb discard else false.

  (* ONE call of yr_scanner_scan_mem_blocks.  [fsz] = iterator->file_size (None: no such function). *)
  Definition rs_scan_call (blocks : list rs_block) (fsz : option N) (st : rs_state) (it : rs_iter)
    : rs_result * rs_state * rs_iter :=
    let phase1 :=
      if ri_err it
      then (* continuation: state kept, block = iterator->next() *)
           rs_iterate blocks (length blocks) (rs_matches st) it
      else (* fresh: leftovers of an abandoned scan discarded (see rs_fresh_matches), notebook created;
              block = iterator->first() *)
           let '(b, it1) := rs_it_call blocks true it in
           match b with
           | None => Some (rs_fresh_matches st, it1)
           | Some b0 => rs_iterate blocks (length blocks) (rs_scan_block (rs_fresh_matches st) b0) it1
           end in
    match phase1 with
    | None => (RsFuel, rs_init, it)            (* out of fuel: excluded by the theorems *)
    | Some (m, it2) =>
        if ri_err it2
        then (* result = iterator->last_error = ERROR_BLOCK_NOT_READY: matches and notebook are kept *)
             (RsNotReady, mk_rs_state m true, it2)
        else match rs_do_reads blocks reads it2 with
             | None => (RsFuel, rs_init, it2)
             | Some (vals, it3) =>
                 (* _exit: _yr_scanner_clean_matches, notebook destroyed *)
                 (RsDone (finish m fsz vals), rs_init, it3)
             end
    end.

  (* the caller's loop: call again while ERROR_BLOCK_NOT_READY; result, number of calls, final state *)
  Fixpoint rs_drive (blocks : list rs_block) (fsz : option N) (fuel : nat) (st : rs_state) (it : rs_iter)
    : option (R * nat * rs_state * rs_iter) :=
    match fuel with
    | O => None
    | S fu =>
        match rs_scan_call blocks fsz st it with
        | (RsNotReady, st', it') =>
            match rs_drive blocks fsz fu st' it' with
            | Some (r, c, st'', it'') => Some (r, S c, st'', it'')
            | None => None
            end
        | (RsDone r, st', it') => Some (r, 1, st', it')
        | (RsFuel, _, _) => None
        end
    end.

  (* interrupted run: pattern [pat], the call repeated until it completes *)
  Definition rs_run (blocks : list rs_block) (fsz : option N) (pat : list bool) :=
    rs_drive blocks fsz (S (length pat)) rs_init (rs_iter_init pat).

  (* ---- entry points (rules.c / scanner.c wrappers; filemap.c maps an empty file to data = NULL, size 0) *)
  Definition rs_mem_block (buf : list N) : rs_block := mk_rs_block 0 (N.of_nat (length buf)) (Some buf).
  Definition rs_map_block (buf : list N) : rs_block :=
    match buf with [] => mk_rs_block 0 0 None | _ => rs_mem_block buf end.
  Definition rs_fsz (buf : list N) : option N := Some (N.of_nat (length buf)).

  Definition rs_one (st : rs_state) (b : rs_block) (fsz : option N) : option R :=
    match rs_scan_call [b] fsz st (rs_iter_init []) with
    | (RsDone r, _, _) => Some r
    | _ => None
    end.
  Definition rs_scanner_scan_mem (st : rs_state) buf := rs_one st (rs_mem_block buf) (rs_fsz buf).
  Definition rs_scanner_scan_file (st : rs_state) buf := rs_one st (rs_map_block buf) (rs_fsz buf).
  Definition rs_scanner_scan_fd (st : rs_state) buf := rs_one st (rs_map_block buf) (rs_fsz buf).
  Definition rs_rules_scan_mem buf := rs_scanner_scan_mem rs_init buf.        (* scanner created per call *)
  Definition rs_rules_scan_file buf := rs_scanner_scan_file rs_init buf.
  Definition rs_rules_scan_fd buf := rs_scanner_scan_fd rs_init buf.
  (* a caller-supplied iterator over the one block, with a file_size function *)
  Definition rs_single_block_iter (st : rs_state) buf :=
    match rs_drive [rs_mem_block buf] (rs_fsz buf) 1 st (rs_iter_init []) with
    | Some (r, _, _, _) => Some r
    | None => None
    end.
End Machine.

(* which answers of a pattern are allowed by the contract (capi.rst: "once the iterator completes a full
   iteration, any subsequent iteration should proceed without returning ERROR_BLOCK_NOT_READY"): the first
   full iteration takes (number of blocks + 1) ready answers; everything after that must be ready *)
Fixpoint rs_after_ready (k : nat) (pat : list bool) {struct pat} : list bool :=
  match pat with
  | [] => []
  | true :: p => match k with O => pat | _ => rs_after_ready k p end
  | false :: p => match k with O => pat | S k' => rs_after_ready k' p end
  end.
Definition rs_conforming (nblocks : nat) (pat : list bool) : bool :=
  forallb negb (rs_after_ready (S nblocks) pat).

(* ------------------------------------------------------------------------------------------------------
   Concrete instance for the extracted runner (checks/c13.py): literal strings, one-atom conditions. *)
Inductive rc_atom :=
| RcTrue | RcFalse
| RcStr (s : nat)                 (* $s *)
| RcCount (s : nat) (n : N)       (* #s == n *)
| RcFsz (n : N)                   (* filesize == n *)
| RcU8 (off v : N)                (* uint8(off) == v *)
| RcEpEq (n : N)                  (* entrypoint == n *)
| RcAtEp (s : nat).               (* $s at entrypoint *)

Record rc_rule := mk_rc_rule { rc_ns : nat; rc_global : bool; rc_private : bool; rc_atom_of : rc_atom }.

Fixpoint rc_prefix (p d : list N) : bool :=
  match p, d with
  | [], _ => true
  | x :: p', y :: d' => if N.eqb x y then rc_prefix p' d' else false
  | _ :: _, [] => false
  end.

(* String modifiers are encoded in the pattern itself as leading elements that cannot be bytes:
   256 = fullword, 257 = nocase, 258 = wide (each byte followed by 0); the rest is the text. *)
Record rc_mods := mk_rc_mods { rm_fullword : bool; rm_nocase : bool; rm_wide : bool }.

Fixpoint rc_split_mods (p : list N) (m : rc_mods) : rc_mods * list N :=
  match p with
  | x :: r =>
      if N.eqb x 256 then rc_split_mods r (mk_rc_mods true (rm_nocase m) (rm_wide m))
      else if N.eqb x 257 then rc_split_mods r (mk_rc_mods (rm_fullword m) true (rm_wide m))
      else if N.eqb x 258 then rc_split_mods r (mk_rc_mods (rm_fullword m) (rm_nocase m) true)
      else (m, p)
  | [] => (m, p)
  end.

Definition rc_lower (x : N) : N := if (if N.leb 65 x then N.leb x 90 else false) then x + 32 else x.
Definition rc_alnum (x : N) : bool :=
  if (if N.leb 48 x then N.leb x 57 else false) then true
  else if (if N.leb 65 x then N.leb x 90 else false) then true
  else (if N.leb 97 x then N.leb x 122 else false).

Fixpoint rc_widen (p : list N) : list N := match p with [] => [] | x :: r => x :: 0%N :: rc_widen r end.

Fixpoint rc_prefix_m (nocase : bool) (p d : list N) : bool :=
  match p, d with
  | [], _ => true
  | x :: p', y :: d' =>
      if (if nocase then N.eqb (rc_lower x) (rc_lower y) else N.eqb x y) then rc_prefix_m nocase p' d' else false
  | _ :: _, [] => false
  end.

Definition rc_is (o : option N) (f : N -> bool) : bool := match o with Some x => f x | None => false end.

(* scan.c _yr_scan_match_callback, "if (callback_args->full_word)": a candidate at [d] (the data from the match
   on; [prev1], [prev2] the one and two bytes before it, None = before the start of the block) of length [len] is
   dropped when the neighbouring byte INSIDE the block is alphanumeric (wide: alphanumeric followed by 0);
   nothing outside the block is looked at *)
Definition rc_fullword_ok (wide : bool) (prev2 prev1 : option N) (d : list N) (len : nat) : bool :=
  if wide
  then negb (if rc_is prev1 (N.eqb 0) then rc_is prev2 rc_alnum else false) &&
       negb (if rc_is (nth_error d (S len)) (N.eqb 0) then rc_is (nth_error d len) rc_alnum else false)
  else negb (rc_is prev1 rc_alnum) && negb (rc_is (nth_error d len) rc_alnum).

Fixpoint rc_occ_go (m : rc_mods) (pb : list N) (prev2 prev1 : option N) (d : list N) (pos : N) : list N :=
  match d with
  | [] => []
  | y :: d' =>
      (if (match pb with [] => false | _ => rc_prefix_m (rm_nocase m) pb d end)
       then (if (if rm_fullword m then rc_fullword_ok (rm_wide m) prev2 prev1 d (length pb) else true) then [pos] else [])
       else []) ++ rc_occ_go m pb prev1 (Some y) d' (N.succ pos)
  end.

(* offsets (base + position) of the occurrences of p in d, ascending *)
Definition rc_occ (p d : list N) (pos : N) : list N :=
  let sp := rc_split_mods p (mk_rc_mods false false false) in
  let pb := if rm_wide (fst sp) then rc_widen (snd sp) else snd sp in
  rc_occ_go (fst sp) pb None None d pos.

(* _yr_scan_add_match_to_list: kept sorted by offset, an offset already present is not added again *)
Fixpoint rc_insert (x : N) (l : list N) : list N :=
  match l with
  | [] => [x]
  | y :: l' => if N.eqb x y then l else if N.ltb x y then x :: l else y :: rc_insert x l'
  end.

Definition rc_scan (pats : list (list N)) (m : list (list N)) (b : rs_block) (d : list N) : list (list N) :=
  map (fun pm => fold_left (fun acc x => rc_insert x acc) (rc_occ (fst pm) d (rb_base b)) (snd pm))
      (combine pats m).

(* the accumulator of the concrete instance: matches per string, and scanner->entry_point *)
Record rc_acc := mk_rc_acc { ra_matches : list (list N); ra_entry : option N }.
Definition rc_empty (pats : list (list N)) : rc_acc := mk_rc_acc (map (fun _ => []) pats) None.

(* yr_get_entry_point_offset(data, block->size) is an oracle: [eps] maps the base of a block to the offset the
   function returns for that block's data (checks/c13.py builds the ELF/PE headers and knows it); no entry =
   YR_UNDEFINED.  An empty buffer is never an executable. *)
Fixpoint rc_ep (eps : list (N * N)) (base : N) : option N :=
  match eps with
  | [] => None
  | (b, e) :: r => if N.eqb b base then Some e else rc_ep r base
  end.

(* one block: "if (scanner->entry_point == YR_UNDEFINED) scanner->entry_point = ...;" then the block is scanned *)
Definition rc_scan_acc (pats : list (list N)) (eps : list (N * N)) (a : rc_acc) (b : rs_block) (d : list N) : rc_acc :=
  mk_rc_acc (rc_scan pats (ra_matches a) b d)
            (match ra_entry a with
             | Some e => Some e
             | None => match d with [] => None | _ => rc_ep eps (rb_base b) end
             end).

Definition rc_reads (rules : list rc_rule) : list N :=
  flat_map (fun r => match rc_atom_of r with RcU8 off _ => [off] | _ => [] end) rules.

(* evaluate the atoms in rule order; each RcU8 consumes the next read value; an undefined entry point makes
   both entrypoint atoms false *)
Fixpoint rc_conds (rules : list rc_rule) (m : list (list N)) (ep : option N) (fsz : option N) (vals : list (option N)) : list bool :=
  match rules with
  | [] => []
  | r :: rs =>
      match rc_atom_of r with
      | RcTrue => true :: rc_conds rs m ep fsz vals
      | RcFalse => false :: rc_conds rs m ep fsz vals
      | RcStr s => negb (Nat.eqb (length (nth s m [])) 0) :: rc_conds rs m ep fsz vals
      | RcCount s n => N.eqb (N.of_nat (length (nth s m []))) n :: rc_conds rs m ep fsz vals
      | RcFsz n => (match fsz with Some z => N.eqb z n | None => false end) :: rc_conds rs m ep fsz vals
      | RcU8 _ v => (match vals with Some x :: _ => N.eqb x v | _ => false end) :: rc_conds rs m ep fsz (tl vals)
      | RcEpEq n => (match ep with Some e => N.eqb e n | None => false end) :: rc_conds rs m ep fsz vals
      | RcAtEp s => (match ep with Some e => existsb (N.eqb e) (nth s m []) | None => false end) :: rc_conds rs m ep fsz vals
      end
  end.

Definition rc_finish (rules : list rc_rule) (imports : list nat) (f : Z) (sc : rp_script)
                     (a : rc_acc) (fsz : option N) (vals : list (option N))
  : list rp_msg * Z * list (list N) * option N :=
  let conds := rc_conds rules (ra_matches a) (ra_entry a) fsz vals in
  let rr := map (fun rc => mk_rp_rule (rc_ns (fst rc)) (rc_global (fst rc)) (rc_private (fst rc)) false (snd rc))
                (combine rules conds) in
  (rp_scan imports rr f sc, ra_matches a, ra_entry a).

(* the interrupted run, every call listed: (rc-or-result, calls made in that call) *)
Definition rc_run (discard : bool) (pats : list (list N)) (eps : list (N * N)) (rules : list rc_rule) (imports : list nat)
                  (f : Z) (sc : rp_script) (blocks : list rs_block) (fsz : option N) (pat : list bool) :=
  rs_run discard rc_acc (rc_empty pats) (rc_scan_acc pats eps) _ (rc_reads rules)
         (rc_finish rules imports f sc) blocks fsz pat.

(* one call, from a given state and iterator (the check drives the calls itself to compare call by call) *)
Definition rc_call (discard : bool) (pats : list (list N)) (eps : list (N * N)) (rules : list rc_rule) (imports : list nat)
                   (f : Z) (sc : rp_script) (blocks : list rs_block) (fsz : option N) st it :=
  rs_scan_call discard rc_acc (rc_empty pats) (rc_scan_acc pats eps) _ (rc_reads rules)
               (rc_finish rules imports f sc) blocks fsz st it.

(* the entry point a scan ends with: that of the first block (with data) that has one *)
Fixpoint rc_first_ep (eps : list (N * N)) (blocks : list rs_block) : option N :=
  match blocks with
  | [] => None
  | b :: r => match (match rb_data b with Some (_ :: _) => rc_ep eps (rb_base b) | _ => None end) with
              | Some e => Some e
              | None => rc_first_ep eps r
              end
  end.
