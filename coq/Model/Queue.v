(* C18: small-step semantics of the file queue of cli/yara.c.

   One producer (main(): file_queue_put once per file found by scan_dir / populate_scan_list, then
   file_queue_finish), N consumers (scanning_thread(): p = get(); while (p != NULL) { scan p; p = get(); }).
   A step executes ONE op (QueueOps.qop = one C statement touching shared state) of ONE thread; a
   blocked op (QWait on a zero semaphore, QLock of a held mutex) has no step.  All interleavings are
   the paths of [qstep_thread]; nothing else (scanning, output, directory walking) touches the shared
   state of the queue, so those actions are not steps of this system.

   Deadlines: cli_semaphore_wait also returns when the --timeout deadline passes; the model covers
   runs in which the deadline is not reached (default 1,000,000 s).

   Executable: extracted and replayed against op traces of the real cli/yara.c (checks/c18.py). *)
From Coq Require Import List Arith Bool.
From YV Require Import Model.QueueOps.
Import ListNotations.

Fixpoint qupd {A} (i : nat) (x : A) (l : list A) : list A :=
  match l with
  | [] => []
  | y :: t => match i with 0 => x :: t | S j => y :: qupd j x t end
  end.

(* state shared between the threads *)
Record qshared := mkQSh {
  q_used : nat;                   (* value of the semaphore initialised to 0 *)
  q_unused : nat;                 (* value of the semaphore initialised to the capacity *)
  q_mtx : option nat;             (* owner of the queue mutex: thread id (0 = producer, S i = consumer i) *)
  q_head : nat;
  q_tail : nat;
  q_ring : list (option nat)      (* file_queue[].path ; None = NULL ; files are numbers *)
}.

(* producer: in file_queue_put for files[idx] at op number pc, or in file_queue_finish with
   [left] releases to go ([QFin 0]: returned from file_queue_finish) *)
Inductive qpstate := QPut (pc idx : nat) | QFin (left : nat).

(* consumer: op number in file_queue_get, its local [result], the files it has been handed so
   far (each is scanned before the next get), and whether its loop has ended *)
Record qcstate := mkQC { qc_pc : nat; qc_res : option nat; qc_got : list nat; qc_done : bool }.

Record qstate := mkQS { q_sh : qshared; q_prod : qpstate; q_cons : list qcstate }.

Definition qgetsem (s : qsem) (h : qshared) : nat := match s with QUsed => q_used h | QUnused => q_unused h end.
Definition qsetsem (s : qsem) (v : nat) (h : qshared) : qshared :=
  match s with
  | QUsed => mkQSh v (q_unused h) (q_mtx h) (q_head h) (q_tail h) (q_ring h)
  | QUnused => mkQSh (q_used h) v (q_mtx h) (q_head h) (q_tail h) (q_ring h)
  end.
Definition qgetvar (v : qvar) (h : qshared) : nat := match v with QHead => q_head h | QTail => q_tail h end.
Definition qsetvar (v : qvar) (x : nat) (h : qshared) : qshared :=
  match v with
  | QHead => mkQSh (q_used h) (q_unused h) (q_mtx h) x (q_tail h) (q_ring h)
  | QTail => mkQSh (q_used h) (q_unused h) (q_mtx h) (q_head h) x (q_ring h)
  end.
Definition qsetmtx (m : option nat) (h : qshared) : qshared := mkQSh (q_used h) (q_unused h) m (q_head h) (q_tail h) (q_ring h).
Definition qsetring (r : list (option nat)) (h : qshared) : qshared := mkQSh (q_used h) (q_unused h) (q_mtx h) (q_head h) (q_tail h) r.

(* one op of thread [t]; [arg] = the file being put, [res] = the local `result`.
   Returns the new shared state, the new `result` and how many following ops are skipped. *)
Definition qexec (t : nat) (o : qop) (arg res : option nat) (h : qshared) : option (qshared * option nat * nat) :=
  match o with
  | QWait s => match qgetsem s h with S k => Some (qsetsem s k h, res, 0) | 0 => None end
  | QRelease s => Some (qsetsem s (S (qgetsem s h)) h, res, 0)
  | QLock => match q_mtx h with None => Some (qsetmtx (Some t) h, res, 0) | Some _ => None end
  | QUnlock => Some (qsetmtx None h, res, 0)
  | QStore v => Some (qsetring (qupd (qgetvar v h) arg (q_ring h)) h, res, 0)
  | QLoad v => Some (h, nth (qgetvar v h) (q_ring h) None, 0)
  | QInc v m => Some (qsetvar v ((qgetvar v h + 1) mod m) h, res, 0)
  | QIfEqElse a b n => if qgetvar a h =? qgetvar b h then Some (h, None, n) else Some (h, res, 0)
  end.

Section Q.
Variable cfg : qconfig.
Variable files : list nat.     (* the files the producer finds, in the order it finds them *)

(* end of file_queue_put: next file, or file_queue_finish *)
Definition qpnorm (pc idx : nat) : qpstate :=
  if pc <? length (qc_put cfg) then QPut pc idx
  else if S idx <? length files then QPut 0 (S idx) else QFin (qc_fin_n cfg).

(* end of file_queue_get: a file -> scan it and call get again; NULL -> the thread ends *)
Definition qcnorm (pc : nat) (res : option nat) (got : list nat) : qcstate :=
  if pc <? length (qc_get cfg) then mkQC pc res got false
  else match res with
       | Some f => mkQC 0 None (got ++ [f]) false
       | None => mkQC 0 None got true
       end.

Definition qinit (n : nat) : qstate :=
  mkQS (mkQSh (qc_used0 cfg) (qc_unused0 cfg) None (qc_head0 cfg) (qc_tail0 cfg) (repeat None (qc_slots cfg)))
      (match files with [] => QFin (qc_fin_n cfg) | _ => QPut 0 0 end)
      (repeat (mkQC 0 None [] false) n).

Definition qstep_prod (s : qstate) : option qstate :=
  match q_prod s with
  | QPut pc idx =>
      match nth_error (qc_put cfg) pc with
      | Some o =>
          match qexec 0 o (nth_error files idx) None (q_sh s) with
          | Some (h, _, skip) => Some (mkQS h (qpnorm (pc + 1 + skip) idx) (q_cons s))
          | None => None
          end
      | None => None
      end
  | QFin (S n) =>
      match qexec 0 (QRelease (qc_fin_sem cfg)) None None (q_sh s) with
      | Some (h, _, _) => Some (mkQS h (QFin n) (q_cons s))
      | None => None
      end
  | QFin 0 => None
  end.

Definition qstep_cons (i : nat) (s : qstate) : option qstate :=
  match nth_error (q_cons s) i with
  | Some c =>
      if qc_done c then None else
      match nth_error (qc_get cfg) (qc_pc c) with
      | Some o =>
          match qexec (S i) o None (qc_res c) (q_sh s) with
          | Some (h, r, skip) => Some (mkQS h (q_prod s) (qupd i (qcnorm (qc_pc c + 1 + skip) r (qc_got c)) (q_cons s)))
          | None => None
          end
      | None => None
      end
  | None => None
  end.

(* thread 0 is the producer, thread S i is consumer i *)
Definition qstep_thread (t : nat) (s : qstate) : option qstate :=
  match t with 0 => qstep_prod s | S i => qstep_cons i s end.

Definition qenabled_thread (t : nat) (s : qstate) : bool :=
  match qstep_thread t s with Some _ => true | None => false end.

Definition qterminal (s : qstate) : bool :=
  match q_prod s with QFin 0 => forallb qc_done (q_cons s) | _ => false end.

(* everything handed to the consumers, consumer by consumer *)
Definition qdelivered (s : qstate) : list nat := flat_map qc_got (q_cons s).

(* run a schedule (list of thread ids); a step that is not enabled is skipped *)
Fixpoint qrun (sched : list nat) (s : qstate) : qstate :=
  match sched with
  | [] => s
  | t :: r => match qstep_thread t s with Some s' => qrun r s' | None => qrun r s end
  end.

(* all threads that can take a step *)
Definition qenabled_threads (s : qstate) : list nat :=
  filter (fun t => qenabled_thread t s) (seq 0 (S (length (q_cons s)))).

(* a fair deterministic scheduler used for examples: repeatedly qsweep over all threads *)
Fixpoint qsweep (fuel : nat) (s : qstate) : qstate :=
  match fuel with
  | 0 => s
  | S k => if qterminal s then s else qsweep k (qrun (seq 0 (S (length (q_cons s)))) s)
  end.

End Q.

(* ---- replay support for the correspondence check (extracted) ---- *)

(* kind of the next op of a thread, as the scheduler shim of the harness names it:
   0 = none (finished), 1 = QWait QUsed, 2 = QWait QUnused, 3 = QRelease QUsed, 4 = QRelease QUnused,
   5 = QLock, 6 = QUnlock, 7 = a non-synchronising op (QStore/QLoad/QInc/QIfEqElse) *)
Definition qop_code (o : qop) : nat :=
  match o with
  | QWait QUsed => 1 | QWait QUnused => 2 | QRelease QUsed => 3 | QRelease QUnused => 4
  | QLock => 5 | QUnlock => 6 | _ => 7
  end.

Definition qnext_op (cfg : qconfig) (t : nat) (s : qstate) : option qop :=
  match t with
  | 0 => match q_prod s with
         | QPut pc _ => nth_error (qc_put cfg) pc
         | QFin (S _) => Some (QRelease (qc_fin_sem cfg))
         | QFin 0 => None
         end
  | S i => match nth_error (q_cons s) i with
           | Some c => if qc_done c then None else nth_error (qc_get cfg) (qc_pc c)
           | None => None
           end
  end.

Definition qnext_code (cfg : qconfig) (t : nat) (s : qstate) : nat :=
  match qnext_op cfg t s with Some o => qop_code o | None => 0 end.

(* execute the non-synchronising ops of thread t up to its next synchronising op: between two
   calls into cli/threading.c the real thread runs without the shim seeing it *)
Fixpoint qsilent (cfg : qconfig) (files : list nat) (fuel t : nat) (s : qstate) : qstate :=
  match fuel with
  | 0 => s
  | S k => if qnext_code cfg t s =? 7
           then match qstep_thread cfg files t s with Some s' => qsilent cfg files k t s' | None => s end
           else s
  end.
