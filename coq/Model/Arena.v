(* Model of the compiled-rules file codec: yr_arena_save_stream / yr_arena_load_stream
   (libyara/arena.c) followed by yr_rules_from_arena (libyara/rules.c).
   Definitions only; proofs are in Proofs/ArenaProofs.v.

   An [arena] is the address-free content of a YR_ARENA: the used bytes of every buffer with each
   relocatable 8-byte slot holding a YR_ARENA_REF (buffer id, offset; all ones = NULL) instead of a
   pointer, and the relocation list in list order.  That is exactly the form the saver writes. *)
From Coq Require Import List NArith ZArith Lia Bool.
From YV Require Import Base.Bytes gen.GenConsts.
Import ListNotations.
Local Open Scope N_scope.

Inductive lerr := EInvalidFile | EUnsupportedVersion | ECorruptFile | ENoMemory.
(* behaviours of the C code that are not a return value *)
Inductive lbad :=
| BadAssert   (* an assert() fires: the process aborts *)
| BadOOB      (* a read or write outside the used part of a buffer *)
| BadAddrDep. (* the result depends on process addresses (a slot relocated twice) *)

Inductive lres (A : Type) :=
| LOk (a : A) | LErr (e : lerr) | LBad (b : lbad).
Arguments LOk {A}. Arguments LErr {A}. Arguments LBad {A}.

Definition lbind {A B} (r : lres A) (f : A -> lres B) : lres B :=
  match r with LOk a => f a | LErr e => LErr e | LBad b => LBad b end.
Notation "'do' x <- r ; k" := (lbind r (fun x => k)) (at level 200, x pattern, r at level 100, k at level 200).

Record arena := { bufs : list bytes; relocs : list (N * N) }.

(* constants regenerated from the sources on every run *)
Definition file_version : N := Z.to_N YR_ARENA_FILE_VERSION.
Definition max_buffers : N := Z.to_N YR_MAX_ARENA_BUFFERS.
Definition num_sections : N := Z.to_N YR_NUM_SECTIONS.
Definition summary_section : nat := Z.to_nat YR_SUMMARY_SECTION.
Definition rules_table : nat := Z.to_nat YR_RULES_TABLE.
Definition hdr_size : nat := Z.to_nat sizeof_YR_ARENA_FILE_HEADER.      (* 6 *)
Definition ent_size : nat := Z.to_nat sizeof_YR_ARENA_FILE_BUFFER.      (* 12 *)
Definition ref_size : nat := Z.to_nat sizeof_YR_ARENA_REF.              (* 8 *)
Definition rule_size : N := Z.to_N sizeof_YR_RULE.
Definition summary_size : N := Z.to_N sizeof_YR_SUMMARY.

(* Which defensive checks the loader/saver performs.  [cfg_pinned] is the code as it was at the
   pinned commit, [cfg_current] the code after the "fix:" commits (see known_findings.json);
   the correspondence check (checks/c17) ties [cfg_current] to /repo on every run. *)
Record cfg := {
  reloc_terminated : bool;       (* the relocation list ends with a NULL-ref terminator entry *)
  reloc_checks_small : bool;     (* buffers shorter than a pointer are rejected as relocation targets *)
  reloc_validates_target : bool; (* the reference stored in a relocated slot is validated *)
  table_checks_offsets : bool;   (* the offset column of the buffer table is validated *)
  rules_checks_sections : bool   (* yr_rules_from_arena validates section count and sizes *)
}.
Definition cfg_pinned := {| reloc_terminated := false; reloc_checks_small := false;
  reloc_validates_target := false; table_checks_offsets := false; rules_checks_sections := false |}.

Definition cfg_current := {| reloc_terminated := true; reloc_checks_small := true;
  reloc_validates_target := true; table_checks_offsets := true; rules_checks_sections := true |}.

Section WithCfg.
Variable c : cfg.

Definition magic : bytes := [89; 65; 82; 65].   (* "YARA" *)
Definition null32 : N := 4294967295.

(* ---------- stream reads: yr_stream_read(ptr, size, 1, s) == 1 iff size bytes are left *)
Definition take (n : nat) (s : bytes) : option (bytes * bytes) :=
  if (n <=? length s)%nat then Some (firstn n s, skipn n s) else None.

Definition dec_ref (b : bytes) : N * N := (le_dec (firstn 4 b), le_dec (firstn 4 (skipn 4 b))).
Definition enc_ref (r : N * N) : bytes := le_enc 4 (fst r) ++ le_enc 4 (snd r).
Definition is_null_ref (r : N * N) : bool := (fst r =? null32) && (snd r =? null32).

(* ---------- saver *)
Fixpoint table_from (off : N) (bs : list bytes) : bytes :=
  match bs with
  | [] => []
  | b :: r => le_enc 8 off ++ le_enc 4 (nlen b) ++ table_from (off + nlen b) r
  end.

Definition header (nb : N) : bytes := magic ++ [file_version; nb].

Definition terminator : bytes := if (reloc_terminated c) then enc_ref (null32, null32) else [].

Definition save (a : arena) : bytes :=
  header (nlen (bufs a))
  ++ table_from (N.of_nat hdr_size + N.of_nat ent_size * nlen (bufs a)) (bufs a)
  ++ concat (bufs a)
  ++ concat (map enc_ref (relocs a))
  ++ terminator.

(* ---------- loader *)
Fixpoint read_sizes (k : nat) (s : bytes) : list N :=
  match k with
  | O => []
  | S k' => le_dec (firstn 4 (skipn 8 s)) :: read_sizes k' (skipn ent_size s)
  end.

Fixpoint read_offsets (k : nat) (s : bytes) : list N :=
  match k with
  | O => []
  | S k' => le_dec (firstn 8 s) :: read_offsets k' (skipn ent_size s)
  end.

(* _yr_arena_allocate_memory on an empty buffer of a loaded arena: the capacity starts at 10485
   and doubles until the request fits; a capacity above 4 GiB is ERROR_INSUFFICIENT_MEMORY.
   The largest capacity that is allowed is 10485 * 2^18. *)
Definition max_loadable_buffer : N := 10485 * 262144.

Fixpoint read_bodies (sizes : list N) (s : bytes) : lres (list bytes * bytes) :=
  match sizes with
  | [] => LOk ([], s)
  | sz :: r =>
      if sz =? 0 then
        do x <- read_bodies r s; LOk ([] :: fst x, snd x)
      else if max_loadable_buffer <? sz then LErr ENoMemory
      else
        match (if nlen s <? sz then None else take (N.to_nat sz) s) with
        | None => LErr ECorruptFile
        | Some (b, s1) =>
            do x <- read_bodies r s1; LOk (b :: fst x, snd x)
        end
  end.

Definition buf_len (bs : list bytes) (i : N) : N := nlen (nth (N.to_nat i) bs []).

Definition overlaps (r : N * N) (d : N * N) : bool :=
  (fst r =? fst d) && (snd r <? snd d + 8) && (snd d <? snd r + 8).

(* a non-null reference designates a byte inside the used part of some buffer
   (written with [if] so that call-by-value evaluation never converts a huge id to unary) *)
Definition ref_in_arena (bs : list bytes) (r : N * N) : bool :=
  if fst r <? nlen bs then snd r <? buf_len bs (fst r) else false.

(* one iteration of the relocation loop of yr_arena_load_stream (arena.c), given the entry read *)
Definition reloc_step (bs : list bytes) (done : list (N * N)) (e : N * N) : lres unit :=
  let nb := nlen bs in
  let '(bid, off) := e in
  if nb <=? bid then LErr ECorruptFile
  else
    let used := buf_len bs bid in
    if (used =? 0) then LErr ECorruptFile                       (* b->data == NULL *)
    else if (8 <=? used) && (used - 8 <? off) then LErr ECorruptFile
    else if (used <? 8) then
      (if (reloc_checks_small c) then LErr ECorruptFile else LBad BadOOB)  (* used - 8 wraps around in size_t *)
    else if existsb (overlaps e) done then LBad BadAddrDep
    else
      let r := dec_ref (slice (nth (N.to_nat bid) bs []) (N.to_nat off) 8) in
      if is_null_ref r then LOk tt
      else if (reloc_validates_target c) then
        (if ref_in_arena bs r then LOk tt else LErr ECorruptFile)
      else if nb <=? fst r then LBad BadAssert                  (* yr_arena_get_ptr: assert(buffer_id < num_buffers) *)
      else if buf_len bs (fst r) <? snd r then LBad BadAssert   (* assert(offset <= used) *)
      else LOk tt.

Fixpoint reloc_loop (fuel : nat) (bs : list bytes) (done : list (N * N)) (s : bytes)
  : lres (list (N * N)) :=
  match fuel with
  | O => LOk done
  | S fuel' =>
      match take ref_size s with
      | None => if (reloc_terminated c) then LErr ECorruptFile else LOk done   (* short read ends the loop *)
      | Some (e, s') =>
          let r := dec_ref e in
          if (reloc_terminated c) && is_null_ref r then LOk done
          else
            do _ <- reloc_step bs done r;
            reloc_loop fuel' bs (done ++ [r]) s'
      end
  end.

Fixpoint offsets_consistent (off : N) (offs sizes : list N) : bool :=
  match offs, sizes with
  | o :: ro, s :: rs => (o =? off) && offsets_consistent (off + s) ro rs
  | _, _ => true
  end.

Definition arena_load (s : bytes) : lres arena :=
  match take hdr_size s with
  | None => LErr EInvalidFile
  | Some (h, s1) =>
      if negb (bytes_eqb (firstn 4 h) magic) then LErr EInvalidFile
      else if negb (nth 4 h 0 =? file_version) then LErr EUnsupportedVersion
      else
        let nb := nth 5 h 0 in
        if max_buffers <? nb then LErr EInvalidFile
        else
          match take (N.to_nat nb * ent_size) s1 with
          | None => LErr ECorruptFile
          | Some (t, s2) =>
              let sizes := read_sizes (N.to_nat nb) t in
              if (table_checks_offsets c) &&
                 negb (offsets_consistent (N.of_nat hdr_size + N.of_nat ent_size * nb)
                         (read_offsets (N.to_nat nb) t) sizes)
              then LErr ECorruptFile
              else
              do x <- read_bodies sizes s2;
              let '(bs, s3) := x in
              do rl <- reloc_loop (S (length s3)) bs [] s3;
              LOk {| bufs := bs; relocs := rl |}
          end
  end.

(* yr_rules_load_stream's validation followed by yr_rules_from_arena (rules.c): what is read
   from the loaded arena before a YR_RULES is handed out *)
Definition rules_from_arena (a : arena) : lres arena :=
  let nb := nlen (bufs a) in
  let sum := nth summary_section (bufs a) [] in
  let num_rules := le_dec (firstn 4 sum) in
  let rules_len := nlen (nth rules_table (bufs a) []) in
  if (rules_checks_sections c) then
    if negb (nb =? num_sections) then LErr ECorruptFile
    else if negb (nlen sum =? summary_size) then LErr ECorruptFile
    else if rules_len / rule_size <? num_rules then LErr ECorruptFile
    else LOk a
  else
    if nb <=? N.of_nat summary_section then LBad BadAssert
    else if nlen sum =? 0 then LErr ECorruptFile
    else if nlen sum <? summary_size then LBad BadOOB
    else if rules_len <? num_rules * rule_size then LBad BadOOB
    else LOk a.

Definition rules_load (s : bytes) : lres arena :=
  do a <- arena_load s; rules_from_arena a.

End WithCfg.

(* ---------- well-formedness of an arena produced by the compiler (decidable; checked on
   every image the real compiler produces, see checks/c08) *)
Definition reloc_ok (bs : list bytes) (e : N * N) : bool :=
  let '(bid, off) := e in
  (bid <? nlen bs) && (off + 8 <=? buf_len bs bid) &&
  let r := dec_ref (slice (nth (N.to_nat bid) bs []) (N.to_nat off) 8) in
  if is_null_ref r then true else ref_in_arena bs r.

Fixpoint no_overlap (l : list (N * N)) : bool :=
  match l with
  | [] => true
  | e :: r => negb (existsb (overlaps e) r) && no_overlap r
  end.

Definition wf_arena (a : arena) : bool :=
  (nlen (bufs a) =? num_sections) &&
  forallb (fun b => all_bytes b && (nlen b <=? max_loadable_buffer)) (bufs a) &&
  forallb (reloc_ok (bufs a)) (relocs a) &&
  no_overlap (relocs a) &&
  (nlen (nth summary_section (bufs a) []) =? summary_size) &&
  (le_dec (firstn 4 (nth summary_section (bufs a) [])) <=? nlen (nth rules_table (bufs a) []) / rule_size).
