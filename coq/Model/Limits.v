(* C15: one decision function per engine limit, mirroring the C test that enforces it.
   Operators, operands and structural facts come from gen/GenLimits.v (cut out of the source text on
   every run by lib/genlimits.py), the values of the macros from gen/GenConsts.v.
   Executable definitions only (extracted into the model runner); proofs are in Proofs/LimitsProofs.v.
   All quantities are Z / N: never convert a limit to nat. *)
From Coq Require Import ZArith NArith List Bool.
From YV Require Import Base.Cmp gen.GenConsts gen.GenLimits.
Import ListNotations.
Local Open Scope Z_scope.

(* ---------------------------------------------------------------- counters
   Most limits are a counter that is tested and then incremented once per item (match, split id,
   fiber, nested loop, include file) or incremented and then tested (strings of a rule).
   [rej c] is the C test evaluated when the counter holds c; [lim_feed rej n init] presents n items. *)
Definition lim_step (rej : Z -> bool) (st : option Z) : option Z :=
  match st with
  | None => None
  | Some c => if rej c then None else Some (c + 1)
  end.

Definition lim_feed (rej : Z -> bool) (n : N) (init : Z) : option Z := N.iter n (lim_step rej) (Some init).

Definition lim_accepted (r : option Z) : bool := match r with Some _ => true | None => false end.

(* the value the C test sees: the counter itself when the test precedes the increment *)
Definition lim_seen (test_first : bool) (c : Z) : Z := if test_first then c else c + 1.

(* ---------------------------------------------------------------- matches per string (scan.c)
   _yr_scan_add_match_to_list: if (matches_list->count OP YR_MAX_STRING_MATCHES) -> ERROR_TOO_MANY_MATCHES *)
Definition match_add_rejects (count : Z) : bool :=
  cmp_eval match_cap_op (lim_seen match_cap_test_first count) match_cap_limit.

Definition accepts_matches (n : N) : bool := lim_accepted (lim_feed match_add_rejects n 0).

(* the list itself: ascending offsets, an offset already present is not inserted again (the C code
   walks from the tail; the resulting list is the same) *)
Record mlist := { ml_offs : list Z; ml_count : Z }.

Fixpoint ins (x : Z) (l : list Z) : list Z * bool :=
  match l with
  | [] => ([x], true)
  | y :: t => if x =? y then (l, false)
              else if x <? y then (x :: l, true)
              else let (t', b) := ins x t in (y :: t', b)
  end.

Definition add_match (off : Z) (m : mlist) : option mlist :=
  if match_add_rejects (ml_count m) then None
  else let (l, b) := ins off (ml_offs m) in
       Some {| ml_offs := l; ml_count := if b then ml_count m + 1 else ml_count m |}.

(* yr_scan_verify_match for several strings: per string a match list and the "temporarily disabled"
   bit; the scan result code; the strings the TOO_MANY_MATCHES callback was called for *)
Record sstate := { ss_ml : mlist; ss_disabled : bool }.
Record ctx := { cx_str : nat -> sstate; cx_warn : list nat; cx_rc : Z }.

Definition ml0 : mlist := {| ml_offs := []; ml_count := 0 |}.
Definition ctx0 : ctx := {| cx_str := fun _ => {| ss_ml := ml0; ss_disabled := false |}; cx_warn := []; cx_rc := ERROR_SUCCESS |}.

Definition upd (f : nat -> sstate) (s : nat) (v : sstate) : nat -> sstate :=
  fun x => if Nat.eqb x s then v else f x.

(* [answer s] = the callback returns CALLBACK_CONTINUE when asked about string s *)
Definition verify (answer : nat -> bool) (c : ctx) (ev : nat * Z) : ctx :=
  if negb (cx_rc c =? ERROR_SUCCESS) then c
  else
    let (s, off) := ev in
    let st := cx_str c s in
    if disabled_string_skipped && ss_disabled st then c
    else match add_match off (ss_ml st) with
         | Some m' => {| cx_str := upd (cx_str c) s {| ss_ml := m'; ss_disabled := ss_disabled st |};
                         cx_warn := cx_warn c; cx_rc := cx_rc c |}
         | None =>
             if answer s
             then {| cx_str := upd (cx_str c) s {| ss_ml := ss_ml st; ss_disabled := too_many_continue_disables |};
                     cx_warn := s :: cx_warn c; cx_rc := too_many_continue_result |}
             else {| cx_str := cx_str c; cx_warn := s :: cx_warn c; cx_rc := too_many_other_result |}
         end.

Definition run (answer : nat -> bool) (evs : list (nat * Z)) : ctx := fold_left (verify answer) evs ctx0.
Definition matches_of (c : ctx) (s : nat) : list Z := ml_offs (ss_ml (cx_str c s)).

(* one string with a one-byte atom that matches at every position of an n-byte block, seen through
   _yr_scanner_scan_mem_block: iteration i (1 <= i < n) first evaluates the slow-scanning visit test
   on the count of the string with index [slow_counts_string_index] (here: this string), then
   verifies the match ending at i; the match ending at n is verified after the loop, where there is
   no visit test.  After the block: the slow-scanning warning test. *)
Record s1 := { c_count : Z; c_disabled : bool; c_many : Z; c_visited : bool; c_rc : Z }.
Definition s1_init : s1 := {| c_count := 0; c_disabled := false; c_many := 0; c_visited := false; c_rc := ERROR_SUCCESS |}.

Definition s1_verify (cont : bool) (st : s1) : s1 :=
  if negb (c_rc st =? ERROR_SUCCESS) then st
  else if disabled_string_skipped && c_disabled st then st
  else if match_add_rejects (c_count st)
       then if cont
            then {| c_count := c_count st; c_disabled := too_many_continue_disables; c_many := c_many st + 1;
                    c_visited := c_visited st; c_rc := too_many_continue_result |}
            else {| c_count := c_count st; c_disabled := c_disabled st; c_many := c_many st + 1;
                    c_visited := c_visited st; c_rc := too_many_other_result |}
       else {| c_count := c_count st + 1; c_disabled := c_disabled st; c_many := c_many st;
               c_visited := c_visited st; c_rc := c_rc st |}.

Definition slow_visit (count0 : Z) : bool := cmp_eval slow_visit_op count0 slow_limit.
Definition slow_final (visited : bool) (count0 : Z) : bool :=
  visited && cmp_eval slow_final_lo_op count0 slow_final_lo && cmp_eval slow_final_hi_op count0 slow_final_hi.

Definition s1_visit (cont : bool) (st : s1) : s1 :=
  if negb (c_rc st =? ERROR_SUCCESS) then st
  else
    let st' := if slow_visit (c_count st)
               then {| c_count := c_count st; c_disabled := c_disabled st; c_many := c_many st; c_visited := true; c_rc := c_rc st |}
               else st in
    s1_verify cont st'.

(* n >= 1 bytes, all matching.  Result: (count, number of TOO_MANY_MATCHES callbacks, slow warning?, rc) *)
Definition scan_all_match (cont : bool) (n : N) : Z * Z * bool * Z :=
  let st := s1_verify cont (N.iter (N.pred n) (s1_visit cont) s1_init) in
  (c_count st, c_many st,
   (c_rc st =? ERROR_SUCCESS) && slow_final (c_visited st) (c_count st), c_rc st).

(* which string's count the slow-scanning tests look at *)
Definition slow_observed (counts : nat -> Z) : Z := counts (Z.to_nat slow_counts_string_index).

(* ---------------------------------------------------------------- match data (scan.c)
   data_length = yr_min(match_length, (int32_t) max_match_data) *)
Definition to_int32 (x : Z) : Z := (x + 2147483648) mod 4294967296 - 2147483648.
Definition match_data_len (max_match_data len : Z) : Z :=
  Z.min len (if match_data_cast_int32 then to_int32 max_match_data else max_match_data).

(* ---------------------------------------------------------------- VM stack (exec.c)
   push(x): if (stack.sp OP stack.capacity) store; else ERROR_EXEC_STACK_OVERFLOW *)
Definition vm_push_stores (sp cap : Z) : bool := cmp_eval vm_push_op sp cap.
Definition accepts_vm_stack (cap : Z) (d : N) : bool :=
  lim_accepted (lim_feed (fun sp => negb (vm_push_stores sp cap)) d vm_sp_init).
(* iterators: if (stack->sp + k OP stack->capacity) return ERROR_EXEC_STACK_OVERFLOW; then k+1 pushes *)
Definition vm_iter_accepts (chk : Z * cmpop) (sp cap : Z) : bool := negb (cmp_eval (snd chk) (sp + fst chk) cap).

(* ---------------------------------------------------------------- regular expressions (re.c, re_lexer.l) *)
Definition split_rejects (id : Z) : bool := cmp_eval split_id_op (lim_seen split_id_test_first id) split_id_limit.
Definition accepts_splits (n : N) : bool := lim_accepted (lim_feed split_rejects n 0).
Definition fiber_rejects (count : Z) : bool := cmp_eval fiber_op (lim_seen fiber_test_first count) fiber_limit.
Definition accepts_fibers (n : N) : bool := lim_accepted (lim_feed fiber_rejects n 0).
Definition re_range_rejects (hi : Z) : bool := cmp_eval re_range_op hi re_range_limit.

(* ---------------------------------------------------------------- compiler (grammar.y, parser.c, compiler.c) *)
Definition loop_rejects (loop_index : Z) : bool := cmp_eval loop_nest_op (loop_index + loop_nest_add) loop_nest_limit.
Definition accepts_loops (d : N) : bool := lim_accepted (lim_feed loop_rejects d loop_index_init).
(* parser.c: strings_in_rule++ ; if (strings_in_rule OP max) error *)
Definition strings_rejects (max c : Z) : bool := cmp_eval strings_op (c + 1) max.
Definition accepts_strings (max : Z) (n : N) : bool := lim_accepted (lim_feed (strings_rejects max) n strings_count_init).
Definition include_rejects (ptr : Z) : bool := cmp_eval include_op (lim_seen include_test_first ptr) include_limit.
Definition accepts_includes (d : N) : bool := lim_accepted (lim_feed include_rejects d include_ptr_init).

(* ---------------------------------------------------------------- lexer (lexer.l) *)
(* lex_check_space_ok(data, current_size, max_length) *)
Definition lex_rejects (len cur : Z) : bool := cmp_eval lexbuf_op (len + cur) (lexbuf_size - lexbuf_slack).
Definition ident_rejects (len : Z) : bool := cmp_eval ident_op len ident_limit.

Definition LLONG_MAX : Z := 9223372036854775807.
Inductive suffix := SNone | SKB | SMB.
Definition suffix_mul (s : suffix) : Z := match s with SNone => 1 | SKB => int_kb_mul | SMB => int_mb_mul end.
(* strtoll on a digit string of value v >= 0: clamps to LLONG_MAX and sets errno = ERANGE *)
Definition strtoll_clamp (v : Z) : Z * bool := if LLONG_MAX <? v then (LLONG_MAX, true) else (v, false).
Definition int_literal (v : Z) (s : suffix) : option Z :=
  let (x, erange) := strtoll_clamp v in
  if int_clamp_detected && (x =? LLONG_MAX) && erange then None
  else match s with
       | SNone => Some x
       | SKB => if cmp_eval int_kb_op x (LLONG_MAX / int_kb_div) then None else Some (x * int_kb_mul)
       | SMB => if cmp_eval int_mb_op x (LLONG_MAX / int_mb_div) then None else Some (x * int_mb_mul)
       end.

(* ---------------------------------------------------------------- timeout: spacing of the clock reads *)
(* scanner.c block loop: the clock is read in iteration i (offset inside the current block) iff the whole guard holds *)
Definition block_reads_clock (i : Z) : bool := (i mod block_check_modulus =? block_check_residue) && block_guard_extra i.
(* exec.c: after every instruction ++cycle OP N -> read the clock, cycle = reset *)
Definition vm_tick (cycle : Z) : bool * Z :=
  let c := cycle + 1 in
  if cmp_eval vm_check_op c vm_check_cycles then (true, vm_cycle_reset) else (false, c).
(* does a clock read happen within the next k instructions? *)
Fixpoint vm_reads_within (k : nat) (cycle : Z) : bool :=
  match k with
  | O => false
  | S k' => let (r, c) := vm_tick cycle in if r then true else vm_reads_within k' c
  end.
(* the documented spacing (exec.c: "Check for timeout every 100 instruction cycles"; scanner.c: i % 4096):
   the generated constants must not exceed these *)
Definition SPEC_BLOCK_SPACING : Z := 4096.
Definition SPEC_VM_SPACING : Z := 100.
(* time spent on k steps starting at step s, for a per-step cost function *)
Fixpoint cost_sum (cost : Z -> Z) (s : Z) (k : nat) : Z :=
  match k with O => 0 | S k' => cost s + cost_sum cost (s + 1) k' end.
