(* Model of the scan callback protocol (C11): what messages a scan sends, in which order, and what it returns,
   for every answer the callback can give at every message.

   Mirrors, in this order:
     yr_scanner_set_flags            scanner.c:391-404    [rp_set_flags]
     yr_execute_code                 exec.c               OP_IMPORT -> yr_modules_load (modules.c:105-175) [rp_load],
                                                          OP_INIT_RULE / OP_MATCH_RULE (exec.c:1156-1222)  [rp_eval]
     the report loop + SCAN_FINISHED scanner.c:578-610    [rp_report]
     the return code at _exit        scanner.c:596-606    [rp_rc]

   Inputs.  [imports]: the module of every OP_IMPORT instruction in code order (one per `import` statement and
   namespace: parser.c:1317 dedups per namespace only, so a module imported in two namespaces appears twice).
   Import instructions are interleaved with rule code in the real byte code; rule code sends no message, and an
   import error discards all rule results (goto _exit), so only the order among imports is observable and the
   model takes the two lists separately.  [rules]: rules_table in definition order; [rp_cond] is the value the
   rule's condition code leaves on the stack (true / false-or-undefined) supposing the rule is evaluated.
   The numeric constants are those of gen/GenConsts.v, regenerated from /repo's headers on every run.

   Not modelled (excluded by the generators of checks/c11.py): CALLBACK_MSG_CONSOLE_LOG, TOO_MANY_MATCHES,
   TOO_SLOW_SCANNING; a module whose load() fails; timeouts. *)
From Coq Require Import List ZArith Bool Arith.
From YV Require Import gen.GenConsts.
Import ListNotations.

Record rp_rule := mk_rp_rule {
  rp_ns : nat;            (* rule->ns->idx *)
  rp_global : bool;       (* RULE_FLAGS_GLOBAL *)
  rp_private : bool;      (* RULE_FLAGS_PRIVATE *)
  rp_disabled : bool;     (* RULE_FLAGS_DISABLED (yr_rule_disable) *)
  rp_cond : bool          (* the condition holds on this input *)
}.

Inductive rp_msg :=
| RImport (m : nat)       (* CALLBACK_MSG_IMPORT_MODULE, m = module id *)
| RImported (m : nat)     (* CALLBACK_MSG_MODULE_IMPORTED *)
| RMatch (i : nat)        (* CALLBACK_MSG_RULE_MATCHING, i = index in rules_table *)
| RNoMatch (i : nat)      (* CALLBACK_MSG_RULE_NOT_MATCHING *)
| RFinished.              (* CALLBACK_MSG_SCAN_FINISHED *)

(* the callback: its answer to the k-th message of the scan (k counts every message) *)
Definition rp_script := nat -> Z.

Inductive rp_outcome := RCompleted | RAborted | RErrored.

Definition rp_is_abort (a : Z) : bool := Z.eqb a CALLBACK_ABORT.
Definition rp_is_error (a : Z) : bool := Z.eqb a CALLBACK_ERROR.

(* ---- yr_scanner_set_flags *)
Definition rp_has (f bit : Z) : bool := negb (Z.eqb (Z.land f bit) 0).
Definition rp_set_flags (f : Z) : Z :=
  if rp_has f SCAN_FLAGS_REPORT_RULES_MATCHING then f
  else if rp_has f SCAN_FLAGS_REPORT_RULES_NOT_MATCHING then f
  else Z.lor f (Z.lor SCAN_FLAGS_REPORT_RULES_MATCHING SCAN_FLAGS_REPORT_RULES_NOT_MATCHING).
Definition rp_rep_m (f : Z) : bool := rp_has f SCAN_FLAGS_REPORT_RULES_MATCHING.
Definition rp_rep_n (f : Z) : bool := rp_has f SCAN_FLAGS_REPORT_RULES_NOT_MATCHING.

(* ---- yr_modules_load for every OP_IMPORT; [loaded] = keys of context->objects_table.
   IMPORT_MODULE: only CALLBACK_ERROR is looked at (modules.c:139); MODULE_IMPORTED: likewise (:171).
   Result: messages, next message index, false = execution stopped with ERROR_CALLBACK_ERROR. *)
Fixpoint rp_load (imports loaded : list nat) (sc : rp_script) (k : nat) : list rp_msg * nat * bool :=
  match imports with
  | [] => ([], k, true)
  | m :: rest =>
      if existsb (Nat.eqb m) loaded then rp_load rest loaded sc k
      else if rp_is_error (sc k) then ([RImport m], S k, false)
      else if rp_is_error (sc (S k)) then ([RImport m; RImported m], S (S k), false)
      else let '(tr, k', ok) := rp_load rest (m :: loaded) sc (S (S k)) in
           (RImport m :: RImported m :: tr, k', ok)
  end.

(* ---- rule code.  OP_INIT_RULE skips a disabled rule (it is false; when global its namespace is marked
   unsatisfied); OP_MATCH_RULE sets rule_matches_flags when the condition is true and defined, otherwise marks
   the namespace of a global rule.  Result: rule_matches_flags (one bool per rule) and the list of namespace
   indices set in ns_unsatisfied_flags. *)
Definition rp_rule_true (r : rp_rule) : bool := if rp_disabled r then false else rp_cond r.

Fixpoint rp_eval (rules : list rp_rule) (unsat : list nat) : list bool * list nat :=
  match rules with
  | [] => ([], unsat)
  | r :: rs =>
      let t := rp_rule_true r in
      let unsat' := if t then unsat else if rp_global r then rp_ns r :: unsat else unsat in
      let '(bs, u) := rp_eval rs unsat' in (t :: bs, u)
  end.

Definition rp_unsat (unsat : list nat) (ns : nat) : bool := existsb (Nat.eqb ns) unsat.

(* ---- the report loop: for (i = 0, rule = rules_table; ...; i++, rule++) *)
Definition rp_message (f : Z) (unsat : list nat) (i : nat) (r : rp_rule) (bit : bool) : option rp_msg :=
  if (if bit then negb (rp_unsat unsat (rp_ns r)) else false)
  then (if rp_rep_m f then Some (RMatch i) else None)
  else (if rp_rep_n f then Some (RNoMatch i) else None).

Fixpoint rp_report (f : Z) (unsat : list nat) (rules : list rp_rule) (bits : list bool) (sc : rp_script)
                   (i k : nat) : list rp_msg * rp_outcome :=
  match rules, bits with
  | r :: rs, b :: bs =>
      match rp_message f unsat i r b with
      | Some m =>
          if rp_private r then rp_report f unsat rs bs sc (S i) k
          else if rp_is_abort (sc k) then ([m], RAborted)
          else if rp_is_error (sc k) then ([m], RErrored)
          else let '(tr, o) := rp_report f unsat rs bs sc (S i) (S k) in (m :: tr, o)
      | None => rp_report f unsat rs bs sc (S i) k
      end
  | _, _ => ([RFinished], RCompleted)        (* the answer to SCAN_FINISHED is ignored *)
  end.

Definition rp_rc (o : rp_outcome) : Z :=
  match o with RCompleted => ERROR_SUCCESS | RAborted => ERROR_SUCCESS | RErrored => ERROR_CALLBACK_ERROR end.

(* ---- a whole scan whose block iteration succeeded; [f] is what the caller passed to yr_scanner_set_flags *)
Definition rp_scan_o (imports : list nat) (rules : list rp_rule) (f : Z) (sc : rp_script) : list rp_msg * rp_outcome :=
  let f' := rp_set_flags f in
  let '(tm, k, ok) := rp_load imports [] sc 0 in
  if ok then
    let '(bits, unsat) := rp_eval rules [] in
    let '(tr, o) := rp_report f' unsat rules bits sc 0 k in (tm ++ tr, o)
  else (tm, RErrored).

Definition rp_scan (imports : list nat) (rules : list rp_rule) (f : Z) (sc : rp_script) : list rp_msg * Z :=
  let '(tr, o) := rp_scan_o imports rules f sc in (tr, rp_rc o).

(* the two bitmaps as the report loop sees them (compared with the implementation's by checks/c11.py) *)
Definition rp_bitmaps (rules : list rp_rule) (nns : nat) : list bool * list bool :=
  let '(bits, unsat) := rp_eval rules [] in (bits, map (rp_unsat unsat) (seq 0 nns)).

(* scripts given as a finite table (for the extracted runner): answer 0 = CALLBACK_CONTINUE elsewhere *)
Fixpoint rp_script_of (l : list (nat * Z)) (k : nat) : Z :=
  match l with
  | [] => CALLBACK_CONTINUE
  | (j, a) :: l' => if Nat.eqb j k then a else rp_script_of l' k
  end.
