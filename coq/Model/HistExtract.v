(* entry points of the C10 / C20 models for the extracted runner, under names that cannot clash *)
From Coq Require Import List NArith ZArith.
From YV Require Import Model.Externals Model.ScannerHist.

Definition c20_run := Externals.run.
Definition c20_world0 := Externals.world0.
Definition c20_eval_cond := Externals.eval_cond.
Definition c20_subst_c := Externals.subst_c.
Definition c10_run := ScannerHist.run cfg_current.
Definition c10_step := ScannerHist.step cfg_current.
Definition c10_fresh := ScannerHist.fresh.
Definition c10_heap_live := ScannerHist.heap_live.
