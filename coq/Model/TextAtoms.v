(* Candidate generation for text strings: the scanner only looks at offsets proposed by atom hits.
   [cover_ok] is the decidable certificate checked on the atoms the real compiler stored in the image
   (Model/Image.v atoms_of): some window of every rendering of the string has all its variants among
   the atoms, with the backtrack the scanner needs.  Definitions only. *)
From Coq Require Import List NArith Bool Lia.
From YV Require Import Base.Bytes gen.GenTables Spec.TextSpec.
Import ListNotations.
Local Open Scope N_scope.

Definition alter (b : N) : N := nth (N.to_nat b) altercase_table b.

Definition widen (s : bytes) : bytes := flat_map (fun c => [c; 0]) s.

(* all case combinations of a window *)
Fixpoint case_combos (w : bytes) : list bytes :=
  match w with
  | [] => [[]]
  | c :: r => let rs := case_combos r in
              map (cons c) rs ++ (if alter c =? c then [] else map (cons (alter c)) rs)
  end.

Definition keys_in (lo hi : N) : list N := map N.of_nat (seq (N.to_nat lo) (N.to_nat hi + 1 - N.to_nat lo)).

Definition window_variants (m : tmods) (w : bytes) : list bytes :=
  match m_xor m with
  | Some (lo, hi) => map (fun k => map (fun c => N.lxor c k) w) (keys_in lo hi)
  | None => if m_nocase m then case_combos w else [w]
  end.

Definition has_atom (atoms : list (bytes * N)) (a : bytes) (bt : N) : bool :=
  existsb (fun x => bytes_eqb (fst x) a && (snd x =? bt)) atoms.

(* window [off, off+l) of rendering r is covered *)
Definition window_covered (m : tmods) (atoms : list (bytes * N)) (r : bytes) (off l : nat) : bool :=
  Nat.ltb 0 l && Nat.leb (off + l) (length r) &&
  forallb (fun wv => has_atom atoms wv (N.of_nat (off + l))) (window_variants m (slice r off l)).

Definition rendering_covered (m : tmods) (atoms : list (bytes * N)) (r : bytes) : bool :=
  existsb (fun off => existsb (fun l => window_covered m atoms r off l) (seq 1 4)) (seq 0 (length r)).

Definition cover_ok (s : bytes) (m : tmods) (atoms : list (bytes * N)) : bool :=
  (if m_ascii m || negb (m_wide m) then rendering_covered m atoms s else true) &&
  (if m_wide m then rendering_covered m atoms (widen s) else true).

(* an atom hit: atom [a] ends at position [i] of the buffer; the candidate offset is i - backtrack *)
Definition atom_ends_at (a : bytes) (buf : bytes) (i : nat) : Prop :=
  (length a <= i)%nat /\ slice buf (i - length a) (length a) = a /\ (i <= length buf)%nat.

Definition candidate (atoms : list (bytes * N)) (buf : bytes) (o : nat) : Prop :=
  exists a bt, In (a, bt) atoms /\ atom_ends_at a buf (o + N.to_nat bt).
