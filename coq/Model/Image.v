(* Decoding of a saved rules image (the arena of Model/Arena.v) into typed tables: strings,
   Aho-Corasick transition table, match table and match pool.  Layout constants come from
   gen/GenConsts.v (regenerated from the headers on every run).  Definitions only. *)
From Coq Require Import List NArith ZArith Bool FMapPositive.
From YV Require Import Base.Bytes gen.GenConsts Model.Arena.
Import ListNotations.
Local Open Scope N_scope.

Definition zn (z : Z) : nat := Z.to_nat z.

Definition u_at (b : bytes) (off : nat) (n : nat) : N := le_dec (slice b off n).
Definition ref_at (b : bytes) (off : nat) : N * N := (u_at b off 4, u_at b (off + 4) 4).

Definition sec (a : arena) (i : Z) : bytes := nth (zn i) (bufs a) [].

(* NUL-terminated string at a reference *)
Fixpoint cstr_from (l : bytes) : bytes :=
  match l with [] => [] | c :: r => if c =? 0 then [] else c :: cstr_from r end.
Definition cstr (a : arena) (r : N * N) : bytes :=
  if is_null_ref r then [] else cstr_from (skipn (N.to_nat (snd r)) (nth (N.to_nat (fst r)) (bufs a) [])).

Record ystring := {
  ys_flags : N; ys_idx : N; ys_fixed : N (* raw 64-bit *); ys_rule : N; ys_len : N;
  ys_bytes : bytes; ys_chained : option N; ys_gap_min : N; ys_gap_max : N; ys_ident : bytes }.

Definition decode_string (a : arena) (tbl : bytes) (k : nat) : ystring :=
  let o := (k * zn sizeof_YR_STRING)%nat in
  let len := u_at tbl (o + zn off_YR_STRING_length) 4 in
  let sref := ref_at tbl (o + zn off_YR_STRING_string) in
  let cref := ref_at tbl (o + zn off_YR_STRING_chained_to) in
  {| ys_flags := u_at tbl (o + zn off_YR_STRING_flags) 4;
     ys_idx := u_at tbl (o + zn off_YR_STRING_idx) 4;
     ys_fixed := u_at tbl (o + zn off_YR_STRING_fixed_offset) 8;
     ys_rule := u_at tbl (o + zn off_YR_STRING_rule_idx) 4;
     ys_len := len;
     ys_bytes := if is_null_ref sref then []
                 else slice (nth (N.to_nat (fst sref)) (bufs a) []) (N.to_nat (snd sref)) (N.to_nat len);
     ys_chained := if is_null_ref cref then None else Some (snd cref / Z.to_N sizeof_YR_STRING);
     ys_gap_min := u_at tbl (o + zn off_YR_STRING_chain_gap_min) 4;
     ys_gap_max := u_at tbl (o + zn off_YR_STRING_chain_gap_max) 4;
     ys_ident := cstr a (ref_at tbl (o + zn off_YR_STRING_identifier)) |}.

Record acmatch := { am_string : N; am_fwd : option N; am_bwd : option N; am_next : option N; am_backtrack : N }.

Definition decode_match (pool : bytes) (k : nat) : acmatch :=
  let o := (k * zn sizeof_YR_AC_MATCH)%nat in
  let sref := ref_at pool (o + zn off_YR_AC_MATCH_string) in
  let f := ref_at pool (o + zn off_YR_AC_MATCH_forward_code) in
  let b := ref_at pool (o + zn off_YR_AC_MATCH_backward_code) in
  let n := ref_at pool (o + zn off_YR_AC_MATCH_next) in
  {| am_string := snd sref / Z.to_N sizeof_YR_STRING;
     am_fwd := if is_null_ref f then None else Some (snd f);
     am_bwd := if is_null_ref b then None else Some (snd b);
     am_next := if is_null_ref n then None else Some (snd n / Z.to_N sizeof_YR_AC_MATCH);
     am_backtrack := u_at pool (o + zn off_YR_AC_MATCH_backtrack) 2 |}.

Fixpoint u32s (b : bytes) (fuel : nat) : list N :=
  match fuel with
  | O => []
  | S f => match b with
           | b0 :: b1 :: b2 :: b3 :: r => le_dec [b0; b1; b2; b3] :: u32s r f
           | _ => []
           end
  end.

(* index -> value maps with logarithmic lookup, built once from the decoded lists *)
Definition imap (A : Type) := PositiveMap.t A.
Fixpoint imap_of_list {A} (l : list A) (i : positive) (m : imap A) : imap A :=
  match l with [] => m | x :: r => imap_of_list r (Pos.succ i) (PositiveMap.add i x m) end.
Definition imap_get {A} (m : imap A) (i : N) (d : A) : A :=
  match PositiveMap.find (N.succ_pos i) m with Some x => x | None => d end.

Record crules := {
  cr_strings : list ystring;
  cr_trans : list N;       (* YR_AC_TRANSITION[] *)
  cr_transm : imap N;
  cr_mtab : list N;        (* 1-based index into the pool, 0 = none *)
  cr_mtabm : imap N;
  cr_pool : list acmatch;
  cr_poolm : imap acmatch;
  cr_recode : bytes;
  cr_code : bytes }.

Definition decode (a : arena) : crules :=
  let st := sec a YR_STRINGS_TABLE in
  let pool := sec a YR_AC_STATE_MATCHES_POOL in
  let tr := sec a YR_AC_TRANSITION_TABLE in
  let mt := sec a YR_AC_STATE_MATCHES_TABLE in
  let trl := u32s tr (length tr) in
  let mtl := u32s mt (length mt) in
  let pl := map (decode_match pool) (seq 0 (length pool / zn sizeof_YR_AC_MATCH)) in
  {| cr_strings := map (decode_string a st) (seq 0 (length st / zn sizeof_YR_STRING));
     cr_trans := trl; cr_transm := imap_of_list trl 1%positive (PositiveMap.empty N);
     cr_mtab := mtl; cr_mtabm := imap_of_list mtl 1%positive (PositiveMap.empty N);
     cr_pool := pl; cr_poolm := imap_of_list pl 1%positive (PositiveMap.empty acmatch);
     cr_recode := sec a YR_RE_CODE_SECTION;
     cr_code := sec a YR_CODE_SECTION |}.

(* ---- the automaton as stored: children, failure link, match list of a state (= slot number) *)
Definition tr_at (cr : crules) (i : N) : N := imap_get (cr_transm cr) i 0.
Definition slot_bits : N := Z.to_N YR_AC_SLOT_OFFSET_BITS.
Definition next_state (t : N) : N := N.shiftr t slot_bits.
Definition code_of (t : N) : N := N.land t 511.

(* transition of state q on byte b, when the slot belongs to q *)
Definition child (cr : crules) (q b : N) : option N :=
  let t := tr_at cr (q + b + 1) in
  if code_of t =? b + 1 then Some (next_state t) else None.

Definition fail_of (cr : crules) (q : N) : N := next_state (tr_at cr q).

Definition dummy_match : acmatch := {| am_string := 0; am_fwd := None; am_bwd := None; am_next := None; am_backtrack := 0 |}.
Definition pool_at (cr : crules) (k : N) : acmatch := imap_get (cr_poolm cr) k dummy_match.

Fixpoint match_list_from (cr : crules) (fuel : nat) (i : option N) : list N :=
  match fuel, i with
  | S f, Some k => k :: match_list_from cr f (am_next (pool_at cr k))
  | _, _ => []
  end.

Definition match_list (cr : crules) (q : N) : list N :=
  let h := imap_get (cr_mtabm cr) q 0 in
  if h =? 0 then [] else match_list_from cr (S (length (cr_pool cr))) (Some (h - 1)).

(* all states with their paths, breadth first: (state, path) *)
Definition children_of (cr : crules) (q : N) (path : bytes) : list (N * bytes) :=
  flat_map (fun b => match child cr q (N.of_nat b) with
                     | Some c => if c =? 0 then [] else [(c, path ++ [N.of_nat b])]
                     | None => [] end) (seq 0 256).

Fixpoint bfs (cr : crules) (fuel : nat) (frontier : list (N * bytes)) : list (N * bytes) :=
  match fuel with
  | O => []
  | S f => match frontier with
           | [] => []
           | _ => frontier ++ bfs cr f (flat_map (fun qp => children_of cr (fst qp) (snd qp)) frontier)
           end
  end.

Definition states (cr : crules) : list (N * bytes) := bfs cr 8 [(0, [])].

Definition is_suffix (a w : bytes) : bool :=
  (length a <=? length w)%nat && bytes_eqb a (skipn (length w - length a) w).

Definition state_of (sts : list (N * bytes)) (w : bytes) : option N :=
  option_map fst (find (fun qp => bytes_eqb (snd qp) w) sts).

(* longest suffix of w that is the path of a state *)
Fixpoint lsuf (sts : list (N * bytes)) (w : bytes) : bytes :=
  match state_of sts w with
  | Some _ => w
  | None => match w with [] => [] | _ :: r => lsuf sts r end
  end.

Fixpoint strip_suffix_list (l tail : list N) : option (list N) :=
  if (length l =? length tail)%nat then (if forallb (fun xy => fst xy =? snd xy) (combine l tail) then Some [] else None)
  else match l with
       | [] => None
       | x :: r => match strip_suffix_list r tail with Some p => Some (x :: p) | None => None end
       end.

(* own matches of a state: its list minus the list inherited from the longest proper suffix state *)
Definition own_matches (cr : crules) (sts : list (N * bytes)) (qp : N * bytes) : option (list N) :=
  match snd qp with
  | [] => Some (match_list cr (fst qp))
  | _ :: r => match state_of sts (lsuf sts r) with
              | Some f => strip_suffix_list (match_list cr (fst qp)) (match_list cr f)
              | None => None
              end
  end.

(* all atoms of the automaton: (string index, atom bytes, backtrack) *)
Definition all_atoms (cr : crules) : list (N * (bytes * N)) :=
  let sts := states cr in
  flat_map (fun qp => match own_matches cr sts qp with
                      | Some own => map (fun k => let m := pool_at cr k in
                                                  (am_string m, (snd qp, am_backtrack m))) own
                      | None => [] end) sts.

Definition atoms_for (all : list (N * (bytes * N))) (sidx : N) : list (bytes * N) :=
  map snd (filter (fun x => fst x =? sidx) all).

(* atoms of string [sidx]: (atom bytes, backtrack) *)
Definition atoms_of (cr : crules) (sidx : N) : list (bytes * N) := atoms_for (all_atoms cr) sidx.

(* ---- every DECLARE_REFERENCE field of the table structs is registered for relocation (or holds the
   NULL reference): the per-image certificate for "every pointer was registered" (C08) *)
Definition reloc_key (r : N * N) : N := fst r * 4294967296 + snd r.
Definition reloc_set (a : arena) : imap bool :=
  fold_left (fun m r => PositiveMap.add (N.succ_pos (reloc_key r)) true m) (relocs a) (PositiveMap.empty bool).

Definition table_refs_ok (a : arena) (rs : imap bool) (sec_id : Z) (struct_size : Z) (ref_offsets : list Z) : bool :=
  let tbl := sec a sec_id in
  let n := (length tbl / zn struct_size)%nat in
  forallb (fun k =>
    forallb (fun ro =>
      let off := N.of_nat (k * zn struct_size + zn ro) in
      imap_get rs (reloc_key (Z.to_N sec_id, off)) false ||
      is_null_ref (ref_at tbl (N.to_nat off)) ||
      (u_at tbl (N.to_nat off) 8 =? 0) ||   (* an unregistered NULL pointer stays NULL *)
      (u_at tbl (N.to_nat off) 8 =? 18085043209519168250)   (* 0xFA filler of the terminating null rule / external *)
    ) ref_offsets) (seq 0 n).

Definition layout_cert (a : arena) : bool :=
  let rs := reloc_set a in
  table_refs_ok a rs YR_NAMESPACES_TABLE sizeof_YR_NAMESPACE refs_YR_NAMESPACE &&
  table_refs_ok a rs YR_RULES_TABLE sizeof_YR_RULE refs_YR_RULE &&
  table_refs_ok a rs YR_METAS_TABLE sizeof_YR_META refs_YR_META &&
  table_refs_ok a rs YR_STRINGS_TABLE sizeof_YR_STRING refs_YR_STRING &&
  table_refs_ok a rs YR_EXTERNAL_VARIABLES_TABLE sizeof_YR_EXTERNAL_VARIABLE refs_YR_EXTERNAL_VARIABLE &&
  table_refs_ok a rs YR_AC_STATE_MATCHES_POOL sizeof_YR_AC_MATCH refs_YR_AC_MATCH.
