(* C14: entry points of the extracted model runner (plain argument types only, so that the OCaml glue
   refers to nothing but these names).  Definitions only. *)
From Coq Require Import List NArith ZArith Bool.
From YV Require Import Base.Bytes Base.CSem Model.ModRange.
Import ListNotations.

Definition c14_blocks (l : list (Z * list N)) : list block := map (fun p => mkblock (fst p) (snd p)) l.
(* [fx]: which break condition the function under test implements (see Model/ModRange.v, [fixd]) *)
Definition c14_addressed (fx : bool) l (off len : Z) := addressed fx (c14_blocks l) off len.
Definition c14_crc32 (fx : bool) l (off len : Z) := data_crc32 fx (c14_blocks l) off len.
Definition c14_checksum32 (fx : bool) l (off len : Z) := data_checksum32 fx (c14_blocks l) off len.
Definition c14_distribution (fx : bool) l (off len : Z) := get_distribution fx (c14_blocks l) off len.
Definition c14_mode (fx : bool) l (off len : Z) := mode_range fx (c14_blocks l) off len.
Definition c14_count (fx : bool) l (byte off len : Z) := count_range fx (c14_blocks l) byte off len.
Definition c14_percentage (fx : bool) l (byte off len : Z) := percentage_range fx (c14_blocks l) byte off len.
Definition c14_distribution_global l := get_distribution_global (c14_blocks l).
Definition c14_mode_global l := mode_global (c14_blocks l).
Definition c14_count_global l (byte : Z) := count_global (c14_blocks l) byte.
Definition c14_percentage_global l (byte : Z) := percentage_global (c14_blocks l) byte.

Definition c14_crc32_table (s : list N) := crc32_table s.
Definition c14_crc32_bitwise (s : list N) := crc32_bitwise s.
Definition c14_checksum32_str (s : list N) := checksum32 s.
Definition c14_crc_tab := crc32_tab.

(* the cache run with an injective stand-in for the digest: the algorithm tag followed by the bytes *)
Definition c14_alg (n : N) : alg := match n with 0%N => MD5 | 1%N => SHA1 | _ => SHA256 end.
Definition c14_tag (a : alg) (l : list N) : list N := (match a with MD5 => 0 | SHA1 => 1 | SHA256 => 2 end)%N :: l.
Definition c14_calls (cs : list (N * (Z * Z))) : list call := map (fun c => (c14_alg (fst c), fst (snd c), snd (snd c))) cs.
Definition c14_cached (fx : bool) l cs := results_with_cache (list N) c14_tag fx (c14_blocks l) (c14_calls cs).
Definition c14_uncached (fx : bool) l cs := results_without_cache (list N) c14_tag fx (c14_blocks l) (c14_calls cs).

Definition c14_to_int (s : list N) := mod_to_int s.
Definition c14_to_int_base (s : list N) (base : Z) := mod_to_int_base s base.
Definition c14_length (s : list N) := mod_length s.
Definition c14_min := math_min.
Definition c14_max := math_max.
Definition c14_abs := math_abs.
Definition c14_to_string := math_to_string.
Definition c14_to_string_base := math_to_string_base.
Definition c14_in_range := math_in_range.

Definition c14_monte (fx : bool) l (off len : Z) := data_monte_carlo fx (c14_blocks l) off len.
Definition c14_monte_str (s : list N) := mc_counts s.
