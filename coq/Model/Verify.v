(* The verifier for literal (text) strings and the scan of one string, as scan.c / scanner.c do it:
   yr_scan_verify_match -> _yr_scan_verify_literal_match (which of the compare functions run, in which order,
   under which flags; the FITS_IN_ATOM shortcut that trusts the atom; where the xor key comes from)
   -> _yr_scan_match_callback (fullword test, chosen by match length) -> _yr_scan_add_match_to_list (sorted,
   an offset already present is kept).  [scan_string] runs the stored automaton (Model/AC.v hits_at) over the
   buffer and verifies every hit of the string.  Definitions only; Proofs/VerifyProofs.v relates them to
   Spec/TextSpec.v; checks/c01.py compares both [verify_literal] (against yr_scan_verify_match called directly)
   and [scan_string] (against whole scans) with the implementation. *)
From Coq Require Import List NArith ZArith Bool Lia.
From YV Require Import Base.Bytes gen.GenConsts Model.Arena Model.Image Model.AC Spec.TextSpec Model.TextAtoms.
Import ListNotations.
Local Open Scope N_scope.

Record vflags := { vf_ascii : bool; vf_wide : bool; vf_nocase : bool; vf_xor : bool; vf_fullword : bool; vf_fits : bool }.

Definition has_flag (flags : N) (f : Z) : bool := negb (N.land flags (Z.to_N f) =? 0).

Definition vflags_of (flags : N) : vflags :=
  {| vf_ascii := has_flag flags STRING_FLAGS_ASCII; vf_wide := has_flag flags STRING_FLAGS_WIDE;
     vf_nocase := has_flag flags STRING_FLAGS_NO_CASE; vf_xor := has_flag flags STRING_FLAGS_XOR;
     vf_fullword := has_flag flags STRING_FLAGS_FULL_WORD; vf_fits := has_flag flags STRING_FLAGS_FITS_IN_ATOM |}.

(* _yr_scan_compare / _yr_scan_icompare: number of bytes matched, 0 = no match *)
Definition c_compare (nocase : bool) (data s : bytes) : N :=
  if (length data <? length s)%nat then 0 else if match_ascii nocase 0 s data then nlen s else 0.

(* _yr_scan_wcompare / _yr_scan_wicompare *)
Definition c_wcompare (nocase : bool) (data s : bytes) : N :=
  if (length data <? 2 * length s)%nat then 0 else if match_wide nocase 0 s data then 2 * nlen s else 0.

Definition first_key (data s : bytes) : N :=
  match data, s with d0 :: _, s0 :: _ => N.lxor d0 s0 | _, _ => 0 end.

(* _yr_scan_xor_compare / _yr_scan_xor_wcompare: (bytes matched, key); the key is only meaningful when bytes > 0 *)
Definition c_xor_compare (data s : bytes) : N * N :=
  if (length data <? length s)%nat then (0, 0)
  else let k := first_key data s in if match_ascii false k s data then (nlen s, k) else (0, 0).

Definition c_xor_wcompare (data s : bytes) : N * N :=
  if (length data <? 2 * length s)%nat then (0, 0)
  else let k := first_key data s in if match_wide false k s data then (2 * nlen s, k) else (0, 0).

(* forward_matches and xor key of _yr_scan_verify_literal_match *)
Definition forward_and_key (fl : vflags) (s : bytes) (bt : N) (data : bytes) : N * N :=
  if vf_fits fl then
    (bt, if vf_xor fl then
           let xw := c_xor_wcompare data s in
           let xc := c_xor_compare data s in
           if vf_ascii fl && negb (fst xc =? 0) then snd xc
           else if vf_wide fl && negb (fst xw =? 0) then snd xw else 0
         else 0)
  else if vf_nocase fl then
    let f1 := if vf_ascii fl then c_compare true data s else 0 in
    let f2 := if vf_wide fl && (f1 =? 0) then c_wcompare true data s else f1 in
    (f2, 0)
  else
    let f1 := if vf_ascii fl then c_compare false data s else 0 in
    let f2 := if vf_wide fl && (f1 =? 0) then c_wcompare false data s else f1 in
    if vf_xor fl && (f2 =? 0) then
      let xw := if vf_wide fl then c_xor_wcompare data s else (0, 0) in
      if fst xw =? 0 then c_xor_compare data s else xw
    else (f2, 0).

(* yr_scan_verify_match for a literal string that is not part of a chain: Some (length, xor key) when a match
   at [off] is recorded.  [fixed] is the fixed offset of a string used only as `$s at <constant>`.
   The test off + length <= size is an assert in the code; the scan loop guarantees it. *)
Definition verify_literal (fl : vflags) (s : bytes) (bt : N) (fixed : option N) (buf : bytes) (off : nat) : option (N * N) :=
  if (length buf <=? off)%nat then None else
  if (match fixed with Some f => negb (f =? N.of_nat off) | None => false end) then None else
  let fk := forward_and_key fl s bt (skipn off buf) in
  let fwd := fst fk in
  if fwd =? 0 then None else
  if (length buf <? off + N.to_nat fwd)%nat then None else
  let wide := fwd =? 2 * nlen s in
  if vf_fullword fl && negb (if wide then fullword_wide buf off (N.to_nat fwd) else fullword_ascii buf off (N.to_nat fwd))
  then None else Some fk.

(* _yr_scan_add_match_to_list (replace_if_exists = false): ascending offsets, an offset already present is kept *)
Fixpoint add_match (x : nat * (N * N)) (l : list (nat * (N * N))) : list (nat * (N * N)) :=
  match l with
  | [] => [x]
  | y :: r => if (fst x <? fst y)%nat then x :: l
              else if (fst x =? fst y)%nat then l
              else y :: add_match x r
  end.

(* the hits of position i that belong to string sidx, verified in list order *)
Definition verify_hits (cr : crules) (sidx : N) (fl : vflags) (s : bytes) (fixed : option N) (buf : bytes)
           (i : nat) (acc : list (nat * (N * N))) : list (nat * (N * N)) :=
  fold_left (fun acc mu =>
    let am := pool_at cr mu in
    if am_string am =? sidx then
      let off := (i - N.to_nat (am_backtrack am))%nat in
      match verify_literal fl s (am_backtrack am) fixed buf off with
      | Some lk => add_match (off, lk) acc
      | None => acc
      end
    else acc) (hits_at cr buf i) acc.

(* _yr_scanner_scan_mem_block restricted to one string: positions 0 .. length buf *)
Definition scan_string (cr : crules) (sidx : N) (fl : vflags) (s : bytes) (fixed : option N) (buf : bytes) : list (nat * (N * N)) :=
  fold_left (fun acc i => verify_hits cr sidx fl s fixed buf i acc) (seq 0 (S (length buf))) [].

(* the same scan carrying the automaton state along instead of re-running it for every position (what the C loop does);
   Proofs/VerifyProofs.v scan_string_inc_eq: equal to [scan_string] *)
Definition verify_state_hits (cr : crules) (sidx : N) (fl : vflags) (s : bytes) (fixed : option N) (buf : bytes)
           (q : option N) (i : nat) (acc : list (nat * (N * N))) : list (nat * (N * N)) :=
  fold_left (fun acc mu =>
    let am := pool_at cr mu in
    if am_string am =? sidx then
      let off := (i - N.to_nat (am_backtrack am))%nat in
      match verify_literal fl s (am_backtrack am) fixed buf off with
      | Some lk => add_match (off, lk) acc
      | None => acc
      end
    else acc)
    (match q with Some q' => filter (fun k => am_backtrack (pool_at cr k) <=? N.of_nat i) (match_list cr q') | None => [] end) acc.

Fixpoint scan_inc (cr : crules) (sidx : N) (fl : vflags) (s : bytes) (fixed : option N) (buf : bytes)
         (q : option N) (i : nat) (rest : bytes) (acc : list (nat * (N * N))) : list (nat * (N * N)) :=
  let acc' := verify_state_hits cr sidx fl s fixed buf q i acc in
  match rest with
  | [] => acc'
  | b :: r => scan_inc cr sidx fl s fixed buf (match q with Some q' => ac_step cr q' b | None => None end) (S i) r acc'
  end.

Definition scan_string_inc (cr : crules) (sidx : N) (fl : vflags) (s : bytes) (fixed : option N) (buf : bytes) : list (nat * (N * N)) :=
  scan_inc cr sidx fl s fixed buf (Some 0) 0 buf [].

(* reading the string's text and flags from the decoded image *)
Definition ystring_at (cr : crules) (sidx : N) : option ystring := nth_error (cr_strings cr) (N.to_nat sidx).

Definition scan_image_string (cr : crules) (sidx : N) (buf : bytes) : list (nat * (N * N)) :=
  match ystring_at cr sidx with
  | Some ys =>
      let fixed := if has_flag (ys_flags ys) STRING_FLAGS_FIXED_OFFSET then Some (ys_fixed ys) else None in
      scan_string_inc cr sidx (vflags_of (ys_flags ys)) (ys_bytes ys) fixed buf
  | None => []
  end.

(* ---------------------------------------------------------------- certificates on the stored atoms *)
Definition renderings (fl : vflags) (s : bytes) : list bytes :=
  (if vf_ascii fl then [s] else []) ++ (if vf_wide fl then [widen s] else []).

(* FITS_IN_ATOM: the verifier trusts the atom.  Every atom must be a whole rendering (in one of its variants)
   and every variant of every whole rendering must be an atom. *)
Definition fits_ok (fl : vflags) (s : bytes) (m : tmods) (atoms : list (bytes * N)) : bool :=
  forallb (fun a => existsb (fun r => (length (fst a) =? length r)%nat && (snd a =? nlen r) &&
                                      existsb (bytes_eqb (fst a)) (window_variants m r)) (renderings fl s)) atoms &&
  forallb (fun r => window_covered m atoms r 0 (length r)) (renderings fl s).

(* xor strings: the key is recomputed from the first byte of the data and is not compared with the range of the
   modifier, and the ascii xor comparison runs for wide-only strings too.  A hit of atom (v, bt) followed by a
   successful comparison of rendering r' with key k is an occurrence with an admissible key if the atom's window
   overlaps r' and forces k into the range (or no k is consistent with the atom at all). *)
Definition forced_key_ok (lo hi : N) (enabled : bool) (r' : bytes) (a : bytes * N) : bool :=
  let v := fst a in
  let bt := N.to_nat (snd a) in
  let w0 := (bt - length v)%nat in
  let J := filter (fun j => (j <? length r')%nat) (seq w0 (length v)) in
  if (bt <? length v)%nat then false else
  match J with
  | [] => false
  | j0 :: _ =>
      let kof := fun j => N.lxor (nth j r' 0) (nth (j - w0) v 0) in
      let k := kof j0 in
      if forallb (fun j => kof j =? k) J then enabled && (lo <=? k) && (k <=? hi) else true
  end.

Definition xor_keys_ok (fl : vflags) (s : bytes) (m : tmods) (atoms : list (bytes * N)) : bool :=
  match m_xor m with
  | None => true
  | Some (lo, hi) =>
      ((lo =? 0) && (hi =? 255) && vf_ascii fl) ||
      forallb (fun a =>
        forced_key_ok lo hi (vf_ascii fl) s a &&
        (if vf_wide fl then forced_key_ok lo hi true (widen s) a else true)) atoms
  end.

Definition nonul (s : bytes) : bool := forallb (fun c => negb (c =? 0)) s.

(* the modifiers of the declaration agree with the flags stored in the image *)
Definition flags_agree (fl : vflags) (m : tmods) : bool :=
  Bool.eqb (vf_ascii fl) (m_ascii m || negb (m_wide m)) && Bool.eqb (vf_wide fl) (m_wide m) &&
  Bool.eqb (vf_nocase fl) (m_nocase m) && Bool.eqb (vf_fullword fl) (m_fullword m) &&
  Bool.eqb (vf_xor fl) (match m_xor m with Some _ => true | None => false end).

(* ---------------------------------------------------------------- the certificates of Proofs/VerifyProofs.v *)
Definition fits_flag_ok (fl : vflags) (s : bytes) : bool :=
  Bool.eqb (vf_fits fl) ((if vf_wide fl then 2 * length s else length s) <=? Z.to_nat YR_MAX_ATOM_LENGTH)%nat.

Definition text_certs_on (atoms : list (bytes * N)) (fl : vflags) (s : bytes) (m : tmods) : bool :=
  flags_agree fl m && legal m && all_bytes s && negb (match s with [] => true | _ => false end) &&
  (if vf_fits fl then fits_ok fl s m atoms else xor_keys_ok fl s m atoms).

Definition text_certs (cr : crules) (sidx : N) (fl : vflags) (s : bytes) (m : tmods) : bool :=
  text_certs_on (atoms_of cr sidx) fl s m.

Definition complete_certs_on (atoms : list (bytes * N)) (fl : vflags) (s : bytes) (m : tmods) : bool :=
  cover_ok s m atoms && fits_flag_ok fl s &&
  (if vf_wide fl && (vf_ascii fl || vf_xor fl) then nonul s else true).

Definition complete_certs (cr : crules) (sidx : N) (fl : vflags) (s : bytes) (m : tmods) : bool :=
  complete_certs_on (atoms_of cr sidx) fl s m.

(* ---------------------------------------------------------------- the fast-mode shortcut of yr_scan_verify_match:
   a string that is only used as `$s` (STRING_FLAGS_SINGLE_MATCH) is not verified again once it has a match *)
Definition verify_hits_fast (cr : crules) (sidx : N) (fl : vflags) (s : bytes) (fixed : option N) (buf : bytes)
           (i : nat) (acc : list (nat * (N * N))) : list (nat * (N * N)) :=
  fold_left (fun acc mu =>
    match acc with
    | _ :: _ => acc
    | [] =>
      let am := pool_at cr mu in
      if am_string am =? sidx then
        let off := (i - N.to_nat (am_backtrack am))%nat in
        match verify_literal fl s (am_backtrack am) fixed buf off with
        | Some lk => add_match (off, lk) acc
        | None => acc
        end
      else acc
    end) (hits_at cr buf i) acc.

Definition scan_string_fast (cr : crules) (sidx : N) (fl : vflags) (s : bytes) (fixed : option N) (buf : bytes) : list (nat * (N * N)) :=
  fold_left (fun acc i => verify_hits_fast cr sidx fl s fixed buf i acc) (seq 0 (S (length buf))) [].
