(* C16: AllocLang, a small deeply-embedded language for the allocation discipline of libyara's builders.

   A program talks about heap blocks only through pointer variables and owner lists; what is tracked is
   exactly what "allocation failure is reported, never suffered" is about: which blocks are live, whether
   a failed allocation (NULL) or a freed block is ever used, which return code comes out.

   The semantics is parametric in [fails : nat -> bool], the set of failing allocation indices (1-based,
   in request order): "the k-th allocation fails" is [fun i => i =? k], "the k-th and all later ones" is
   [fun i => k <=? i], and the theorems hold for every such set.

   Loops over input data are unrolled by the Gallina functions that build the program from the input
   (foreach / repeat_cmd): a model of a C function is a function from the data that decides its control
   flow (list lengths, flags, sizes) to a cmd; early exits are the Returned outcome. *)
From Coq Require Import List Arith Bool NArith Lia.
Import ListNotations.

Notation blk := nat (only parsing).
Notation pvar := nat (only parsing).
Notation lvar := nat (only parsing).

Inductive rcode := OK | ENOMEM | EOTHER.

Definition rcode_eqb (a b : rcode) : bool :=
  match a, b with OK, OK | ENOMEM, ENOMEM | EOTHER, EOTHER => true | _, _ => false end.

Inductive cmd :=
| Skip
| Seq (a b : cmd)
| Malloc (x : pvar)               (* x = yr_malloc / yr_calloc / yr_strdup (...) *)
| ReallocTo (y x : pvar)          (* y = yr_realloc(x, ...): on failure y = NULL and x stays valid *)
| Free (x : pvar)                 (* yr_free(x); free(NULL) is a no-op; freeing a dead block is a fault *)
| IfNull (x : pvar) (a b : cmd)   (* if (x == NULL) a else b *)
| Use (x : pvar)                  (* a dereference of x: fault when x is NULL or dead *)
| Assign (x y : pvar)             (* x = y *)
| SetNull (x : pvar)
| Push (x : pvar) (l : lvar)      (* ownership transfer: x->next = l; l = x *)
| UseList (l : lvar)              (* a traversal of the list: every node is dereferenced *)
| Append (l1 l2 : lvar)           (* l1 = concat(l1, l2): l1 is traversed, l2 keeps pointing into the result *)
| MoveL (l1 l2 : lvar)            (* l1 = l2 *)
| ClearL (l : lvar)               (* l = NULL *)
| FreeList (l : lvar)             (* while (item) { next = item->next; yr_free(item); item = next; }  l keeps its (dangling) value *)
| Return (r : rcode)
| ReturnRc                        (* return <the code of the last call> *)
| Call (c : cmd)                  (* run c as a function: its Return sets rc and control continues here *)
| SetRc (r : rcode)               (* result = r (a local result variable) *)
| IfErr (a b : cmd).              (* if (rc != ERROR_SUCCESS) a else b *)

Record state := mkst {
  live : list blk;          (* the live-allocation set *)
  next : nat;               (* identity of the next block *)
  count : nat;              (* allocations requested so far *)
  pv : pvar -> option blk;
  lv : lvar -> list blk;
  rc : rcode }.

Inductive outcome := Normal | Returned | Fault.

Definition upd {A} (f : nat -> A) (x : nat) (v : A) : nat -> A := fun y => if Nat.eqb y x then v else f y.

Fixpoint memb (b : blk) (l : list blk) : bool :=
  match l with [] => false | c :: t => if Nat.eqb b c then true else memb b t end.

Fixpoint remove1 (b : blk) (l : list blk) : list blk :=
  match l with [] => [] | c :: t => if Nat.eqb b c then t else c :: remove1 b t end.

(* frees the blocks one by one; None when one of them is not live (double free / wild free) *)
Fixpoint free_all (bs : list blk) (lv0 : list blk) : option (list blk) :=
  match bs with
  | [] => Some lv0
  | b :: t => if memb b lv0 then free_all t (remove1 b lv0) else None
  end.

Definition all_live (bs lv0 : list blk) : bool := forallb (fun b => memb b lv0) bs.

Section Exec.
Variable fails : nat -> bool.

Fixpoint exec (c : cmd) (s : state) : outcome * state :=
  match c with
  | Skip => (Normal, s)
  | Seq a b => match exec a s with
               | (Normal, s1) => exec b s1
               | r => r
               end
  | Malloc x =>
      let i := S (count s) in
      if fails i then (Normal, mkst (live s) (next s) i (upd (pv s) x None) (lv s) (rc s))
      else (Normal, mkst (next s :: live s) (S (next s)) i (upd (pv s) x (Some (next s))) (lv s) (rc s))
  | ReallocTo y x =>
      let i := S (count s) in
      if fails i then (Normal, mkst (live s) (next s) i (upd (pv s) y None) (lv s) (rc s))
      else match pv s x with
           | None => (Normal, mkst (next s :: live s) (S (next s)) i (upd (pv s) y (Some (next s))) (lv s) (rc s))
           | Some b => if memb b (live s)
                       then (Normal, mkst (next s :: remove1 b (live s)) (S (next s)) i (upd (pv s) y (Some (next s))) (lv s) (rc s))
                       else (Fault, s)
           end
  | Free x => match pv s x with
              | None => (Normal, s)
              | Some b => if memb b (live s) then (Normal, mkst (remove1 b (live s)) (next s) (count s) (pv s) (lv s) (rc s))
                          else (Fault, s)
              end
  | IfNull x a b => match pv s x with None => exec a s | Some _ => exec b s end
  | Use x => match pv s x with
             | None => (Fault, s)
             | Some b => if memb b (live s) then (Normal, s) else (Fault, s)
             end
  | Assign x y => (Normal, mkst (live s) (next s) (count s) (upd (pv s) x (pv s y)) (lv s) (rc s))
  | SetNull x => (Normal, mkst (live s) (next s) (count s) (upd (pv s) x None) (lv s) (rc s))
  | Push x l => match pv s x with
                | None => (Fault, s)
                | Some b => if memb b (live s)
                            then (Normal, mkst (live s) (next s) (count s) (pv s) (upd (lv s) l (b :: lv s l)) (rc s))
                            else (Fault, s)
                end
  | UseList l => if all_live (lv s l) (live s) then (Normal, s) else (Fault, s)
  | Append l1 l2 => if all_live (lv s l1) (live s)
                    then (Normal, mkst (live s) (next s) (count s) (pv s) (upd (lv s) l1 (lv s l1 ++ lv s l2)) (rc s))
                    else (Fault, s)
  | MoveL l1 l2 => (Normal, mkst (live s) (next s) (count s) (pv s) (upd (lv s) l1 (lv s l2)) (rc s))
  | ClearL l => (Normal, mkst (live s) (next s) (count s) (pv s) (upd (lv s) l []) (rc s))
  | FreeList l => match free_all (lv s l) (live s) with
                  | Some lv' => (Normal, mkst lv' (next s) (count s) (pv s) (lv s) (rc s))
                  | None => (Fault, s)
                  end
  | Return r => (Returned, mkst (live s) (next s) (count s) (pv s) (lv s) r)
  | ReturnRc => (Returned, s)
  | Call c0 => match exec c0 s with
               | (Fault, s1) => (Fault, s1)
               | (_, s1) => (Normal, s1)
               end
  | SetRc r => (Normal, mkst (live s) (next s) (count s) (pv s) (lv s) r)
  | IfErr a b => match rc s with OK => exec b s | _ => exec a s end
  end.
End Exec.

(* ---- program builders (loops over input data) *)
Fixpoint foreach {A} (l : list A) (body : A -> cmd) : cmd :=
  match l with [] => Skip | a :: t => Seq (body a) (foreach t body) end.

Fixpoint repeat_cmd (n : nat) (c : cmd) : cmd :=
  match n with O => Skip | S m => Seq c (repeat_cmd m c) end.

Fixpoint seqs (cs : list cmd) : cmd :=
  match cs with [] => Skip | c :: t => Seq c (seqs t) end.

(* FAIL_ON_ERROR(call) / FAIL_ON_ERROR_WITH_CLEANUP(call, cleanup) of include/yara/error.h *)
Definition fail_on_error (call : cmd) : cmd := Seq (Call call) (IfErr ReturnRc Skip).
Definition fail_on_error_with_cleanup (call cleanup : cmd) : cmd := Seq (Call call) (IfErr (Seq cleanup ReturnRc) Skip).

Definition empty_state : state := mkst [] 0 0 (fun _ => None) (fun _ => []) OK.

(* the two failing sets of the property's quantifier *)
Definition fail_kth (k : nat) : nat -> bool := fun i => Nat.eqb i k.
Definition fail_from (k : nat) : nat -> bool := fun i => andb (Nat.leb 1 k) (Nat.leb k i).

(* ================================================================== translations *)

(* ---- the shared loop body of the atom-list builders and of _yr_arena_make_ptr_relocatable:
        new = yr_malloc(..); if (new == NULL) return ERROR_INSUFFICIENT_MEMORY; <fill new>; new->next = *list; *list = new; *)
Definition alloc_push (x : pvar) (l : lvar) : cmd :=
  Seq (Malloc x) (Seq (IfNull x (Return ENOMEM) Skip) (Seq (Use x) (Push x l))).

(* one inner loop of n iterations per element of ns *)
Definition push_loops (ns : list nat) (x : pvar) (l : lvar) : cmd :=
  foreach ns (fun n => repeat_cmd n (alloc_push x l)).

(* variable names *)
Definition vITEM : pvar := 0.
Definition vNEW : pvar := 1.
Definition lATOMS : lvar := 0.
Definition lWIDE : lvar := 1.
Definition lCI : lvar := 2.
Definition lXOR : lvar := 3.

(* atoms.c:804 _yr_atoms_wide(atoms, &wide_atoms): one new atom per atom *)
Definition atoms_wide (src dst : lvar) (natoms : nat) : cmd :=
  Seq (ClearL dst) (Seq (UseList src) (Seq (push_loops (repeat 1 natoms) vNEW dst) (Return OK))).

(* atoms.c:757 _yr_atoms_xor(atoms, min, max, &xor_atoms): for (j = min; j <= max; j++) per atom *)
Definition xor_iters (xmin xmax : nat) : nat := if Nat.leb xmin xmax then S (xmax - xmin) else 0.
Definition atoms_xor (src dst : lvar) (natoms xmin xmax : nat) : cmd :=
  Seq (ClearL dst) (Seq (UseList src) (Seq (push_loops (repeat (xor_iters xmin xmax) natoms) vNEW dst) (Return OK))).

(* atoms.c:640 _yr_atoms_case_combinations: the atoms written to the output buffer (statement by statement) *)
Definition is_alpha (c : N) : bool := ((97 <=? c) && (c <=? 122) || (65 <=? c) && (c <=? 90))%N.
Definition swap_case (c : N) : N := (if (97 <=? c) && (c <=? 122) then c - 32 else c + 32)%N.
Fixpoint set_nth (l : list N) (i : nat) (v : N) : list N :=
  match l, i with
  | [], _ => []
  | _ :: t, O => v :: t
  | c :: t, S j => c :: set_nth t j v
  end.
Fixpoint case_combinations (fuel : nat) (atom : list N) (off : nat) : list (list N) :=
  match fuel with
  | O => []
  | S f =>
      let first := if Nat.ltb (S off) (length atom) then case_combinations f atom (S off) else [] in
      let c := nth off atom 0%N in
      if is_alpha c then
        let new_atom := set_nth atom off (swap_case c) in
        first ++ [new_atom] ++ (if Nat.ltb (S off) (length atom) then case_combinations f new_atom (S off) else [])
      else first
  end.
Definition case_variants (atom : list N) : list (list N) :=
  match atom with [] => [] | _ => case_combinations (S (length atom)) atom 0 end.

(* atoms.c:697 _yr_atoms_case_insensitive(atoms, &case_insensitive_atoms): one new atom per case variant *)
Definition atoms_case_insensitive (src dst : lvar) (variants_per_atom : list nat) : cmd :=
  Seq (ClearL dst) (Seq (UseList src) (Seq (push_loops variants_per_atom vNEW dst) (Return OK))).

(* the contents of the atoms, computed alongside (they decide the iteration counts) *)
Definition wide_atom (a : list N) : list N := firstn 4 (flat_map (fun c => [c; 0%N]) a).
Definition xor_atom (j : N) (a : list N) : list N := map (fun c => N.lxor c j) a.
Fixpoint nseq (start : N) (n : nat) : list N := match n with O => [] | S m => start :: nseq (N.succ start) m end.

Record atoms_input := mkin {
  in_string : list N;
  in_wide : bool; in_ascii : bool; in_nocase : bool; in_xor : bool;
  in_xmin : nat; in_xmax : nat }.

(* the atom lists as yr_atoms_extract_from_string builds them (new atoms are pushed at the head) *)
Definition atoms0 (i : atoms_input) : list (list N) := [firstn 4 (in_string i)].
Definition atoms1 (i : atoms_input) : list (list N) :=
  if in_wide i then let w := rev (map wide_atom (atoms0 i)) in if in_ascii i then atoms0 i ++ w else w else atoms0 i.
Definition ci_of (l : list (list N)) : list (list N) :=
  fold_left (fun acc a => rev (case_variants a) ++ acc) l [].
Definition atoms2 (i : atoms_input) : list (list N) :=
  if in_nocase i then atoms1 i ++ ci_of (atoms1 i) else atoms1 i.
Definition xor_of (xmin xmax : nat) (l : list (list N)) : list (list N) :=
  fold_left (fun acc a => rev (map (fun j => xor_atom j a) (nseq (N.of_nat xmin) (xor_iters xmin xmax))) ++ acc) l [].
Definition atoms3 (i : atoms_input) : list (list N) :=
  if in_xor i then xor_of (in_xmin i) (in_xmax i) (atoms2 i) else atoms2 i.

Definition destroy2 (a b : lvar) : cmd := Seq (FreeList a) (Seq (FreeList b) (ClearL a)).

(* atoms.c:1364 yr_atoms_extract_from_string *)
Definition extract_from_string (i : atoms_input) : cmd :=
  seqs [
    Malloc vITEM;
    IfNull vITEM (Return ENOMEM) Skip;
    Use vITEM;                                   (* item->... = ...; quality loop *)
    ClearL lATOMS; Push vITEM lATOMS;            (* item->next = NULL; *atoms = item *)
    (if in_wide i then
       Seq (fail_on_error_with_cleanup (atoms_wide lATOMS lWIDE (length (atoms0 i))) (destroy2 lATOMS lWIDE))
           (if in_ascii i then Append lATOMS lWIDE else Seq (FreeList lATOMS) (MoveL lATOMS lWIDE))
     else Skip);
    (if in_nocase i then
       Seq (fail_on_error_with_cleanup (atoms_case_insensitive lATOMS lCI (map (fun a => length (case_variants a)) (atoms1 i)))
                                       (destroy2 lATOMS lCI))
           (Append lATOMS lCI)
     else Skip);
    (if in_xor i then
       Seq (fail_on_error_with_cleanup (atoms_xor lATOMS lXOR (length (atoms2 i)) (in_xmin i) (in_xmax i)) (destroy2 lATOMS lXOR))
           (Seq (FreeList lATOMS) (MoveL lATOMS lXOR))
     else Skip);
    UseList lATOMS;                              (* quality recheck loop *)
    Return OK ].

(* ---- arena.c *)
Definition vARENA : pvar := 10.
Definition vNEWDATA : pvar := 11.
Definition vBUF (i : nat) : pvar := 20 + i.      (* arena->buffers[i].data *)
Definition lRELOCS : lvar := 10.

(* arena.c:231 yr_arena_create *)
Definition arena_create : cmd :=
  seqs [ Malloc vARENA; IfNull vARENA (Return ENOMEM) Skip; Use vARENA; ClearL lRELOCS; Return OK ].

(* arena.c:76 _yr_arena_make_ptr_relocatable: one YR_RELOC per offset, appended to the arena's list;
   on failure the relocs made so far stay in the list (they belong to the arena) *)
Definition arena_make_ptr_relocatable (noffsets : nat) : cmd :=
  Seq (Use vARENA) (Seq (push_loops [noffsets] vNEW lRELOCS) (Return OK)).

(* arena.c:133 _yr_arena_allocate_memory; the buffer bookkeeping is data: *)
Record abuf := mkbuf { b_size : N; b_used : N }.
Fixpoint grow (fuel : nat) (new_size need : N) : N :=
  match fuel with O => new_size | S f => if (new_size <? need)%N then grow f (new_size * 2)%N need else new_size end.
Definition new_size_of (initial : N) (b : abuf) (size : N) : N :=
  grow 80 (if (b_size b =? 0)%N then initial else (b_size b * 2)%N) (b_used b + size)%N.
Inductive alloc_path := NoGrow | TooBig | Grow.
Definition alloc_path_of (initial : N) (b : abuf) (size : N) : alloc_path :=
  if (b_size b - b_used b <? size)%N
  then if (4294967296 <? new_size_of initial b size)%N then TooBig else Grow
  else NoGrow.
Definition arena_allocate (path : alloc_path) (buf : nat) : cmd :=
  Seq (Use vARENA)
  (match path with
   | NoGrow => Return OK
   | TooBig => Return ENOMEM
   | Grow => seqs [ ReallocTo vNEWDATA (vBUF buf);
                    IfNull vNEWDATA (Return ENOMEM) Skip;
                    Use vNEWDATA;                       (* memset of the new part *)
                    UseList lRELOCS;                    (* pointer fix-up walks the relocation list *)
                    Assign (vBUF buf) vNEWDATA;
                    Return OK ]
   end).

(* arena.c:267 yr_arena_release (last reference) *)
Definition arena_release (nbuf : nat) : cmd :=
  Seq (Use vARENA)
  (Seq (foreach (seq 0 nbuf) (fun i => IfNull (vBUF i) Skip (Free (vBUF i))))
  (Seq (FreeList lRELOCS) (Seq (Free vARENA) (Return OK)))).

(* ---- notebook.c *)
Definition vNB : pvar := 40.
Definition vPAGE : pvar := 41.
Definition lPAGES : lvar := 40.
(* notebook.c:76 yr_notebook_create *)
Definition notebook_create : cmd :=
  seqs [ Malloc vNB; IfNull vNB (Return ENOMEM) Skip;
         Malloc vPAGE; IfNull vPAGE (Seq (Free vNB) (Return ENOMEM)) Skip;
         Use vNB; Use vPAGE; ClearL lPAGES; Push vPAGE lPAGES; Return OK ].
(* notebook.c:136 yr_notebook_alloc: a new page when the request does not fit (decided by the data) *)
Definition notebook_alloc (needs_page : bool) : cmd :=
  seqs [ Use vNB; UseList lPAGES;
         (if needs_page then seqs [ Malloc vPAGE; IfNull vPAGE (Return ENOMEM) Skip; Use vPAGE; Push vPAGE lPAGES ] else Skip);
         UseList lPAGES; Return OK ].
(* notebook.c:113 yr_notebook_destroy *)
Definition notebook_destroy : cmd := seqs [ Use vNB; FreeList lPAGES; Free vNB; Return OK ].

(* ---- stack.c *)
Definition vSTACK : pvar := 50.
Definition vITEMS : pvar := 51.
Definition vTMP : pvar := 52.
(* stack.c:42 yr_stack_create *)
Definition stack_create : cmd :=
  seqs [ Malloc vSTACK; IfNull vSTACK (Return ENOMEM) Skip;
         Use vSTACK; Malloc vITEMS;
         IfNull vITEMS (seqs [Free vSTACK; SetNull vSTACK; Return ENOMEM]) Skip;
         Use vSTACK; Return OK ].
(* stack.c:80 yr_stack_push: grows when top == capacity *)
Definition stack_push (full : bool) : cmd :=
  seqs [ Use vSTACK;
         (if full then seqs [ ReallocTo vTMP vITEMS; IfNull vTMP (Return ENOMEM) Skip; Assign vITEMS vTMP ] else Skip);
         Use vITEMS; Return OK ].
(* stack.c:71 yr_stack_destroy *)
Definition stack_destroy : cmd := seqs [ Use vSTACK; Free vITEMS; Free vSTACK ].

(* ---- hash.c *)
Definition vTABLE : pvar := 60.
Definition vENTRY : pvar := 61.
Definition vKEY : pvar := 62.
Definition vNS : pvar := 63.
Definition lENTRIES : lvar := 60.      (* every block reachable from the buckets: entries, keys, namespaces *)
(* hash.c:203 yr_hash_table_create *)
Definition hash_create : cmd :=
  seqs [ Malloc vTABLE; IfNull vTABLE (Return ENOMEM) Skip; Use vTABLE; ClearL lENTRIES; Return OK ].
(* hash.c:323 yr_hash_table_add_raw_key on the table [tbl] whose blocks are [entries] *)
Definition hash_add_to (tbl : pvar) (entries : lvar) (has_ns : bool) : cmd :=
  seqs [ Malloc vENTRY; IfNull vENTRY (Return ENOMEM) Skip;
         Use vENTRY; Malloc vKEY;
         IfNull vKEY (Seq (Free vENTRY) (Return ENOMEM)) Skip;
         (if has_ns then seqs [ Use vENTRY; Malloc vNS;
                                IfNull vNS (seqs [Free vKEY; Free vENTRY; Return ENOMEM]) Skip ]
          else Seq (Use vENTRY) (SetNull vNS));
         Use vENTRY; Use vKEY; Use tbl;
         (if has_ns then Push vNS entries else Skip);
         Push vKEY entries; Push vENTRY entries;
         Return OK ].
Definition hash_add (has_ns : bool) : cmd := hash_add_to vTABLE lENTRIES has_ns.
(* hash.c:225/261 yr_hash_table_clean + yr_hash_table_destroy (free_value == NULL) *)
Definition hash_destroy : cmd := seqs [ Use vTABLE; FreeList lENTRIES; ClearL lENTRIES; Free vTABLE ].

(* ---- scanner.c:238 yr_scanner_create (externals: one YR_OBJECT each, see object.c:51 and :253) *)
Definition vSCANNER : pvar := 70.
Definition vOTABLE : pvar := 71.       (* new_scanner->objects_table *)
Definition vF (i : nat) : pvar := 72 + i.   (* rule_matches_flags, required_eval, ns_unsatisfied_flags, strings_temp_disabled, matches, unconfirmed_matches *)
Definition vOBJ : pvar := 80.
Definition vIDENT : pvar := 81.
Definition vSTR : pvar := 82.
Definition lOBJECTS : lvar := 70.      (* blocks owned by the objects table: entries, keys, objects, identifiers, string values *)

Inductive ext_kind := ExtInt | ExtFloat | ExtStr.

(* scanner.c:334 yr_scanner_destroy on a scanner without fiber / position pools *)
Definition scanner_destroy : cmd :=
  seqs [ Use vSCANNER;
         IfNull vOTABLE Skip (seqs [Use vOTABLE; FreeList lOBJECTS; ClearL lOBJECTS; Free vOTABLE]);
         Free (vF 0); Free (vF 2); Free (vF 1); Free (vF 3); Free (vF 4); Free (vF 5); Free vSCANNER ].

(* object.c:51 yr_object_create (no parent) followed by the set_* of yr_object_from_external_variable (object.c:253) *)
Definition object_from_external (k : ext_kind) : cmd :=
  seqs [ Malloc vOBJ; IfNull vOBJ (Return ENOMEM) Skip;
         Use vOBJ; Malloc vIDENT; Use vOBJ;
         IfNull vIDENT (Seq (Free vOBJ) (Return ENOMEM)) Skip;
         SetNull vSTR;
         (match k with
          | ExtStr => seqs [ Use vOBJ; Malloc vSTR;          (* yr_object_set_string: value.ss = yr_malloc(len + sizeof(SIZED_STRING)) *)
                             IfNull vSTR (seqs [Free vIDENT; Free vOBJ; Return ENOMEM]) Skip; Use vSTR ]   (* yr_object_destroy(obj) *)
          | _ => Use vOBJ
          end);
         Return OK ].

(* calloc(0, ..) may legitimately return NULL: [strings] says whether rules->num_strings > 0 *)
Definition scanner_create (strings : bool) (externals : list ext_kind) : cmd :=
  seqs [ Malloc vSCANNER; IfNull vSCANNER (Return ENOMEM) Skip;
         SetNull vOTABLE; SetNull (vF 0); SetNull (vF 1); SetNull (vF 2); SetNull (vF 3); SetNull (vF 4); SetNull (vF 5);   (* calloc *)
         ClearL lOBJECTS;
         Use vSCANNER;
         fail_on_error_with_cleanup (seqs [Malloc vOTABLE; IfNull vOTABLE (Return ENOMEM) Skip; Use vOTABLE; Return OK]) (Free vSCANNER);
         Use vSCANNER;
         Malloc (vF 0); Malloc (vF 1); Malloc (vF 2); Malloc (vF 3); Malloc (vF 4); Malloc (vF 5);
         IfNull (vF 0) (Seq (Call scanner_destroy) (Return ENOMEM)) Skip;
         IfNull (vF 1) (Seq (Call scanner_destroy) (Return ENOMEM)) Skip;
         IfNull (vF 2) (Seq (Call scanner_destroy) (Return ENOMEM)) Skip;
         IfNull (vF 3) (Seq (Call scanner_destroy) (Return ENOMEM)) Skip;
         (if strings then IfNull (vF 4) (Seq (Call scanner_destroy) (Return ENOMEM)) Skip else Skip);
         (if strings then IfNull (vF 5) (Seq (Call scanner_destroy) (Return ENOMEM)) Skip else Skip);
         foreach externals (fun k =>
           seqs [ fail_on_error_with_cleanup (object_from_external k) (Call scanner_destroy);
                  fail_on_error_with_cleanup (hash_add_to vOTABLE lOBJECTS false)
                                             (seqs [Free vSTR; Free vIDENT; Free vOBJ; Call scanner_destroy]);   (* yr_object_destroy(object) *)
                  IfNull vSTR Skip (Push vSTR lOBJECTS); Push vIDENT lOBJECTS; Push vOBJ lOBJECTS;                                      (* entry->value = object *)
                  Use vOBJ ]);
         Return OK ].

(* ================================================================== script runners (extracted; function-level tie) *)
Definition rc_num (r : rcode) : nat := match r with OK => 0 | ENOMEM => 1 | EOTHER => 2 end.

Definition with_rc (s : state) (r : rcode) : state := mkst (live s) (next s) (count s) (pv s) (lv s) r.

(* one API call; a fault of the model is reported as code 99 *)
Definition run_op (fails : nat -> bool) (c : cmd) (s : state) : nat * state :=
  match exec fails (Call c) (with_rc s OK) with
  | (Fault, s1) => (99, s1)
  | (_, s1) => (rc_num (rc s1), s1)
  end.

Record script_result := mkres { r_ops : list nat; r_live : nat; r_after : nat; r_count : nat }.

Inductive aop := AAlloc (buf : nat) (size : N) | AReloc (buf : nat) (n : nat).

Fixpoint set_buf (bufs : list abuf) (i : nat) (b : abuf) : list abuf :=
  match bufs, i with
  | [], _ => []
  | _ :: t, O => b :: t
  | c :: t, S j => c :: set_buf t j b
  end.

Fixpoint arena_ops (fails : nat -> bool) (initial : N) (ops : list aop) (bufs : list abuf) (s : state) : list nat * state :=
  match ops with
  | [] => ([], s)
  | AAlloc i size :: t =>
      let b := nth i bufs (mkbuf 0 0) in
      let path := alloc_path_of initial b size in
      let '(r, s1) := run_op fails (arena_allocate path i) s in
      let bufs1 := if Nat.eqb r 0
                   then set_buf bufs i (mkbuf (match path with Grow => new_size_of initial b size | _ => b_size b end) (b_used b + size)%N)
                   else bufs in
      let '(rs, s2) := arena_ops fails initial t bufs1 s1 in (r :: rs, s2)
  | AReloc i n0 :: t =>
      (* the driver only names offsets inside memory the buffer already has *)
      let n := if (b_used (nth i bufs (mkbuf 0 0)) <? 32)%N then 0 else n0 in
      let '(r, s1) := run_op fails (arena_make_ptr_relocatable n) s in
      let '(rs, s2) := arena_ops fails initial t bufs s1 in (r :: rs, s2)
  end.

Definition arena_script (fails : nat -> bool) (nbuf : nat) (initial : N) (ops : list aop) : script_result :=
  let '(r0, s0) := run_op fails arena_create empty_state in
  if Nat.eqb r0 0 then
    let '(rs, s1) := arena_ops fails initial ops (repeat (mkbuf 0 0) nbuf) s0 in
    let '(_, s2) := run_op (fun _ => false) (arena_release nbuf) s1 in
    mkres (r0 :: rs) (length (live s1)) (length (live s2)) (count s1)
  else mkres [r0] (length (live s0)) (length (live s0)) (count s0).

(* notebook: page bookkeeping as in notebook.c:136 *)
Fixpoint notebook_ops (fails : nat -> bool) (min_page : N) (sizes : list N) (psize pused : N) (s : state) : list nat * state :=
  match sizes with
  | [] => ([], s)
  | sz :: t =>
      let size := (N.land (sz + 7) (N.lnot 7 64))%N in
      let needs := (psize - pused <? size)%N in
      let '(r, s1) := run_op fails (notebook_alloc needs) s in
      let page_size := ((size / min_page) * min_page + min_page)%N in
      let '(ps, pu) := if Nat.eqb r 0 then (if needs then (page_size, size) else (psize, (pused + size)%N)) else (psize, pused) in
      let '(rs, s2) := notebook_ops fails min_page t ps pu s1 in (r :: rs, s2)
  end.

Definition notebook_script (fails : nat -> bool) (min_page : N) (sizes : list N) : script_result :=
  let '(r0, s0) := run_op fails notebook_create empty_state in
  if Nat.eqb r0 0 then
    let '(rs, s1) := notebook_ops fails min_page sizes min_page 0%N s0 in
    let '(_, s2) := run_op (fun _ => false) notebook_destroy s1 in
    mkres (r0 :: rs) (length (live s1)) (length (live s2)) (count s1)
  else mkres [r0] (length (live s0)) (length (live s0)) (count s0).

Fixpoint stack_ops (fails : nat -> bool) (n : nat) (top cap : nat) (s : state) : list nat * state :=
  match n with
  | O => ([], s)
  | S m =>
      let full := Nat.eqb top cap in
      let '(r, s1) := run_op fails (stack_push full) s in
      let '(top1, cap1) := if Nat.eqb r 0 then (S top, if full then 2 * cap else cap) else (top, cap) in
      let '(rs, s2) := stack_ops fails m top1 cap1 s1 in (r :: rs, s2)
  end.

Definition stack_script (fails : nat -> bool) (cap npush : nat) : script_result :=
  let '(r0, s0) := run_op fails stack_create empty_state in
  if Nat.eqb r0 0 then
    let '(rs, s1) := stack_ops fails npush 0 cap s0 in
    let '(_, s2) := run_op (fun _ => false) stack_destroy s1 in
    mkres (r0 :: rs) (length (live s1)) (length (live s2)) (count s1)
  else mkres [r0] (length (live s0)) (length (live s0)) (count s0).

Fixpoint hash_ops (fails : nat -> bool) (entries : list bool) (s : state) : list nat * state :=
  match entries with
  | [] => ([], s)
  | has_ns :: t =>
      let '(r, s1) := run_op fails (hash_add has_ns) s in
      let '(rs, s2) := hash_ops fails t s1 in (r :: rs, s2)
  end.

Definition hash_script (fails : nat -> bool) (entries : list bool) : script_result :=
  let '(r0, s0) := run_op fails hash_create empty_state in
  if Nat.eqb r0 0 then
    let '(rs, s1) := hash_ops fails entries s0 in
    let '(_, s2) := run_op (fun _ => false) hash_destroy s1 in
    mkres (r0 :: rs) (length (live s1)) (length (live s2)) (count s1)
  else mkres [r0] (length (live s0)) (length (live s0)) (count s0).

Definition atoms_destroy : cmd := Seq (FreeList lATOMS) (ClearL lATOMS).

(* r_ops = [rc; number of atoms returned] *)
Definition atoms_script (fails : nat -> bool) (i : atoms_input) : script_result :=
  let '(r0, s0) := run_op fails (extract_from_string i) empty_state in
  let '(_, s1) := run_op (fun _ => false) (if Nat.eqb r0 0 then atoms_destroy else Skip) s0 in
  mkres [r0; length (lv s0 lATOMS)] (length (live s0)) (length (live s1)) (count s0).

Definition scanner_script (fails : nat -> bool) (strings : bool) (externals : list ext_kind) : script_result :=
  let '(r0, s0) := run_op fails (scanner_create strings externals) empty_state in
  let '(_, s1) := run_op (fun _ => false) (if Nat.eqb r0 0 then scanner_destroy else Skip) s0 in
  mkres [r0] (length (live s0)) (length (live s1)) (count s0).

(* plain-typed entry points for the extracted runner *)
Definition al_fails (k sticky : nat) : nat -> bool := if Nat.eqb sticky 0 then fail_kth k else fail_from k.
Definition al_out (r : script_result) : list nat * (nat * (nat * nat)) := (r_ops r, (r_live r, (r_after r, r_count r))).
Definition al_arena (k sticky nbuf : nat) (initial : N) (ops : list (bool * (nat * N))) :=
  al_out (arena_script (al_fails k sticky) nbuf initial
            (map (fun o : bool * (nat * N) => if fst o then AAlloc (fst (snd o)) (snd (snd o)) else AReloc (fst (snd o)) (N.to_nat (snd (snd o)))) ops)).
Definition al_notebook (k sticky : nat) (min_page : N) (sizes : list N) := al_out (notebook_script (al_fails k sticky) min_page sizes).
Definition al_stack (k sticky cap npush : nat) := al_out (stack_script (al_fails k sticky) cap npush).
Definition al_hash (k sticky : nat) (entries : list bool) := al_out (hash_script (al_fails k sticky) entries).
Definition al_atoms (k sticky : nat) (s : list N) (wide ascii nocase xor : bool) (xmin xmax : nat) :=
  al_out (atoms_script (al_fails k sticky) (mkin s wide ascii nocase xor xmin xmax)).
Definition al_scanner (k sticky : nat) (strings : bool) (exts : list nat) :=
  al_out (scanner_script (al_fails k sticky) strings
            (map (fun e : nat => match e with 0 => ExtInt | 1 => ExtFloat | _ => ExtStr end) exts)).
