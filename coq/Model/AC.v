(* The Aho-Corasick scan loop of scanner.c (_yr_scanner_scan_mem_block) over the transition and match
   tables decoded from the compiled image, and the decidable certificate [ac_cert] under which the
   stored automaton reports exactly the atom occurrences.  Definitions only (proofs: Proofs/ACProofs.v). *)
From Coq Require Import List NArith Bool Lia.
From YV Require Import Base.Bytes gen.GenConsts Model.Arena Model.Image.
Import ListNotations.
Local Open Scope N_scope.

(* one input byte: follow failure links (stored in slot 0 of each state) until a state owns a
   transition for the byte, or the root is reached *)
Fixpoint ac_step_fuel (cr : crules) (fuel : nat) (q b : N) : option N :=
  match fuel with
  | O => None
  | S f =>
      let t := tr_at cr (q + b + 1) in
      if code_of t =? b + 1 then Some (next_state t)
      else if q =? 0 then Some 0
      else ac_step_fuel cr f (fail_of cr q) b
  end.

Definition ac_fuel (cr : crules) : nat := S (length (cr_trans cr)).
Definition ac_step (cr : crules) (q b : N) : option N := ac_step_fuel cr (ac_fuel cr) q b.

(* state after consuming a word, starting from q *)
Fixpoint ac_run_from (cr : crules) (q : N) (w : bytes) : option N :=
  match w with
  | [] => Some q
  | b :: r => match ac_step cr q b with Some q' => ac_run_from cr q' r | None => None end
  end.
Definition ac_run (cr : crules) (w : bytes) : option N := ac_run_from cr 0 w.

(* what the scanner hands to the verifier when it stands at position i (after consuming i bytes):
   every entry of the state's match list whose backtrack fits *)
Definition hits_at (cr : crules) (buf : bytes) (i : nat) : list N :=
  match ac_run cr (firstn i buf) with
  | Some q => filter (fun k => am_backtrack (pool_at cr k) <=? N.of_nat i) (match_list cr q)
  | None => []
  end.

(* ---------------------------------------------------------------- certificate *)
Definition prefix_closed (sts : list (N * bytes)) : bool :=
  forallb (fun qp => match rev (snd qp) with
                     | [] => true
                     | _ :: rp => match state_of sts (rev rp) with Some _ => true | None => false end
                     end) sts.

Fixpoint nodup_paths (sts : list (N * bytes)) : bool :=
  match sts with
  | [] => true
  | qp :: r => negb (existsb (fun x => bytes_eqb (snd x) (snd qp)) r) && nodup_paths r
  end.

Definition all_bytes_list : list N := map N.of_nat (seq 0 256).

Definition steps_ok (cr : crules) (sts : list (N * bytes)) : bool :=
  forallb (fun qp =>
    forallb (fun b => match ac_step cr (fst qp) b, state_of sts (lsuf sts (snd qp ++ [b])) with
                      | Some q', Some q'' => q' =? q''
                      | _, _ => false end) all_bytes_list) sts.

(* match list of a state = its own matches followed by the list of its longest proper suffix state *)
Definition lists_ok (cr : crules) (sts : list (N * bytes)) : bool :=
  forallb (fun qp => match own_matches cr sts qp with Some _ => true | None => false end) sts.

Definition ac_cert (cr : crules) : bool :=
  let sts := states cr in
  (match sts with (0, []) :: _ => true | _ => false end) &&
  nodup_paths sts && prefix_closed sts && steps_ok cr sts && lists_ok cr sts &&
  forallb (fun qp => all_bytes (snd qp)) sts.
